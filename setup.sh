#!/bin/sh
# MANIFEST.setup_cmd: build the framework offline from files on disk only.
set -e
cd "$(dirname "$0")"
export CARGO_NET_OFFLINE=true
mkdir -p .cache
python3 tools/extract.py
(cd lean && lake build $(python3 ../tools/registry_targets.py lean))
cp /repo/Cargo.lock harness/Cargo.lock
(cd harness && CARGO_TARGET_DIR=/verif/.cache/target cargo build --offline $(python3 ../tools/registry_targets.py cargo))
echo "setup done"
