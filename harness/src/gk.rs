//! graphkit: drive the REAL `aranya_runtime::ClientState` with crafted commands and an
//! *audit policy* whose rule semantics is a tiny op language interpreted identically by the
//! Lean driver (`AranyaV.Spec.Rule`).
//!
//! A command body is a `;`-separated list of ops (ASCII, this is what `Command::bytes`
//! returns and what the runtime stores):
//!   `s<k>=<v>`  insert fact ("f",[k]) = v           `d<k>`  delete fact ("f",[k])
//!   `a`         append own tag to the fact ("log",[])  (order-sensitive)
//!   `na<k>`     reject unless ("f",[k]) is absent      `np<k>` reject unless present
//!   `x`         reject (after whatever was written before it)
//!   `e<n>`      emit effect n
//!   `t<tag>`    sets the tag used by `a` (default: first 4 bytes of the id, hex)
//! Ops run left to right; a failing op returns `PolicyError::Rejected` immediately, leaving
//! earlier writes in the perspective (the runtime reverts them at origin; in a braid it does
//! not — the model does the same).

use std::cell::RefCell;

use aranya_runtime::{
    policy::{ActionPlacement, CommandPlacement},
    Address, ClientError, ClientState, CmdId, Command, FactPerspective, GraphId, Keys, MaxCut,
    MemSpill, MergeIds, Perspective, Policy, PolicyError, PolicyId, PolicyStore, Prior, Priority,
    Query as _, RuntimeBuffers, Segment as _, Sink, Storage as _, StorageProvider,
};

use crate::Rng;

// ---------------------------------------------------------------------------------- op language

#[derive(Clone, Debug, PartialEq, Eq)]
pub enum Op {
    Set(u64, u64),
    Del(u64),
    Append,
    ReqAbsent(u64),
    ReqPresent(u64),
    Fail,
    Emit(u64),
    Tag(String),
}

pub fn encode_body(ops: &[Op]) -> String {
    ops.iter()
        .map(|o| match o {
            Op::Set(k, v) => format!("s{k}={v}"),
            Op::Del(k) => format!("d{k}"),
            Op::Append => "a".into(),
            Op::ReqAbsent(k) => format!("na{k}"),
            Op::ReqPresent(k) => format!("np{k}"),
            Op::Fail => "x".into(),
            Op::Emit(n) => format!("e{n}"),
            Op::Tag(t) => format!("t{t}"),
        })
        .collect::<Vec<_>>()
        .join(";")
}

pub fn decode_body(s: &str) -> Option<Vec<Op>> {
    let mut out = vec![];
    for part in s.split(';') {
        if part.is_empty() {
            continue;
        }
        let op = if let Some(r) = part.strip_prefix("na") {
            Op::ReqAbsent(r.parse().ok()?)
        } else if let Some(r) = part.strip_prefix("np") {
            Op::ReqPresent(r.parse().ok()?)
        } else if let Some(r) = part.strip_prefix('s') {
            let (k, v) = r.split_once('=')?;
            Op::Set(k.parse().ok()?, v.parse().ok()?)
        } else if let Some(r) = part.strip_prefix('d') {
            Op::Del(r.parse().ok()?)
        } else if part == "a" {
            Op::Append
        } else if part == "x" {
            Op::Fail
        } else if let Some(r) = part.strip_prefix('e') {
            Op::Emit(r.parse().ok()?)
        } else if let Some(r) = part.strip_prefix('t') {
            Op::Tag(r.to_string())
        } else {
            return None;
        };
        out.push(op);
    }
    Some(out)
}

// ---------------------------------------------------------------------------------- commands

#[derive(Clone, Debug)]
pub struct KCmd {
    pub id: CmdId,
    pub parent: Prior<Address>,
    pub prio: Priority,
    pub policy: Option<Vec<u8>>,
    pub data: Vec<u8>,
}

impl Command for KCmd {
    fn priority(&self) -> Priority {
        self.prio.clone()
    }
    fn id(&self) -> CmdId {
        self.id
    }
    fn parent(&self) -> Prior<Address> {
        self.parent
    }
    fn policy(&self) -> Option<&[u8]> {
        self.policy.as_deref()
    }
    fn bytes(&self) -> &[u8] {
        &self.data
    }
}

impl KCmd {
    pub fn max_cut(&self) -> u64 {
        match self.parent {
            Prior::None => 0,
            Prior::Single(p) => mc(p.max_cut) + 1,
            Prior::Merge(l, r) => mc(l.max_cut).max(mc(r.max_cut)) + 1,
        }
    }
    pub fn address(&self) -> Address {
        Address { id: self.id, max_cut: MaxCut::new(self.max_cut()) }
    }
}

pub fn mc(m: MaxCut) -> u64 {
    m.to_string().parse().unwrap()
}

pub fn id_hex(id: CmdId) -> String {
    crate::hex(id.as_bytes())
}

pub fn short(id: CmdId) -> String {
    crate::hex(&id.as_bytes()[..4])
}

pub fn hash_id(data: &[u8]) -> CmdId {
    aranya_runtime::testing::hash_for_testing_only(data)
}

pub fn merge_id(left: CmdId, right: CmdId) -> CmdId {
    let (l, r) = if left < right { (left, right) } else { (right, left) };
    let mut d = b"merge".to_vec();
    d.extend_from_slice(l.as_bytes());
    d.extend_from_slice(r.as_bytes());
    hash_id(&d)
}

pub fn prio_str(p: &Priority) -> String {
    match p {
        Priority::Merge => "merge".into(),
        Priority::Basic(n) => format!("basic:{n}"),
        Priority::Finalize => "finalize".into(),
        Priority::Init => "init".into(),
    }
}

// ---------------------------------------------------------------------------------- audit log

#[derive(Clone, Debug, PartialEq, Eq)]
pub enum Placement {
    Origin,
    Braid,
    OffGraph,
}

#[derive(Clone, Debug)]
pub enum AuditEv {
    /// call_rule(id, placement) -> accepted?
    Rule { id: CmdId, placement: Placement, accepted: bool, was_merge: bool },
    /// policy.merge() called
    MergeBuilt { id: CmdId },
}

thread_local! {
    pub static AUDIT: RefCell<Vec<AuditEv>> = const { RefCell::new(Vec::new()) };
}

pub fn audit_take() -> Vec<AuditEv> {
    AUDIT.with(|a| std::mem::take(&mut *a.borrow_mut()))
}

// ---------------------------------------------------------------------------------- policy

#[derive(Clone, Debug, PartialEq, Eq)]
pub struct KEffect {
    pub cmd: CmdId,
    pub n: u64,
}

#[derive(Clone, Debug, PartialEq, Eq)]
pub enum SinkEv {
    Begin,
    Consume(KEffect),
    Rollback,
    Commit,
}

#[derive(Default, Clone, Debug)]
pub struct KSink {
    pub log: Vec<SinkEv>,
}

impl KSink {
    /// effects that were consumed inside a begin..commit window (committed effects), in order
    pub fn committed(&self) -> Vec<KEffect> {
        let mut out = vec![];
        let mut pending: Vec<KEffect> = vec![];
        for ev in &self.log {
            match ev {
                SinkEv::Begin => pending.clear(),
                SinkEv::Consume(e) => pending.push(e.clone()),
                SinkEv::Rollback => pending.clear(),
                SinkEv::Commit => out.append(&mut pending),
            }
        }
        out
    }
}

impl Sink<KEffect> for KSink {
    fn begin(&mut self) {
        self.log.push(SinkEv::Begin);
    }
    fn consume(&mut self, effect: KEffect) {
        self.log.push(SinkEv::Consume(effect));
    }
    fn rollback(&mut self) {
        self.log.push(SinkEv::Rollback);
    }
    fn commit(&mut self) {
        self.log.push(SinkEv::Commit);
    }
}

pub struct KPolicy {
    pub serial: u32,
}

pub struct KStore {
    pub policy: KPolicy,
}

impl KStore {
    pub fn new() -> Self {
        KStore { policy: KPolicy { serial: 0 } }
    }
}

impl Default for KStore {
    fn default() -> Self {
        Self::new()
    }
}

impl PolicyStore for KStore {
    type Policy = KPolicy;
    type Effect = KEffect;
    fn add_policy(&mut self, _policy: &[u8]) -> Result<PolicyId, PolicyError> {
        Ok(PolicyId::new(0))
    }
    fn get_policy(&self, _id: PolicyId) -> Result<&Self::Policy, PolicyError> {
        Ok(&self.policy)
    }
}

pub fn fkey(k: u64) -> Keys {
    Keys::from_iter([k.to_be_bytes()])
}

/// run a body against a fact perspective; Ok(()) accepted, Err(Rejected) rejected
pub fn run_body(
    id: CmdId,
    body: &[Op],
    facts: &mut impl FactPerspective,
    sink: &mut impl Sink<KEffect>,
) -> Result<(), PolicyError> {
    let mut tag = short(id);
    for op in body {
        match op {
            Op::Set(k, v) => facts
                .insert("f".into(), fkey(*k), v.to_be_bytes().into())
                .map_err(|_| PolicyError::Write)?,
            Op::Del(k) => facts.delete("f".into(), fkey(*k)).map_err(|_| PolicyError::Write)?,
            Op::Append => {
                let cur = facts.query("log", &Keys::default()).map_err(|_| PolicyError::Read)?;
                let new = match cur {
                    Some(c) => [&c[..], b":", tag.as_bytes()].concat(),
                    None => tag.as_bytes().to_vec(),
                };
                facts
                    .insert("log".into(), Keys::default(), new.into())
                    .map_err(|_| PolicyError::Write)?;
            }
            Op::ReqAbsent(k) => {
                if facts.query("f", &fkey(*k)).map_err(|_| PolicyError::Read)?.is_some() {
                    return Err(PolicyError::Rejected);
                }
            }
            Op::ReqPresent(k) => {
                if facts.query("f", &fkey(*k)).map_err(|_| PolicyError::Read)?.is_none() {
                    return Err(PolicyError::Rejected);
                }
            }
            Op::Fail => return Err(PolicyError::Rejected),
            Op::Emit(n) => sink.consume(KEffect { cmd: id, n: *n }),
            Op::Tag(t) => tag = t.clone(),
        }
    }
    Ok(())
}

/// What an action publishes: a list of (priority, body) commands chained on the head.
#[derive(Clone, Debug)]
pub struct KAction {
    pub cmds: Vec<(Priority, Vec<Op>)>,
    /// nonce mixed into the ids
    pub nonce: u64,
    /// if Some: this is a graph-creating action publishing the init command
    pub init: bool,
}

pub fn action_cmd_id(parent: &Prior<Address>, prio: &Priority, body: &str, nonce: u64, k: usize) -> CmdId {
    let mut d = b"act".to_vec();
    match parent {
        Prior::None => {}
        Prior::Single(a) => d.extend_from_slice(a.id.as_bytes()),
        Prior::Merge(a, b) => {
            d.extend_from_slice(a.id.as_bytes());
            d.extend_from_slice(b.id.as_bytes());
        }
    }
    d.extend_from_slice(prio_str(prio).as_bytes());
    d.extend_from_slice(body.as_bytes());
    d.extend_from_slice(&nonce.to_be_bytes());
    d.extend_from_slice(&(k as u64).to_be_bytes());
    hash_id(&d)
}

impl Policy for KPolicy {
    type Action<'a> = KAction;
    type Effect = KEffect;
    type Command<'a> = KCmd;

    fn serial(&self) -> u32 {
        self.serial
    }

    fn call_rule(
        &self,
        command: &impl Command,
        facts: &mut impl FactPerspective,
        sink: &mut impl Sink<Self::Effect>,
        placement: CommandPlacement,
    ) -> Result<(), PolicyError> {
        let was_merge = matches!(command.parent(), Prior::Merge(..));
        let body = std::str::from_utf8(command.bytes())
            .ok()
            .and_then(decode_body)
            .ok_or(PolicyError::Read)?;
        let r = run_body(command.id(), &body, facts, sink);
        let placement = match placement {
            CommandPlacement::OnGraphAtOrigin => Placement::Origin,
            CommandPlacement::OnGraphInBraid => Placement::Braid,
            CommandPlacement::OffGraph => Placement::OffGraph,
        };
        AUDIT.with(|a| {
            a.borrow_mut().push(AuditEv::Rule {
                id: command.id(),
                placement,
                accepted: r.is_ok(),
                was_merge,
            })
        });
        r
    }

    fn call_action(
        &self,
        action: Self::Action<'_>,
        facts: &mut impl Perspective,
        sink: &mut impl Sink<Self::Effect>,
        _placement: ActionPlacement,
    ) -> Result<(), PolicyError> {
        for (k, (prio, body)) in action.cmds.iter().enumerate() {
            let parent = facts.head_address()?;
            let text = encode_body(body);
            let id = action_cmd_id(&parent, prio, &text, action.nonce, k);
            let cmd = KCmd {
                id,
                parent,
                prio: prio.clone(),
                policy: if matches!(parent, Prior::None) { Some(vec![0u8; 8]) } else { None },
                data: text.into_bytes(),
            };
            run_body(id, body, facts, sink)?;
            facts.add_command(&cmd).map_err(|_| PolicyError::Write)?;
        }
        Ok(())
    }

    fn merge<'a>(&self, _target: &'a mut [u8], ids: MergeIds) -> Result<Self::Command<'a>, PolicyError> {
        let (left, right): (Address, Address) = ids.into();
        let id = merge_id(left.id, right.id);
        AUDIT.with(|a| a.borrow_mut().push(AuditEv::MergeBuilt { id }));
        Ok(KCmd { id, parent: Prior::Merge(left, right), prio: Priority::Merge, policy: None, data: vec![] })
    }
}

// ---------------------------------------------------------------------------------- abstract DAGs

#[derive(Clone, Debug)]
pub struct Node {
    pub parents: Vec<usize>,
    pub prio: Priority,
    pub body: Vec<Op>,
}

#[derive(Clone, Debug, Default)]
pub struct Dag {
    pub nodes: Vec<Node>,
}

#[derive(Clone, Debug)]
pub struct DagParams {
    pub max_nodes: usize,
    /// chance (percent) that a new node starts from a non-tip
    pub branch_pct: u64,
    pub merge_pct: u64,
    pub finalize_pct: u64,
    /// number of distinct basic priorities (small => many ties => id tie-breaks)
    pub prios: u32,
    pub keys: u64,
    /// percent of bodies with state-dependent checks
    pub check_pct: u64,
    /// allow parallel finalizes (otherwise finalizes are only placed where all tips are ancestors)
    pub allow_parallel_finalize: bool,
}

impl Default for DagParams {
    fn default() -> Self {
        DagParams {
            max_nodes: 12,
            branch_pct: 35,
            merge_pct: 20,
            finalize_pct: 5,
            prios: 3,
            keys: 4,
            check_pct: 15,
            allow_parallel_finalize: false,
        }
    }
}

impl Dag {
    pub fn ancestors(&self, i: usize) -> Vec<bool> {
        let mut seen = vec![false; self.nodes.len()];
        let mut st = self.nodes[i].parents.clone();
        while let Some(x) = st.pop() {
            if !seen[x] {
                seen[x] = true;
                st.extend(self.nodes[x].parents.iter().copied());
            }
        }
        seen
    }
    pub fn is_anc(&self, a: usize, b: usize) -> bool {
        self.ancestors(b)[a]
    }
    pub fn tips(&self) -> Vec<usize> {
        let mut has_child = vec![false; self.nodes.len()];
        for n in &self.nodes {
            for &p in &n.parents {
                has_child[p] = true;
            }
        }
        (0..self.nodes.len()).filter(|&i| !has_child[i]).collect()
    }
}

pub fn gen_body(rng: &mut Rng, p: &DagParams) -> Vec<Op> {
    let mut b = vec![];
    // quiet commands write no fact at all (segments whose tail / head wrote nothing exercise the
    // storage's "no fact update" shortcuts)
    if rng.chance(15, 100) {
        if rng.chance(1, 2) {
            b.push(Op::Emit(rng.below(1000)));
        }
        return b;
    }
    if rng.chance(p.check_pct, 100) {
        let k = rng.below(p.keys);
        b.push(if rng.chance(1, 2) { Op::ReqAbsent(k) } else { Op::ReqPresent(k) });
    }
    match rng.below(10) {
        0..=3 => b.push(Op::Set(rng.below(p.keys), rng.below(100))),
        4 => b.push(Op::Del(rng.below(p.keys))),
        5..=6 => {}
        _ => {
            b.push(Op::Set(rng.below(p.keys), rng.below(100)));
        }
    }
    if rng.chance(80, 100) {
        b.push(Op::Append);
    }
    if rng.chance(30, 100) {
        b.push(Op::Emit(rng.below(1000)));
    }
    // write-then-check / write-then-fail: the rule has already written when it rejects (the
    // runtime must revert at origin; inside a braid the partial writes stay, as in the model)
    if p.check_pct > 0 && rng.chance(p.check_pct, 200) {
        let k = rng.below(p.keys);
        b.push(match rng.below(3) {
            0 => Op::Fail,
            1 => Op::ReqAbsent(k),
            _ => Op::ReqPresent(k),
        });
        if rng.chance(1, 2) {
            b.push(Op::Set(rng.below(p.keys), rng.below(100)));
        }
    }
    b
}

/// Random DAG: node 0 is init; nodes listed parents-first.
pub fn gen_dag(rng: &mut Rng, p: &DagParams) -> Dag {
    let n = rng.range(2, p.max_nodes.max(2) as u64) as usize;
    let mut d = Dag::default();
    d.nodes.push(Node { parents: vec![], prio: Priority::Init, body: vec![Op::Set(0, 0), Op::Append] });
    while d.nodes.len() < n {
        let tips = d.tips();
        let k = d.nodes.len();
        if k >= 4 && rng.chance(p.merge_pct, 300) {
            // a merge of two incomparable commands that need not be tips: produces bare merge
            // commands as heads whose parents lie below other heads' ancestry (nested merge tips)
            let a = rng.below(k as u64) as usize;
            let b = rng.below(k as u64) as usize;
            if a != b && !d.is_anc(a, b) && !d.is_anc(b, a) {
                let dup = d.nodes.iter().any(|n| n.parents.len() == 2 && ((n.parents[0] == a && n.parents[1] == b) || (n.parents[0] == b && n.parents[1] == a)));
                if !dup {
                    d.nodes.push(Node { parents: vec![a, b], prio: Priority::Merge, body: vec![] });
                    continue;
                }
            }
        }
        if tips.len() >= 2 && rng.chance(p.merge_pct, 100) {
            // merge two tips (antichain by construction), or occasionally any two incomparable nodes
            let a = *rng.pick(&tips);
            let mut b = *rng.pick(&tips);
            if a == b {
                b = tips[(tips.iter().position(|&x| x == a).unwrap() + 1) % tips.len()];
            }
            d.nodes.push(Node { parents: vec![a, b], prio: Priority::Merge, body: vec![] });
            continue;
        }
        let parent = if rng.chance(p.branch_pct, 100) { rng.below(k as u64) as usize } else { *rng.pick(&tips) };
        let mut prio = Priority::Basic(rng.below(p.prios as u64) as u32);
        if rng.chance(p.finalize_pct, 100) {
            // a finalize is legal only if every existing finalize is an ancestor of the parent
            // (or parallel finalizes are allowed on purpose)
            let anc = d.ancestors(parent);
            let ok = d
                .nodes
                .iter()
                .enumerate()
                .all(|(i, nd)| nd.prio != Priority::Finalize || anc[i] || i == parent);
            if ok || p.allow_parallel_finalize {
                prio = Priority::Finalize;
            }
        }
        let body = gen_body(rng, p);
        d.nodes.push(Node { parents: vec![parent], prio, body });
    }
    d
}

/// A wide frontier: a short spine below the init command and `leaves` leaf commands hanging off
/// random spine positions (no merges). Every leaf is a lazy head; because ids are pseudo-random
/// the heads that sort late often branch off *below* the common ancestor of the ones that sort
/// early, and any cap on the number of heads folded (hello head, LCA fold) changes the result.
pub fn gen_wide_dag(rng: &mut Rng, p: &DagParams, leaves: usize) -> Dag {
    let mut d = Dag::default();
    d.nodes.push(Node { parents: vec![], prio: Priority::Init, body: vec![Op::Set(0, 0), Op::Append] });
    let spine = rng.range(1, 4) as usize;
    for i in 0..spine {
        let body = gen_body(rng, p);
        d.nodes.push(Node { parents: vec![i], prio: Priority::Basic(rng.below(p.prios as u64) as u32), body });
    }
    // two modes: leaves spread uniformly over the spine, or (2 in 3) nearly all at the top of the
    // spine with one or two stragglers lower down (the common ancestor of most heads is then high
    // and only the stragglers pull it down)
    let skew = rng.chance(2, 3);
    let low = if skew { rng.range(1, 2) as usize } else { 0 };
    for i in 0..leaves {
        let parent = if !skew {
            rng.below(spine as u64 + 1) as usize
        } else if i < low {
            rng.below(spine as u64) as usize
        } else {
            spine
        };
        let body = gen_body(rng, p);
        d.nodes.push(Node { parents: vec![parent], prio: Priority::Basic(rng.below(p.prios as u64) as u32), body });
    }
    d
}

/// Turn an abstract DAG into real commands (ids from `salt` and the node index, merge ids from
/// the parents like `KPolicy::merge`).
pub fn realize(d: &Dag, salt: u64) -> Vec<KCmd> {
    let mut out: Vec<KCmd> = vec![];
    for (i, n) in d.nodes.iter().enumerate() {
        let parent = match n.parents.len() {
            0 => Prior::None,
            1 => Prior::Single(out[n.parents[0]].address()),
            _ => {
                let (a, b) = (out[n.parents[0]].address(), out[n.parents[1]].address());
                if a.id < b.id {
                    Prior::Merge(a, b)
                } else {
                    Prior::Merge(b, a)
                }
            }
        };
        let id = match parent {
            Prior::Merge(l, r) => merge_id(l.id, r.id),
            _ => {
                let mut dd = b"node".to_vec();
                dd.extend_from_slice(&salt.to_be_bytes());
                dd.extend_from_slice(&(i as u64).to_be_bytes());
                hash_id(&dd)
            }
        };
        out.push(KCmd {
            id,
            parent,
            prio: n.prio.clone(),
            policy: if n.parents.is_empty() { Some(vec![0u8; 8]) } else { None },
            data: encode_body(&n.body).into_bytes(),
        });
    }
    out
}

/// One line per command for the Lean driver:
/// `cmd <idhex> <prio> <parent-ids: - | p | l,r> <body or ->`
pub fn cmd_line(c: &KCmd) -> String {
    let par = match c.parent {
        Prior::None => "-".to_string(),
        Prior::Single(p) => id_hex(p.id),
        Prior::Merge(l, r) => format!("{},{}", id_hex(l.id), id_hex(r.id)),
    };
    let body = String::from_utf8_lossy(&c.data).to_string();
    format!("cmd {} {} {} {}", id_hex(c.id), prio_str(&c.prio), par, if body.is_empty() { "-".into() } else { body })
}

// ---------------------------------------------------------------------------------- replicas

/// A real client over any storage provider.
pub struct Replica<SP: StorageProvider> {
    pub client: ClientState<KStore, SP>,
    pub graph: GraphId,
    pub buffers: RuntimeBuffers<SP::Segment>,
    pub sink: KSink,
}

pub type Trx<SP> = aranya_runtime::Transaction<SP, KStore>;

#[derive(Clone, Debug, PartialEq, Eq)]
pub struct FactRow {
    pub name: String,
    pub keys: Vec<Vec<u8>>,
    pub value: Vec<u8>,
}

pub fn err_name(e: &ClientError) -> String {
    match e {
        ClientError::NoSuchParent(_) => "NoSuchParent".into(),
        ClientError::PolicyError(PolicyError::Rejected) => "Rejected".into(),
        ClientError::PolicyError(p) => format!("Policy:{p:?}"),
        ClientError::StorageError(s) => format!("Storage:{s:?}"),
        ClientError::InitError => "InitError".into(),
        ClientError::SessionDeserialize => "SessionDeserialize".into(),
        ClientError::ParallelFinalize => "ParallelFinalize".into(),
        ClientError::ConcurrentTransaction => "ConcurrentTransaction".into(),
        ClientError::Bug(b) => format!("Bug:{b:?}"),
        _ => "Other".into(),
    }
}

impl<SP: StorageProvider> Replica<SP> {
    pub fn new(provider: SP, graph: GraphId) -> Self {
        Replica {
            client: ClientState::new(KStore::new(), provider),
            graph,
            buffers: RuntimeBuffers::new(),
            sink: KSink::default(),
        }
    }

    pub fn transaction(&mut self) -> Trx<SP> {
        self.client.transaction(self.graph)
    }

    pub fn add(&mut self, trx: &mut Trx<SP>, cmds: &[KCmd]) -> Result<usize, ClientError> {
        self.client
            .add_commands(trx, &mut self.sink, cmds, &mut self.buffers, MemSpill::new)
    }

    pub fn commit(&mut self, trx: Trx<SP>) -> Result<bool, ClientError> {
        self.client.commit(trx, &mut self.sink, &mut self.buffers, MemSpill::new)
    }

    pub fn action(&mut self, act: KAction) -> Result<(), ClientError> {
        self.client
            .action(self.graph, &mut self.sink, act, &mut self.buffers, MemSpill::new)
    }

    pub fn exists(&mut self) -> bool {
        self.client.provider().get_storage(self.graph).is_ok()
    }

    /// committed head ids in head-set order
    pub fn heads(&mut self) -> Vec<CmdId> {
        match self.client.provider().get_storage(self.graph) {
            Ok(s) => s.get_heads().map(|h| h.iter().map(|la| la.id).collect()).unwrap_or_default(),
            Err(_) => vec![],
        }
    }

    pub fn head_addrs(&mut self) -> Vec<Address> {
        match self.client.provider().get_storage(self.graph) {
            Ok(s) => s.get_heads().map(|h| h.iter().map(|la| la.address()).collect()).unwrap_or_default(),
            Err(_) => vec![],
        }
    }

    pub fn hello_head(&mut self) -> Result<Address, ClientError> {
        self.client.hello_head(self.graph)
    }

    /// every fact of the committed fact cache under the names used by the audit policy
    pub fn facts(&mut self) -> Result<Vec<FactRow>, String> {
        let s = self.client.provider().get_storage(self.graph).map_err(|e| format!("{e:?}"))?;
        let fc = s.fact_cache().map_err(|e| format!("{e:?}"))?;
        let mut rows = vec![];
        for name in ["f", "log"] {
            let it = fc.query_prefix(name, &[]).map_err(|e| format!("{e:?}"))?;
            for f in it {
                let f = f.map_err(|e| format!("{e:?}"))?;
                rows.push(FactRow {
                    name: name.to_string(),
                    keys: f.key.iter().map(|k| k.to_vec()).collect(),
                    value: f.value.to_vec(),
                });
            }
        }
        Ok(rows)
    }

    /// All commands reachable from the committed heads, by walking segments through the public
    /// storage API: (id, parents, priority, body, max_cut).
    pub fn walk(&mut self) -> Result<Vec<KCmd>, String> {
        let s = self.client.provider().get_storage(self.graph).map_err(|e| format!("{e:?}"))?;
        let heads: Vec<_> = s.get_heads().map_err(|e| format!("{e:?}"))?.iter().map(|la| la.location()).collect();
        let mut out: Vec<KCmd> = vec![];
        let mut seen_seg = std::collections::BTreeSet::new();
        let mut stack = heads;
        while let Some(loc) = stack.pop() {
            let seg = s.get_segment(loc).map_err(|e| format!("{e:?}"))?;
            let first = seg.first_location();
            if !seen_seg.insert(first) {
                continue;
            }
            for c in seg.get_from(first) {
                out.push(KCmd {
                    id: c.id(),
                    parent: c.parent(),
                    prio: c.priority(),
                    policy: c.policy().map(|p| p.to_vec()),
                    data: c.bytes().to_vec(),
                });
            }
            for p in seg.prior() {
                stack.push(p);
            }
        }
        // NOTE: a segment may extend beyond a head located mid-segment; callers that need the
        // exact committed set filter by ancestry from the head ids.
        Ok(out)
    }

    /// Exact committed command set: ancestors-or-self of the head ids within `walk()`.
    pub fn committed(&mut self) -> Result<Vec<KCmd>, String> {
        let all = self.walk()?;
        let heads = self.heads();
        let by_id: std::collections::BTreeMap<CmdId, &KCmd> = all.iter().map(|c| (c.id, c)).collect();
        let mut keep = std::collections::BTreeSet::new();
        let mut st: Vec<CmdId> = heads;
        while let Some(id) = st.pop() {
            if !keep.insert(id) {
                continue;
            }
            let c = by_id.get(&id).ok_or_else(|| format!("head/parent {} not found by walk", short(id)))?;
            match c.parent {
                Prior::None => {}
                Prior::Single(p) => st.push(p.id),
                Prior::Merge(l, r) => {
                    st.push(l.id);
                    st.push(r.id);
                }
            }
        }
        let mut v: Vec<KCmd> = all.into_iter().filter(|c| keep.contains(&c.id)).collect();
        v.sort_by_key(|c| (c.max_cut(), c.id));
        v.dedup_by_key(|c| c.id);
        Ok(v)
    }
}

pub type MemProvider = aranya_runtime::storage::linear::testing::MemStorageProvider;

pub fn mem_replica(graph: GraphId) -> Replica<MemProvider> {
    Replica::new(MemProvider::default(), graph)
}

pub fn graph_id_of(init: &KCmd) -> GraphId {
    GraphId::transmute(init.id)
}

/// canonical rendering of facts: `name|k1.k2|value` sorted
pub fn show_facts(rows: &[FactRow]) -> String {
    let mut v: Vec<String> = rows
        .iter()
        .map(|r| {
            let keys = r.keys.iter().map(|k| crate::hex(k)).collect::<Vec<_>>().join(".");
            let val = if r.name == "log" {
                String::from_utf8_lossy(&r.value).to_string()
            } else {
                crate::hex(&r.value)
            };
            format!("{}|{}|{}", r.name, if keys.is_empty() { "-".into() } else { keys }, val)
        })
        .collect();
    v.sort();
    if v.is_empty() {
        "[]".into()
    } else {
        format!("[{}]", v.join(","))
    }
}

// ---------------------------------------------------------------------------------- extras

impl<SP: StorageProvider> Replica<SP> {
    /// facts stored right after the command with this address (via `get_fact_perspective`)
    pub fn facts_at(&mut self, addr: Address) -> Result<Vec<FactRow>, String> {
        let buf = &mut self.buffers.traversal.primary;
        let s = self.client.provider().get_storage(self.graph).map_err(|e| format!("{e:?}"))?;
        let loc = s
            .get_location(addr, buf)
            .map_err(|e| format!("{e:?}"))?
            .ok_or_else(|| "not found".to_string())?;
        let fp = s.get_fact_perspective(loc).map_err(|e| format!("{e:?}"))?;
        let mut rows = vec![];
        for name in ["f", "log"] {
            let it = fp.query_prefix(name, &[]).map_err(|e| format!("{e:?}"))?;
            for f in it {
                let f = f.map_err(|e| format!("{e:?}"))?;
                rows.push(FactRow {
                    name: name.to_string(),
                    keys: f.key.iter().map(|k| k.to_vec()).collect(),
                    value: f.value.to_vec(),
                });
            }
        }
        Ok(rows)
    }
}

/// ids of the rule calls made in a braid, in call order, from an audit log slice
pub fn braid_calls(evs: &[AuditEv]) -> Vec<CmdId> {
    evs.iter()
        .filter_map(|e| match e {
            AuditEv::Rule { id, placement: Placement::Braid, .. } => Some(*id),
            _ => None,
        })
        .collect()
}

pub fn show_ids(ids: &[CmdId]) -> String {
    if ids.is_empty() {
        "[]".into()
    } else {
        format!("[{}]", ids.iter().map(|i| short(*i)).collect::<Vec<_>>().join(","))
    }
}

pub fn ids_arg(ids: &[CmdId]) -> String {
    if ids.is_empty() {
        "-".into()
    } else {
        ids.iter().map(|i| id_hex(*i)).collect::<Vec<_>>().join(",")
    }
}

// ---------------------------------------------------------------------------------- Rust-side reference (S-level oracle, independent of the Lean spec)

pub mod oracle {
    use super::*;
    use std::collections::{BTreeMap, BTreeSet};

    #[derive(Clone, Debug, Default, PartialEq, Eq)]
    pub struct OFacts {
        pub f: BTreeMap<u64, u64>,
        pub log: Option<Vec<String>>,
    }

    pub fn show(o: &OFacts) -> String {
        let mut rows: Vec<String> = o
            .f
            .iter()
            .map(|(k, v)| format!("f|{}|{}", crate::hex(&k.to_be_bytes()), crate::hex(&v.to_be_bytes())))
            .collect();
        if let Some(l) = &o.log {
            rows.push(format!("log|-|{}", l.join(":")));
        }
        if rows.is_empty() {
            "[]".into()
        } else {
            format!("[{}]", rows.join(","))
        }
    }

    /// returns accepted?
    pub fn rule(c: &KCmd, s: &mut OFacts) -> bool {
        let body = decode_body(std::str::from_utf8(&c.data).unwrap()).unwrap();
        let mut tag = short(c.id);
        for op in body {
            match op {
                Op::Set(k, v) => {
                    s.f.insert(k, v);
                }
                Op::Del(k) => {
                    s.f.remove(&k);
                }
                Op::Append => s.log.get_or_insert_with(Vec::new).push(tag.clone()),
                Op::ReqAbsent(k) => {
                    if s.f.contains_key(&k) {
                        return false;
                    }
                }
                Op::ReqPresent(k) => {
                    if !s.f.contains_key(&k) {
                        return false;
                    }
                }
                Op::Fail => return false,
                Op::Emit(_) => {}
                Op::Tag(t) => tag = t,
            }
        }
        true
    }

    pub struct OGraph {
        pub cmds: BTreeMap<CmdId, KCmd>,
        pub children: BTreeMap<CmdId, Vec<CmdId>>,
        pub states: BTreeMap<CmdId, Result<OFacts, String>>,
    }

    pub fn parents(c: &KCmd) -> Vec<CmdId> {
        match c.parent {
            Prior::None => vec![],
            Prior::Single(p) => vec![p.id],
            Prior::Merge(l, r) => vec![l.id, r.id],
        }
    }

    impl OGraph {
        /// `cmds` must be parents-first
        pub fn new(cmds: &[KCmd]) -> Self {
            let mut g = OGraph { cmds: BTreeMap::new(), children: BTreeMap::new(), states: BTreeMap::new() };
            for c in cmds {
                g.cmds.insert(c.id, c.clone());
                for p in parents(c) {
                    g.children.entry(p).or_default().push(c.id);
                }
            }
            for c in cmds {
                let st = g.compute_state(c);
                g.states.insert(c.id, st);
            }
            g
        }

        pub fn anc_self(&self, heads: &[CmdId]) -> BTreeSet<CmdId> {
            let mut seen = BTreeSet::new();
            let mut st: Vec<CmdId> = heads.to_vec();
            while let Some(x) = st.pop() {
                if seen.insert(x) {
                    if let Some(c) = self.cmds.get(&x) {
                        st.extend(parents(c));
                    }
                }
            }
            seen
        }

        pub fn is_anc(&self, a: CmdId, b: CmdId) -> bool {
            a != b && self.anc_self(&[b]).contains(&a)
        }

        pub fn frontier(&self) -> Vec<CmdId> {
            let mut v: Vec<CmdId> = self
                .cmds
                .keys()
                .filter(|id| self.children.get(id).map_or(true, |c| c.is_empty()))
                .copied()
                .collect();
            v.sort();
            v
        }

        /// reference braid: (start, order) or Err("ParallelFinalize")
        pub fn braid(&self, heads: &[CmdId]) -> Result<(CmdId, Vec<CmdId>), String> {
            let region = self.anc_self(heads);
            let mut avail: Vec<CmdId> = vec![];
            let is_fin = |id: &CmdId| self.cmds[id].prio == Priority::Finalize;
            for h in heads {
                if is_fin(h) && avail.iter().any(is_fin) {
                    return Err("ParallelFinalize".into());
                }
                avail.push(*h);
            }
            let mut processed: BTreeSet<CmdId> = BTreeSet::new();
            let mut out = vec![];
            loop {
                if avail.len() == 1 {
                    out.reverse();
                    return Ok((avail[0], out));
                }
                let m = *avail
                    .iter()
                    .min_by_key(|id| (self.cmds[id].prio.clone(), **id))
                    .ok_or_else(|| "malformed".to_string())?;
                avail.retain(|x| *x != m);
                processed.insert(m);
                let c = &self.cmds[&m];
                if !matches!(c.parent, Prior::Merge(..)) {
                    out.push(m);
                }
                for p in parents(c) {
                    if avail.contains(&p) {
                        continue;
                    }
                    let ready = self
                        .children
                        .get(&p)
                        .map_or(true, |ch| ch.iter().filter(|x| region.contains(x)).all(|x| processed.contains(x)));
                    if ready {
                        if is_fin(&p) && avail.iter().any(is_fin) {
                            return Err("ParallelFinalize".into());
                        }
                        avail.push(p);
                    }
                }
            }
        }

        fn compute_state(&self, c: &KCmd) -> Result<OFacts, String> {
            match c.parent {
                Prior::None => {
                    let mut s = OFacts::default();
                    rule(c, &mut s);
                    Ok(s)
                }
                Prior::Single(p) => {
                    let mut s = self.states.get(&p.id).ok_or("missing parent state")?.clone()?;
                    rule(c, &mut s);
                    Ok(s)
                }
                Prior::Merge(l, r) => self.facts_of(&[l.id, r.id]),
            }
        }

        pub fn facts_of(&self, heads: &[CmdId]) -> Result<OFacts, String> {
            if heads.len() == 1 {
                return self.states.get(&heads[0]).ok_or("missing state")?.clone();
            }
            let (start, order) = self.braid(heads)?;
            let mut s = self.states.get(&start).ok_or("missing start state")?.clone()?;
            for id in order {
                rule(&self.cmds[&id], &mut s);
            }
            Ok(s)
        }
    }
}
