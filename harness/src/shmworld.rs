//! The AFC shared-memory channel table under the cooperative scheduler (C40, C41, C42).
//!
//! One REAL `WriteState` thread (worker 0) and 1–3 REAL `ReadState` threads (worker `i + 1` =
//! reader `i`), each with its own mapping of one POSIX shared-memory object, run small
//! programs of operations.  The verification hooks park every thread before each
//! shared-memory access (offset loads / swap / store, generation loads / increments, `len`
//! updates, and the operations of the futex mutex with the futex itself routed to the
//! scheduler); the scheduler (main thread) decides every step.  Every step becomes one request
//! line for the Lean transition system (`Driver/Shm.lean`), answered by the real side with
//! the raw contents of the shared memory after the step (`verif_snapshot`), the label of the
//! thread's next yield point and the operation's result if it returned.
//!
//! The S-level oracles (independent of the Lean model) evaluate C40 / C41 / C42 on the real
//! results against a sequential specification of the writer's operations.

use std::{
    cell::RefCell,
    sync::{
        atomic::{AtomicU32, AtomicU64, Ordering},
        Arc, Mutex as StdMutex,
    },
};

use aranya_crypto::{
    afc::{AuthData, OpenKey, RawOpenKey, RawSealKey, SealKey, Seq},
    dangerous::spideroak_crypto::csprng::{Csprng, Random},
    default::DefaultCipherSuite,
    policy::LabelId,
    DeviceId,
};
use aranya_fast_channels::{
    shm::{self, Flag, Mode as ShmMode, Path, ReadState, VerifSnapshot, WriteState},
    AfcState, AranyaState, ChannelDirection, Client, Directed, Error, LocalChannelId, Version,
};

use crate::{
    coop::{self, Chooser, Dfs, Sched, St},
    fnv, Recorder, Rng,
};

pub type CS = DefaultCipherSuite;
type Cl = Client<ReadState<CS>>;
const OVERHEAD: usize = Cl::OVERHEAD;
const HDR: usize = OVERHEAD - SealKey::<CS>::OVERHEAD;

// ------------------------------------------------------------------ operations

#[derive(Clone, Debug, PartialEq)]
pub enum Pred {
    All,
    None,
    Par(u64),
    Dir(u64),
    IdLt(u64),
    IdGe(u64),
}

impl Pred {
    pub fn eval(&self, id: u64, dir: u64, par: u64) -> bool {
        match self {
            Pred::All => true,
            Pred::None => false,
            Pred::Par(v) => par == *v,
            Pred::Dir(d) => dir == *d,
            Pred::IdLt(n) => id < *n,
            Pred::IdGe(n) => id >= *n,
        }
    }
    fn text(&self) -> String {
        match self {
            Pred::All => "all".into(),
            Pred::None => "none".into(),
            Pred::Par(v) => format!("par {v}"),
            Pred::Dir(d) => format!("dir {d}"),
            Pred::IdLt(n) => format!("idlt {n}"),
            Pred::IdGe(n) => format!("idge {n}"),
        }
    }
    fn parse(t: &[&str]) -> Option<Pred> {
        Some(match t {
            ["all"] => Pred::All,
            ["none"] => Pred::None,
            ["par", v] => Pred::Par(v.parse().ok()?),
            ["dir", v] => Pred::Dir(v.parse().ok()?),
            ["idlt", v] => Pred::IdLt(v.parse().ok()?),
            ["idge", v] => Pred::IdGe(v.parse().ok()?),
            _ => return None,
        })
    }
}

#[derive(Clone, Debug, PartialEq)]
pub enum WOp {
    /// dir: 1 = SealOnly, 2 = OpenOnly; par = label index
    Add { dir: u64, par: u64 },
    Rm(u64),
    RmAll,
    RmIf(Pred),
    Ex(u64),
}

impl WOp {
    /// the text after `wb ` in the request line (also the program token, with `.` for spaces)
    pub fn text(&self) -> String {
        match self {
            WOp::Add { dir, par } => format!("add {dir} {par}"),
            WOp::Rm(x) => format!("rm {x}"),
            WOp::RmAll => "rmall".into(),
            WOp::RmIf(p) => format!("rmif {}", p.text()),
            WOp::Ex(x) => format!("ex {x}"),
        }
    }
    pub fn parse(t: &[&str]) -> Option<WOp> {
        Some(match t {
            ["add", d, p] => {
                let d: u64 = d.parse().ok()?;
                if d != 1 && d != 2 {
                    return None;
                }
                WOp::Add { dir: d, par: p.parse().ok()? }
            }
            ["rm", x] => WOp::Rm(x.parse().ok()?),
            ["rmall"] => WOp::RmAll,
            ["rmif", rest @ ..] => WOp::RmIf(Pred::parse(rest)?),
            ["ex", x] => WOp::Ex(x.parse().ok()?),
            _ => return None,
        })
    }
}

#[derive(Clone, Debug, PartialEq)]
pub enum ROp {
    Setup { seal: bool, x: u64 },
    /// `kth`: the context is the `kth % n`-th of this reader's `n` seal contexts (skipped if it
    /// has none).  fail: 0 = none, 1 = the closure fails without touching the key, 2 = the real
    /// AEAD fails (destination too small)
    Seal { kth: usize, fail: u8 },
    Open { kth: usize, fail: bool },
    Ex(u64),
}

impl ROp {
    pub fn text(&self) -> String {
        match self {
            ROp::Setup { seal, x } => format!("setup {} {x}", if *seal { "s" } else { "o" }),
            ROp::Seal { kth, fail } => format!("seal {kth} {fail}"),
            ROp::Open { kth, fail } => format!("open {kth} {}", *fail as u8),
            ROp::Ex(x) => format!("ex {x}"),
        }
    }
    pub fn parse(t: &[&str]) -> Option<ROp> {
        Some(match t {
            ["setup", "s", x] => ROp::Setup { seal: true, x: x.parse().ok()? },
            ["setup", "o", x] => ROp::Setup { seal: false, x: x.parse().ok()? },
            ["seal", k, f] => ROp::Seal { kth: k.parse().ok()?, fail: f.parse::<u8>().ok()?.min(2) },
            ["open", k, f] => ROp::Open { kth: k.parse().ok()?, fail: f.parse::<u8>().ok()? != 0 },
            ["ex", x] => ROp::Ex(x.parse().ok()?),
            _ => return None,
        })
    }
}

#[derive(Clone, Debug)]
pub struct Spec {
    pub cap: usize,
    pub keyseed: u64,
    /// the first `warm` writer operations run to completion before any reader is scheduled
    pub warm: usize,
    pub wprog: Vec<WOp>,
    pub rprogs: Vec<Vec<ROp>>,
}

impl Spec {
    fn prog_lines(&self) -> Vec<String> {
        let j = |v: Vec<String>| v.iter().map(|s| s.replace(' ', ".")).collect::<Vec<_>>().join(" ");
        let mut out = vec![format!("m prog w {} {} {}", self.keyseed, self.warm, j(self.wprog.iter().map(|o| o.text()).collect()))];
        for (i, p) in self.rprogs.iter().enumerate() {
            out.push(format!("m prog r{i} {}", j(p.iter().map(|o| o.text()).collect())));
        }
        out
    }
    /// rebuild a case from the request lines of a replay (`new`, `m prog …`)
    pub fn from_lines(lines: &[String]) -> Option<Spec> {
        let t: Vec<&str> = lines.first()?.split(' ').collect();
        if t.len() != 3 || t[0] != "new" {
            return None;
        }
        let cap: usize = t[1].parse().ok()?;
        let n: usize = t[2].parse().ok()?;
        let mut sp = Spec { cap: cap.clamp(1, 16), keyseed: 1, warm: 0, wprog: vec![], rprogs: vec![vec![]; n.clamp(1, 4)] };
        for l in &lines[1..] {
            let t: Vec<&str> = l.split(' ').filter(|x| !x.is_empty()).collect();
            if t.len() >= 3 && t[0] == "m" && t[1] == "prog" {
                if t[2] == "w" {
                    sp.keyseed = t.get(3).and_then(|x| x.parse().ok()).unwrap_or(1);
                    sp.warm = t.get(4).and_then(|x| x.parse().ok()).unwrap_or(0);
                    for tok in t.iter().skip(5) {
                        let parts: Vec<&str> = tok.split('.').collect();
                        if let Some(op) = WOp::parse(&parts) {
                            sp.wprog.push(op);
                        }
                    }
                } else if let Some(i) = t[2].strip_prefix('r').and_then(|x| x.parse::<usize>().ok()) {
                    if i < sp.rprogs.len() {
                        for tok in t.iter().skip(3) {
                            let parts: Vec<&str> = tok.split('.').collect();
                            if let Some(op) = ROp::parse(&parts) {
                                sp.rprogs[i].push(op);
                            }
                        }
                    }
                }
            }
        }
        Some(sp)
    }
}

// ------------------------------------------------------------------ key material, ids

struct DetRng(RefCell<Rng>);
impl Csprng for DetRng {
    fn fill_bytes(&self, dst: &mut [u8]) {
        let mut r = self.0.borrow_mut();
        for b in dst {
            *b = r.next_u64() as u8;
        }
    }
}

/// the raw key of the channel that the `x`-th `add` of the case creates (= channel id `x`)
fn raw_key(keyseed: u64, x: u64) -> RawSealKey<CS> {
    let rng = DetRng(RefCell::new(Rng::new(keyseed.wrapping_mul(0x1000_0000_01b3) ^ x)));
    RawSealKey::<CS>::random(&rng)
}
fn raw_open(k: &RawSealKey<CS>) -> RawOpenKey<CS> {
    RawOpenKey::<CS> { key: k.key.clone(), base_nonce: k.base_nonce.clone() }
}

pub fn label_id(i: u64) -> LabelId {
    let mut b = [0u8; 32];
    b[..8].copy_from_slice(&i.to_le_bytes());
    b[31] = 0x4c;
    LabelId::from_bytes(b)
}
fn label_par(l: LabelId) -> u64 {
    let mut x = [0u8; 8];
    x.copy_from_slice(&l.as_bytes()[..8]);
    u64::from_le_bytes(x)
}

/// `LocalChannelId` has no public constructor; it is a serde newtype over `u64`
pub fn chan_id(x: u64) -> LocalChannelId {
    serde_json::from_str(&x.to_string()).expect("LocalChannelId from u64")
}
pub fn chan_num(id: LocalChannelId) -> u64 {
    id.to_string().parse().expect("LocalChannelId display")
}

fn err_kind(e: &Error) -> String {
    match e {
        Error::NotFound(_) => "nf".into(),
        Error::KeyExpired => "ke".into(),
        Error::Authentication => "ferr".into(),
        Error::OutOfSpace => "oos".into(),
        other => format!("err:{}", format!("{other:?}").split(|c: char| !c.is_alphanumeric()).next().unwrap_or("?")),
    }
}

// ------------------------------------------------------------------ hooks

static HOOKS: std::sync::Once = std::sync::Once::new();

fn hook(label: &'static str) {
    coop::yield_point(label);
}
fn futex_wait(addr: &AtomicU32, val: u32) -> bool {
    if coop::current().is_none() {
        return false;
    }
    // the yield point "fwait" has been passed: this is the atomic compare-and-enqueue
    if addr.load(Ordering::SeqCst) != val {
        return true;
    }
    coop::sleep();
    true
}
fn futex_wake(_addr: &AtomicU32, _cnt: u32) -> bool {
    // the scheduler released the sleeper (if any) before it granted the "wake" step
    coop::current().is_some()
}

pub fn install_hooks() {
    HOOKS.call_once(|| {
        aranya_fast_channels::verif::set_hook(hook);
        aranya_fast_channels::verif::set_futex_hooks(futex_wait, futex_wake);
    });
}

// ------------------------------------------------------------------ workers

#[derive(Default)]
struct Slots {
    /// description of the operation a worker has just started (`wb …` / `rb i …` / `nop`)
    desc: Vec<Option<String>>,
    /// result of the operation a worker has just finished
    result: Vec<Option<String>>,
    /// (reader, context number) → channel id, kind; written by the workers for the oracles
    ctx_info: Vec<Vec<(u64, bool)>>,
}

struct RCtx {
    seal: Option<<ReadState<CS> as AfcState>::SealCtx>,
    open: Option<<ReadState<CS> as AfcState>::OpenCtx>,
    id: u64,
}

fn writer_main(ws: WriteState<CS, aranya_crypto::Rng>, prog: Vec<WOp>, keyseed: u64, slots: Arc<StdMutex<Slots>>) {
    let mut adds = 0u64;
    for op in prog {
        coop::yield_point("op");
        slots.lock().unwrap().desc[0] = Some(format!("wb {}", op.text()));
        let res: String = match &op {
            WOp::Add { dir, par } => {
                let raw = raw_key(keyseed, adds);
                adds += 1;
                let keys = if *dir == 1 {
                    Directed::SealOnly { seal: raw }
                } else {
                    Directed::OpenOnly { open: raw_open(&raw) }
                };
                match ws.add(keys, label_id(*par), DeviceId::default()) {
                    Ok(id) => format!("id{}", chan_num(id)),
                    Err(shm::Error::OutOfSpace) => "oos".into(),
                    Err(e) => format!("err:{e:?}").replace(' ', "_"),
                }
            }
            WOp::Rm(x) => match ws.remove(chan_id(*x)) {
                Ok(()) => "ok".into(),
                Err(e) => format!("err:{e:?}").replace(' ', "_"),
            },
            WOp::RmAll => match ws.remove_all() {
                Ok(()) => "ok".into(),
                Err(e) => format!("err:{e:?}").replace(' ', "_"),
            },
            WOp::RmIf(p) => {
                let p = p.clone();
                match ws.remove_if(|q| {
                    let dir = match q.direction {
                        ChannelDirection::Seal => 1,
                        ChannelDirection::Open => 2,
                    };
                    p.eval(chan_num(q.local_channel_id), dir, label_par(q.label_id))
                }) {
                    Ok(()) => "ok".into(),
                    Err(e) => format!("err:{e:?}").replace(' ', "_"),
                }
            }
            WOp::Ex(x) => match ws.exists(chan_id(*x)) {
                Ok(b) => format!("b{}", b as u8),
                Err(e) => format!("err:{e:?}").replace(' ', "_"),
            },
        };
        slots.lock().unwrap().result[0] = Some(res);
    }
}

fn reader_main(i: usize, rs: ReadState<CS>, prog: Vec<ROp>, keyseed: u64, addinfo: Vec<(u64, u64)>, slots: Arc<StdMutex<Slots>>) {
    let label_of = |x: u64| label_id(addinfo.get(x as usize).map_or(0, |c| c.1));
    let t = i + 1;
    let cl = Cl::new(rs);
    let mut ctxs: Vec<RCtx> = vec![];
    let pt = b"verif-afc";
    for op in prog {
        coop::yield_point("op");
        // resolve the context
        let pick = |ctxs: &Vec<RCtx>, want_seal: bool, kth: usize| -> Option<usize> {
            let c: Vec<usize> =
                (0..ctxs.len()).filter(|&j| if want_seal { ctxs[j].seal.is_some() } else { ctxs[j].open.is_some() }).collect();
            if c.is_empty() {
                None
            } else {
                Some(c[kth % c.len()])
            }
        };
        let desc = match &op {
            ROp::Setup { seal, x } => Some(format!("rb {i} setup {} {x}", if *seal { "s" } else { "o" })),
            ROp::Ex(x) => Some(format!("rb {i} ex {x}")),
            ROp::Seal { kth, fail } => pick(&ctxs, true, *kth).map(|k| format!("rb {i} seal {k} {}", (*fail != 0) as u8)),
            ROp::Open { kth, fail } => pick(&ctxs, false, *kth).map(|k| format!("rb {i} open {k} {}", *fail as u8)),
        };
        let Some(desc) = desc else {
            slots.lock().unwrap().desc[t] = Some("nop".into());
            continue;
        };
        slots.lock().unwrap().desc[t] = Some(desc);
        let res: String = match &op {
            ROp::Setup { seal, x } => {
                let r = if *seal {
                    cl.setup_seal_ctx(chan_id(*x)).map(|c| RCtx { seal: Some(c), open: None, id: *x })
                } else {
                    cl.setup_open_ctx(chan_id(*x)).map(|c| RCtx { seal: None, open: Some(c), id: *x })
                };
                match r {
                    Ok(c) => {
                        ctxs.push(c);
                        slots.lock().unwrap().ctx_info[i].push((*x, *seal));
                        format!("ctx{}", ctxs.len() - 1)
                    }
                    Err(e) => err_kind(&e),
                }
            }
            ROp::Ex(x) => match cl.state().exists(chan_id(*x)) {
                Ok(b) => format!("b{}", b as u8),
                Err(e) => err_kind(&e),
            },
            ROp::Seal { kth, fail } => {
                let k = pick(&ctxs, true, *kth).unwrap();
                let x = ctxs[k].id;
                let ctx = ctxs[k].seal.as_mut().unwrap();
                match *fail {
                    0 => {
                        let mut dst = vec![0u8; pt.len() + OVERHEAD];
                        match cl.seal(ctx, &mut dst, pt) {
                            Ok(_) => {
                                let seq = u64::from_le_bytes(dst[dst.len() - HDR..].try_into().unwrap());
                                // the ciphertext must open under channel x's key at that sequence number
                                let ok = OpenKey::<CS>::from_raw(&raw_open(&raw_key(keyseed, x)))
                                    .ok()
                                    .and_then(|k| {
                                        let mut out = vec![0u8; pt.len()];
                                        let ad = AuthData { version: u32::from(Version::V1 as u16), label_id: label_of(x) };
                                        k.open(&mut out, &dst[..dst.len() - HDR], &ad, Seq::new(seq)).ok().map(|_| out == pt)
                                    })
                                    .unwrap_or(false);
                                if ok {
                                    format!("seq{seq}")
                                } else {
                                    format!("seq{seq}!badct")
                                }
                            }
                            Err(e) => err_kind(&e),
                        }
                    }
                    1 => match cl.state().seal(ctx, |_k, _l| Err::<(), Error>(Error::Authentication)) {
                        Ok(Ok(())) => "err:closure-ok".into(),
                        Ok(Err(_)) => "ferr".into(),
                        Err(e) => err_kind(&e),
                    },
                    _ => {
                        let mut adv = false;
                        let r = cl.state().seal(ctx, |k, l| {
                            let before = k.seq();
                            let ad = AuthData { version: u32::from(Version::V1 as u16), label_id: l };
                            let mut small = [0u8; 4];
                            let r = k.seal(&mut small, pt, &ad).map_err(Error::from);
                            if r.is_err() && k.seq() != before {
                                adv = true;
                            }
                            r
                        });
                        match r {
                            Ok(Ok(q)) => format!("seq{}", u64::from(q)),
                            Ok(Err(_)) => {
                                if adv {
                                    "ferr!seq-advanced".into()
                                } else {
                                    "ferr".into()
                                }
                            }
                            Err(e) => err_kind(&e),
                        }
                    }
                }
            }
            ROp::Open { kth, fail } => {
                let k = pick(&ctxs, false, *kth).unwrap();
                let x = ctxs[k].id;
                let ctx = ctxs[k].open.as_mut().unwrap();
                // a genuine message of channel x (sealed with the peer's half of the key)
                let mut wire = vec![0u8; pt.len() + OVERHEAD];
                let n = wire.len();
                let ad = AuthData { version: u32::from(Version::V1 as u16), label_id: label_of(x) };
                let sealed = SealKey::<CS>::from_raw(&raw_key(keyseed, x), Seq::new(3))
                    .ok()
                    .and_then(|mut sk| sk.seal(&mut wire[..n - HDR], pt, &ad).ok());
                if let Some(q) = sealed {
                    wire[n - HDR..].copy_from_slice(&u64::from(q).to_le_bytes());
                }
                if *fail {
                    wire[0] ^= 0x40;
                }
                let mut dst = vec![0u8; pt.len()];
                let res = match cl.open(ctx, &mut dst, &wire) {
                    Ok((l, q)) => {
                        if dst == pt && u64::from(q) == 3 && l == label_of(x) { "opened".to_string() } else { "opened!badpt".to_string() }
                    }
                    Err(e) => err_kind(&e),
                };
                res
            }
        };
        slots.lock().unwrap().result[t] = Some(res);
    }
}

/// number of label indices (`par`) the generators use
pub const PARS: u64 = 3;

// ------------------------------------------------------------------ the scheduler

pub enum Mode<'a> {
    Dfs(&'a mut Dfs),
    Random { rng: &'a mut Rng, sticky: u64, spur_pct: u64 },
    Replay { lines: Vec<String>, pos: usize },
}

#[derive(Default, Debug)]
pub struct Outcome {
    pub steps: usize,
    pub visible: usize,
    pub mutex_steps: usize,
    pub sleeps: usize,
    pub contended: usize,
    pub cache_miss_locks: usize,
    pub results: Vec<(usize, String, String)>,
    pub sig: u64,
    /// oracle failures: (property, text)
    pub fails: Vec<(&'static str, String)>,
}

static COUNTER: AtomicU64 = AtomicU64::new(0);
const STEP_CAP: usize = 50_000;

fn is_mutex_label(l: &str) -> bool {
    matches!(l, "fast" | "load" | "cas" | "swap" | "fwait" | "woken" | "asleep")
}
fn canon(st: St) -> &'static str {
    match st {
        St::Done => "op",
        St::Panicked => "panic",
        St::Asleep => "lock",
        St::Running => "running",
        St::AtYield(l) if is_mutex_label(l) => "lock",
        St::AtYield(l) => l,
    }
}

fn chans_str(c: &[(u64, u32)]) -> String {
    if c.is_empty() {
        "-".into()
    } else {
        c.iter().map(|(i, d)| format!("{i}.{d}")).collect::<Vec<_>>().join(",")
    }
}
fn snap_str(s: &VerifSnapshot) -> String {
    format!(
        "r{}w{} n{} {}:{} {}:{} {}{}",
        s.read_side,
        s.write_side,
        s.next_chan_id,
        s.sides[0].generation,
        chans_str(&s.sides[0].chans),
        s.sides[1].generation,
        chans_str(&s.sides[1].chans),
        (s.sides[0].mutex_word != 0) as u8,
        (s.sides[1].mutex_word != 0) as u8
    )
}

/// sequential specification of the table: (id, dir, par), in table order
type Table = Vec<(u64, u64, u64)>;

fn spec_apply(cap: usize, tab: &Table, op: &WOp, next_id: u64) -> Table {
    let mut t = tab.clone();
    match op {
        WOp::Add { dir, par } => {
            if t.len() < cap {
                t.push((next_id, *dir, *par));
            }
        }
        WOp::Rm(x) => {
            if let Some(i) = t.iter().position(|c| c.0 == *x) {
                t.swap_remove(i);
            }
        }
        WOp::RmAll => t.clear(),
        WOp::RmIf(p) => {
            let mut i = 0;
            while i < t.len() {
                if p.eval(t[i].0, t[i].1, t[i].2) {
                    t.swap_remove(i);
                } else {
                    i += 1;
                }
            }
        }
        WOp::Ex(_) => {}
    }
    t
}

fn ids_dirs(t: &Table) -> Vec<(u64, u32)> {
    t.iter().map(|c| (c.0, c.1 as u32)).collect()
}

/// in-flight reader operation, for the oracles
#[derive(Clone, Debug)]
struct RFlight {
    desc: String,
    target: Option<u64>,
    /// the target id's removal had returned when the operation began
    dead_at_begin: bool,
    /// the target was in every table the writer produced since the operation began
    stable: bool,
    /// ids of the side the reader locked, at lock time
    locked: Option<Vec<(u64, u32)>>,
}

pub fn run_case(rec: &mut Recorder, spec: &Spec, mode: &mut Mode) -> Outcome {
    install_hooks();
    let n = spec.rprogs.len();
    let nthreads = n + 1;
    let name = format!("/vh-shm-{}-{}\0", std::process::id(), COUNTER.fetch_add(1, Ordering::SeqCst));
    let path: &Path = Path::from_bytes(name.as_bytes()).expect("shm path");
    let _ = shm::unlink(path);
    let ws = WriteState::<CS, _>::open(path, Flag::Create, ShmMode::ReadWrite, spec.cap, aranya_crypto::Rng).expect("create shm");
    let obs = ReadState::<CS>::open(path, Flag::OpenOnly, ShmMode::ReadWrite, spec.cap).expect("open shm");
    let slots = Arc::new(StdMutex::new(Slots {
        desc: vec![None; nthreads],
        result: vec![None; nthreads],
        ctx_info: vec![vec![]; n],
    }));
    let sched = Sched::new(nthreads);
    let mut handles = vec![];
    {
        let (sched, slots, prog, ks) = (sched.clone(), slots.clone(), spec.wprog.clone(), spec.keyseed);
        handles.push(std::thread::spawn(move || {
            let _g = coop::enter(&sched, 0);
            writer_main(ws, prog, ks, slots);
        }));
    }
    let addinfo: Vec<(u64, u64)> =
        spec.wprog.iter().filter_map(|o| if let WOp::Add { dir, par } = o { Some((*dir, *par)) } else { None }).collect();
    for i in 0..n {
        let rs = ReadState::<CS>::open(path, Flag::OpenOnly, ShmMode::ReadWrite, spec.cap).expect("open shm");
        let (sched, slots, prog, ks, addinfo) = (sched.clone(), slots.clone(), spec.rprogs[i].clone(), spec.keyseed, addinfo.clone());
        handles.push(std::thread::spawn(move || {
            let _g = coop::enter(&sched, i + 1);
            reader_main(i, rs, prog, ks, addinfo, slots);
        }));
    }
    rec.line(format!("new {} {}", spec.cap, n), "ok");
    for l in spec.prog_lines() {
        rec.line(l, "m");
    }

    let mut out = Outcome::default();
    let mut fails: Vec<(&'static str, String)> = vec![];
    let mut sig = String::new();
    let mut last: Option<usize> = None;
    // which side a thread is locking / holding (for the routed futex wake)
    let mut target: Vec<Option<u8>> = vec![None; nthreads];
    let mut abandoned = false;

    // ---- oracle state
    let mut table: Table = vec![]; // contents after the writer's last finished operation
    let mut pending: Option<(WOp, Table)> = None; // operation in flight and the table it produces
    let mut adds_begun = 0u64;
    let mut max_id: Option<u64> = None;
    let mut dead: Vec<u64> = vec![];
    let mut flights: Vec<Option<RFlight>> = vec![None; n];
    let mut expired: Vec<Vec<bool>> = vec![vec![]; n]; // per reader context: a seal returned NotFound
    let mut next_seq: Vec<Vec<u64>> = vec![vec![]; n];
    let mut widx = 0usize;
    let mut wret = 0usize; // writer operations that have returned

    loop {
        let st = match sched.quiesce() {
            Ok(s) => s,
            Err(e) => {
                fails.push(("all", e));
                abandoned = true;
                break;
            }
        };
        if let Some(p) = st.iter().position(|s| *s == St::Panicked) {
            let m = format!("thread {p} panicked");
            if !rec.panics.contains(&m) {
                rec.panics.push(m);
            }
        }
        if st.iter().all(|s| matches!(s, St::Done | St::Panicked)) {
            break;
        }
        let sleepers: Vec<usize> = (0..nthreads).filter(|&t| st[t] == St::Asleep).collect();
        let runnable: Vec<usize> = (0..nthreads).filter(|&t| matches!(st[t], St::AtYield(_))).collect();
        if runnable.is_empty() {
            fails.push(("all", format!("deadlock: threads {sleepers:?} asleep in a futex, nobody runnable")));
            for &w in &sleepers {
                sched.release(w);
                rec.line(format!("m {w} spur"), "m");
            }
            continue;
        }
        if out.steps >= STEP_CAP {
            fails.push(("all", format!("no termination within {STEP_CAP} steps")));
            abandoned = true;
            break;
        }
        // ---- choose
        let mut spur: Option<usize> = None;
        let mut wake_pref: Option<usize> = None;
        let warming = wret < spec.warm && runnable.contains(&0);
        let t = if warming { 0 } else { match mode {
            Mode::Dfs(d) => runnable[d.choose(runnable.len())],
            Mode::Random { rng, sticky, spur_pct } => {
                if !sleepers.is_empty() && rng.below(100) < *spur_pct {
                    spur = Some(*rng.pick(&sleepers));
                    0
                } else if last.is_some_and(|l| runnable.contains(&l)) && rng.below(100) < *sticky {
                    last.unwrap()
                } else {
                    *rng.pick(&runnable)
                }
            }
            Mode::Replay { lines, pos } => {
                let mut pick = None;
                while *pos < lines.len() && pick.is_none() {
                    let tk: Vec<&str> = lines[*pos].split(' ').filter(|x| !x.is_empty()).collect();
                    *pos += 1;
                    let th = match tk.as_slice() {
                        ["wb", ..] | ["ws", ..] => Some(0),
                        ["rb", i, ..] | ["rs", i, ..] => i.parse::<usize>().ok().map(|i| i + 1),
                        ["m", w, "spur"] => {
                            if let Ok(w) = w.parse::<usize>() {
                                if sleepers.contains(&w) {
                                    spur = Some(w);
                                    pick = Some(0);
                                }
                            }
                            None
                        }
                        ["m", "prog", ..] => None,
                        ["m", t, ..] => t.parse::<usize>().ok(),
                        _ => None,
                    };
                    if let Some(th) = th {
                        if runnable.contains(&th) {
                            pick = Some(th);
                            wake_pref = tk.last().and_then(|x| x.strip_prefix('w')).and_then(|x| x.parse().ok());
                        }
                    }
                }
                pick.unwrap_or(runnable[0])
            }
        } };
        out.steps += 1;
        if let Some(w) = spur {
            sched.release(w);
            rec.line(format!("m {w} spur"), "m");
            sig.push_str(&format!("p{w};"));
            continue;
        }
        let St::AtYield(label) = st[t] else { unreachable!() };
        last = Some(t);
        sig.push_str(&format!("{t}{label};"));
        let before = obs.verif_snapshot();
        match label {
            "roff.load" | "roff.swap" => target[t] = Some(before.read_side),
            "woff.load" => target[t] = Some(before.write_side),
            _ => {}
        }
        let mut new = sched.grant(t).unwrap_or(St::Panicked);
        let mut extra = String::new();
        if label == "unlock" && new == St::AtYield("wake") {
            // futex_wake(1): the kernel releases one sleeper of that futex, if any
            let cands: Vec<usize> = sleepers.iter().copied().filter(|&w| target[w] == target[t]).collect();
            if !cands.is_empty() {
                let w = match wake_pref {
                    Some(w) if cands.contains(&w) => w,
                    _ => match mode {
                        Mode::Dfs(d) => cands[d.choose(cands.len())],
                        Mode::Random { rng, .. } => *rng.pick(&cands),
                        Mode::Replay { .. } => cands[0],
                    },
                };
                sched.release(w);
                extra = format!(" w{w}");
            }
            new = sched.grant(t).unwrap_or(St::Panicked);
        }
        if new == St::Asleep {
            out.sleeps += 1;
        }
        let after = obs.verif_snapshot();
        let returned = matches!(new, St::AtYield("op") | St::Done | St::Panicked);
        let result = if returned { slots.lock().unwrap().result[t].take() } else { None };
        let who = if t == 0 { "w".to_string() } else { format!("r {}", t - 1) };
        // ---- the request line
        let mut visible = true;
        let mut acquired = false;
        let req = if label == "op" {
            let d = slots.lock().unwrap().desc[t].take();
            match d.as_deref() {
                Some("nop") | None => {
                    visible = false;
                    format!("m {t} nop")
                }
                Some(d) => d.to_string(),
            }
        } else if matches!(label, "fast" | "cas" | "swap") {
            let failed = matches!(new, St::Asleep) || matches!(new, St::AtYield(l) if is_mutex_label(l));
            if failed {
                visible = false;
                if label == "fast" {
                    out.contended += 1;
                }
                format!("m {t} {label}")
            } else {
                acquired = true;
                if t == 0 { "ws lock".to_string() } else { format!("rs {} lock", t - 1) }
            }
        } else if is_mutex_label(label) || label == "wake" {
            visible = false;
            format!("m {t} {label}")
        } else if t == 0 {
            format!("ws {label}{extra}")
        } else {
            format!("rs {} {label}{extra}", t - 1)
        };
        if visible {
            out.visible += 1;
            let mut ans = format!("{} {}", snap_str(&after), canon(new));
            if let Some(r) = &result {
                ans.push_str(&format!(" ret {}", r.split('!').next().unwrap()));
            }
            rec.line(req.clone(), ans);
        } else {
            out.mutex_steps += 1;
            rec.line(req.clone(), "m");
            // a stutter must not change the table
            if (after.read_side, after.write_side, after.next_chan_id) != (before.read_side, before.write_side, before.next_chan_id)
                || after.sides[0].chans != before.sides[0].chans
                || after.sides[1].chans != before.sides[1].chans
                || after.sides[0].generation != before.sides[0].generation
                || after.sides[1].generation != before.sides[1].generation
            {
                fails.push(("C42", format!("step `{req}` inside the mutex changed the table: {} -> {}", snap_str(&before), snap_str(&after))));
            }
        }

        // ================================================================ oracles
        // -- operation begins
        if label == "op" && visible {
            if t == 0 {
                let op = spec.wprog[widx].clone();
                widx += 1;
                let nid = adds_begun;
                if matches!(op, WOp::Add { .. }) {
                    adds_begun += 1;
                }
                let post = spec_apply(spec.cap, &table, &op, nid);
                // readers in flight: is their target in the new table as well?
                for f in flights.iter_mut().flatten() {
                    if let Some(x) = f.target {
                        if !post.iter().any(|c| c.0 == x) {
                            f.stable = false;
                        }
                    }
                }
                pending = Some((op, post));
            } else {
                let i = t - 1;
                let tk: Vec<&str> = req.split(' ').collect();
                let info = slots.lock().unwrap().ctx_info[i].clone();
                let tgt: Option<u64> = match tk.get(2).copied() {
                    Some("setup") | Some("ex") => tk.last().and_then(|x| x.parse().ok()),
                    Some("seal") | Some("open") => tk.get(3).and_then(|k| k.parse::<usize>().ok()).and_then(|k| info.get(k).map(|c| c.0)),
                    _ => None,
                };
                let present_now = |x: u64| {
                    table.iter().any(|c| c.0 == x) && pending.as_ref().map_or(true, |(_, p)| p.iter().any(|c| c.0 == x))
                };
                flights[i] = Some(RFlight {
                    desc: req.clone(),
                    target: tgt,
                    dead_at_begin: tgt.is_some_and(|x| dead.contains(&x)),
                    stable: tgt.is_some_and(present_now),
                    locked: None,
                });
            }
        }
        // -- a reader acquired a list lock: the table it consults
        if acquired && t > 0 {
            out.cache_miss_locks += 1;
            if let Some(sd) = target[t] {
                let content = after.sides[sd.min(1) as usize].chans.clone();
                let mut produced = vec![ids_dirs(&table)];
                if let Some((_, p)) = &pending {
                    produced.push(ids_dirs(p));
                }
                if !produced.contains(&content) {
                    fails.push((
                        "C42",
                        format!(
                            "reader {} locked side {sd} holding [{}], which is not a table the writer produced (before/after the operation in flight: {})",
                            t - 1,
                            chans_str(&content),
                            produced.iter().map(|p| format!("[{}]", chans_str(p))).collect::<Vec<_>>().join(" / ")
                        ),
                    ));
                }
                if let Some(f) = flights[t - 1].as_mut() {
                    f.locked = Some(content);
                }
            }
        }
        // -- removed channels never reappear, in any list, at any time
        for sd in 0..2 {
            for (id, _) in &after.sides[sd].chans {
                if dead.contains(id) {
                    fails.push(("C41", format!("removed channel {id} is in side {sd} again after `{req}`: {}", snap_str(&after))));
                }
            }
        }
        // -- operation returns
        if let Some(r) = result {
            out.results.push((t, who.clone(), r.clone()));
            if r.contains('!') || r.starts_with("err:") {
                let p = if r.contains("seq-advanced") || r.contains("badct") { "C40" } else { "all" };
                fails.push((p, format!("{who}: unexpected result `{r}`")));
            }
            if t == 0 {
                wret += 1;
                if let Some((op, post)) = pending.take() {
                    match &op {
                        WOp::Add { .. } => {
                            let full = table.len() >= spec.cap;
                            if full != (r == "oos") {
                                fails.push(("C42", format!("add returned `{r}` with {} of {} slots in use (OutOfSpace expected exactly when full)", table.len(), spec.cap)));
                            }
                            if let Some(id) = r.strip_prefix("id").and_then(|x| x.parse::<u64>().ok()) {
                                if max_id.is_some_and(|m| id <= m) {
                                    fails.push(("C42", format!("add returned id {id}, not larger than the earlier id {}", max_id.unwrap())));
                                }
                                if post.last().map(|c| c.0) != Some(id) {
                                    fails.push(("C42", format!("add returned id {id}; the {}-th add is expected to get id {}", adds_begun, adds_begun - 1)));
                                }
                                max_id = Some(max_id.map_or(id, |m| m.max(id)));
                            }
                        }
                        WOp::Ex(x) => {
                            let want = table.iter().any(|c| c.0 == *x);
                            if r != format!("b{}", want as u8) {
                                fails.push(("C42", format!("writer exists({x}) returned `{r}`, table is [{}]", chans_str(&ids_dirs(&table)))));
                            }
                        }
                        _ => {
                            if r != "ok" {
                                fails.push(("C42", format!("writer `{}` returned `{r}`", op.text())));
                            }
                            for c in &table {
                                if !post.iter().any(|d| d.0 == c.0) && !dead.contains(&c.0) {
                                    dead.push(c.0);
                                }
                            }
                        }
                    }
                    table = post;
                }
            } else if let Some(f) = flights[t - 1].take() {
                let i = t - 1;
                let tk: Vec<&str> = f.desc.split(' ').collect();
                let kind = tk.get(2).copied().unwrap_or("");
                let k: usize = tk.get(3).and_then(|x| x.parse().ok()).unwrap_or(0);
                let failflag = tk.get(4).copied() == Some("1");
                while expired[i].len() <= k {
                    expired[i].push(false);
                    next_seq[i].push(0);
                }
                let succeeded = r.starts_with("seq") || r == "opened" || r.starts_with("ctx") || r == "b1" || r == "ferr";
                // C41: removal takes effect for operations that start afterwards
                if f.dead_at_begin {
                    let ok = match kind {
                        "setup" => r == "nf",
                        "ex" => r == "b0",
                        "seal" => r == "nf" || (r == "ke" && expired[i][k]),
                        "open" => r == "nf",
                        _ => true,
                    };
                    if !ok {
                        fails.push((
                            "C41",
                            format!(
                                "`{}` started after the removal of channel {} had returned, result `{r}`{}",
                                f.desc,
                                f.target.unwrap_or(0),
                                if succeeded { " (the channel is still usable)" } else { "" }
                            ),
                        ));
                    }
                }
                // C41: channels that are not removed keep working
                if f.stable && !f.dead_at_begin {
                    let dir_ok = |want: u64| f.target.is_some_and(|x| table.iter().any(|c| c.0 == x && c.1 == want));
                    let ok = match kind {
                        "ex" => r == "b1",
                        "setup" => {
                            let want = if tk.get(3).copied() == Some("s") { 1 } else { 2 };
                            if dir_ok(want) { r.starts_with("ctx") } else { r == "nf" }
                        }
                        "seal" => {
                            if expired[i][k] { r == "ke" } else if failflag { r == "ferr" } else { r.starts_with("seq") }
                        }
                        "open" => {
                            if failflag { r == "ferr" } else { r == "opened" }
                        }
                        _ => true,
                    };
                    if !ok {
                        fails.push(("C41", format!("`{}` on channel {} (present throughout) returned `{r}`", f.desc, f.target.unwrap_or(0))));
                    }
                }
                // C42: what a reader reports is what the locked table holds
                if let (Some(content), Some(x)) = (&f.locked, f.target) {
                    let has = content.iter().any(|c| c.0 == x);
                    let bad = match kind {
                        "ex" => r != format!("b{}", has as u8),
                        "setup" | "seal" | "open" => (r == "nf") == content.iter().any(|c| {
                            c.0 == x && c.1 == if kind == "open" || tk.get(3).copied() == Some("o") { 2 } else { 1 }
                        }),
                        _ => false,
                    };
                    if bad {
                        fails.push(("C42", format!("`{}` returned `{r}` but the table it locked was [{}]", f.desc, chans_str(content))));
                    }
                }
                // C40: sequence numbers of successful seals on one context are 0, 1, 2, …
                if kind == "seal" {
                    if let Some(q) = r.strip_prefix("seq").and_then(|x| x.split('!').next()).and_then(|x| x.parse::<u64>().ok()) {
                        if q != next_seq[i][k] {
                            fails.push(("C40", format!("`{}`: successful seal number {} of this context carries sequence number {q}", f.desc, next_seq[i][k])));
                        }
                        next_seq[i][k] = q + 1;
                    }
                    if r == "nf" {
                        expired[i][k] = true;
                    }
                }
            }
        }
        // -- C42: the two copies agree whenever no writer operation is in progress
        if pending.is_none() && matches!(canon(if t == 0 { new } else { st[0] }), "op") {
            let (a, b) = (&after.sides[0], &after.sides[1]);
            let want = ids_dirs(&table);
            if a.chans != b.chans || a.generation != b.generation || a.chans != want || after.read_side == after.write_side {
                fails.push(("C42", format!("writer idle but the copies differ or are not the table [{}]: {}", chans_str(&want), snap_str(&after))));
            }
        }
        if after.sides[0].len > after.sides[0].cap || after.sides[1].len > after.sides[1].cap {
            fails.push(("C42", format!("len exceeds cap: {after:?}")));
        }
    }
    if !abandoned {
        for h in handles {
            let _ = h.join();
        }
        let fin = obs.verif_snapshot();
        rec.line("end", format!("end {}", snap_str(&fin)));
    }
    drop(obs);
    let _ = shm::unlink(path);
    fails.dedup();
    out.fails = fails;
    out.sig = fnv(&sig);
    out
}

// ------------------------------------------------------------------ generators

pub struct GenCfg {
    pub readers: usize,
    pub wops: usize,
    pub rops: usize,
    /// 0 = table consistency (C42), 1 = removals (C41), 2 = seal loops (C40)
    pub focus: u8,
}

pub fn gen_spec(rng: &mut Rng, cfg: &GenCfg) -> Spec {
    let cap = *rng.pick(&[1usize, 2, 2, 3, 3, 4]);
    let mut wprog = vec![];
    let mut adds = 0u64;
    // start with a few channels so that readers have something to look up
    let pre = rng.range(1, cap as u64);
    for _ in 0..pre {
        let dir = if cfg.focus == 2 { 1 } else { rng.range(1, 2) };
        wprog.push(WOp::Add { dir, par: rng.below(PARS) });
        adds += 1;
    }
    for _ in 0..cfg.wops {
        let r = rng.below(100);
        let anyid = |rng: &mut Rng, adds: u64| rng.below(adds + 1);
        let op = if cfg.focus == 2 {
            // other channels come and go, channel 0 stays
            match r {
                0..=44 => WOp::Add { dir: rng.range(1, 2), par: rng.below(PARS) },
                45..=74 => WOp::Rm(1 + rng.below(adds.max(1))),
                75..=89 => WOp::RmIf(Pred::IdGe(1 + rng.below(2))),
                _ => WOp::RmIf(Pred::None),
            }
        } else {
            match r {
                0..=34 => WOp::Add { dir: rng.range(1, 2), par: rng.below(PARS) },
                35..=59 => WOp::Rm(anyid(rng, adds)),
                60..=67 => WOp::RmAll,
                68..=89 => WOp::RmIf(match rng.below(6) {
                    0 => Pred::All,
                    1 => Pred::None,
                    2 => Pred::Par(rng.below(PARS)),
                    3 => Pred::Dir(rng.range(1, 2)),
                    4 => Pred::IdLt(anyid(rng, adds)),
                    _ => Pred::IdGe(anyid(rng, adds)),
                }),
                _ => WOp::Ex(anyid(rng, adds)),
            }
        };
        if matches!(op, WOp::Add { .. }) {
            adds += 1;
        }
        wprog.push(op);
    }
    let mut rprogs = vec![];
    for _ in 0..cfg.readers {
        let mut p = vec![];
        let x0 = if cfg.focus == 2 { 0 } else { rng.below(adds.max(1)) };
        p.push(ROp::Setup { seal: cfg.focus == 2 || rng.chance(1, 2), x: x0 });
        for _ in 0..cfg.rops {
            let r = rng.below(100);
            let op = if cfg.focus == 2 {
                match r {
                    0..=79 => ROp::Seal { kth: 0, fail: *rng.pick(&[0u8, 0, 0, 1, 2]) },
                    80..=89 => ROp::Ex(rng.below(adds + 1)),
                    _ => ROp::Setup { seal: true, x: rng.below(adds + 1) },
                }
            } else {
                match r {
                    0..=19 => ROp::Setup { seal: rng.chance(1, 2), x: rng.below(adds + 1) },
                    20..=49 => ROp::Seal { kth: rng.below(3) as usize, fail: *rng.pick(&[0u8, 0, 0, 1, 2]) },
                    50..=79 => ROp::Open { kth: rng.below(3) as usize, fail: rng.chance(1, 5) },
                    _ => ROp::Ex(rng.below(adds + 1)),
                }
            };
            p.push(op);
        }
        rprogs.push(p);
    }
    Spec { cap, keyseed: rng.next_u64() >> 16, warm: pre as usize, wprog, rprogs }
}

pub fn account(rec: &mut Recorder, kind: &str, spec: &Spec, o: &Outcome) {
    rec.count(&format!("runs:{kind}"));
    rec.count(&format!("readers:{}", spec.rprogs.len()));
    rec.count(&format!("cap:{}", spec.cap));
    rec.count_n("steps", o.steps as u64);
    rec.count_n("steps:table", o.visible as u64);
    rec.count_n("steps:mutex-internal", o.mutex_steps as u64);
    rec.count_n("futex-sleeps", o.sleeps as u64);
    rec.count_n("contended-locks", o.contended as u64);
    rec.count_n("reader-list-locks", o.cache_miss_locks as u64);
    for (t, _, r) in &o.results {
        let class: String = r.chars().take_while(|c| c.is_ascii_alphabetic()).collect();
        rec.count(&format!("{}:{}", if *t == 0 { "writer" } else { "reader" }, class));
    }
    for op in &spec.wprog {
        rec.count(&format!("wop:{}", op.text().split(' ').next().unwrap()));
    }
}

// ------------------------------------------------------------------ shared `main` of c40 / c41

/// enforce `prop`'s oracles (and the ones common to all); other properties' findings are noted
pub fn report(rec: &mut Recorder, prop: &str, o: &Outcome) {
    for (p, f) in &o.fails {
        if *p == prop || *p == "all" {
            rec.oracle_fail(f.clone());
        } else {
            rec.count(&format!("other-property-oracle:{p}"));
            if rec.notes.len() < 20 {
                rec.notes.push(format!("[{p}] {f}"));
            }
        }
    }
}

pub fn replay_cases(rec: &mut Recorder, prop: &str, lines: &[String]) {
    let mut i = 0;
    while i < lines.len() {
        if lines[i].starts_with("new ") {
            let mut j = i + 1;
            while j < lines.len() && !lines[j].starts_with("new ") && !lines[j].starts_with("mnew ") {
                j += 1;
            }
            if let Some(spec) = Spec::from_lines(&lines[i..j]) {
                rec.begin_case();
                let sched: Vec<String> = lines[i + 1..j].iter().filter(|l| *l != "end").cloned().collect();
                let o = run_case(rec, &spec, &mut Mode::Replay { lines: sched, pos: 0 });
                account(rec, "replay", &spec, &o);
                report(rec, prop, &o);
            }
            i = j;
        } else {
            i += 1;
        }
    }
}

/// exhaustive small-depth schedules of the fixed programs, then `cases` random ones
pub fn drive(rec: &mut Recorder, prop: &str, focus: u8, fixed: &[(Spec, usize)], seed: u64, cases: usize, min_visible: usize) {
    for (spec, depth) in fixed {
        let mut dfs = Dfs::new(*depth);
        let mut runs = 0u64;
        loop {
            rec.begin_case();
            let o = run_case(rec, spec, &mut Mode::Dfs(&mut dfs));
            account(rec, "exhaustive", spec, &o);
            report(rec, prop, &o);
            if o.visible >= min_visible {
                rec.nontrivial(o.sig);
            }
            runs += 1;
            if !dfs.advance() {
                break;
            }
        }
        rec.notes.push(format!(
            "exhaustive: cap {} / {} writer ops / {} readers, all schedules to decision depth {depth}: {runs} runs",
            spec.cap,
            spec.wprog.len(),
            spec.rprogs.len()
        ));
    }
    let mut rng = Rng::new(seed);
    for c in 0..cases {
        let cfg = GenCfg { readers: rng.range(1, 3) as usize, wops: rng.range(2, 7) as usize, rops: rng.range(3, 9) as usize, focus };
        let spec = gen_spec(&mut rng, &cfg);
        let sticky = *rng.pick(&[0u64, 40, 70, 85, 95]);
        let spur_pct = *rng.pick(&[0u64, 0, 0, 5]);
        rec.begin_case();
        let o = run_case(rec, &spec, &mut Mode::Random { rng: &mut rng, sticky, spur_pct });
        account(rec, "random", &spec, &o);
        report(rec, prop, &o);
        if o.visible >= min_visible {
            rec.nontrivial(o.sig);
        }
        if c < 2 {
            rec.sample(rec.current_case_lines().join("; "));
        }
    }
}

// ------------------------------------------------------------------ the in-memory state

use aranya_fast_channels::memory;

type MState = memory::State<CS>;

struct MCtxReal {
    seal: Option<memory::SealCtx<CS>>,
    open: Option<memory::OpenCtx<CS>>,
    id: u64,
    is_seal: bool,
    next_seq: u64,
}

/// One case on the REAL `memory::State` (`AranyaState` half and `AfcState` half are clones of
/// one state, as in the daemon): a random sequence of operations, each answered by the Lean
/// model `AranyaV.ShmMem` (`mo …` lines).  Operations run one at a time: the state serialises
/// them with its mutex, the lock-free `Loan` fast path is the subject of C44.
pub fn run_mem_case(rec: &mut Recorder, rng: &mut Rng, nops: usize, lines: Option<(u64, &[String])>) -> Vec<(&'static str, String)> {
    let mut fails: Vec<(&'static str, String)> = vec![];
    let st = MState::new();
    let wr = st.clone();
    let cl = Client::new(st);
    rec.line("mnew", "ok");
    let keyseed = match &lines {
        Some((k, _)) => *k,
        None => rng.next_u64() >> 16,
    };
    rec.line(format!("m memseed {keyseed}"), "m");
    let mut ctxs: Vec<MCtxReal> = vec![];
    // specification: channels in the map (id, dir, par)
    let mut tab: Vec<(u64, u64, u64)> = vec![];
    let mut addinfo: Vec<(u64, u64)> = vec![];
    let mut ever: u64 = 0;
    // successful seals per channel key (the key lives in the channel, not in the context)
    let mut key_count: std::collections::BTreeMap<u64, u64> = Default::default();
    let pt = b"verif-afc-mem";
    let replay: Option<Vec<String>> = lines.map(|l| l.1.to_vec());
    let total = replay.as_ref().map_or(nops, |l| l.len());
    for step in 0..total {
        // ---- pick an operation (text after `mo `)
        let live = |ctxs: &Vec<MCtxReal>, seal: bool| -> Vec<usize> {
            (0..ctxs.len()).filter(|&k| if seal { ctxs[k].seal.is_some() } else { ctxs[k].open.is_some() }).collect()
        };
        let op: String = if let Some(l) = &replay {
            match l[step].strip_prefix("mo ") {
                Some(o) => o.to_string(),
                None => continue,
            }
        } else {
            let r = rng.below(100);
            let anyid = |rng: &mut Rng| rng.below(ever + 1);
            match r {
                0..=17 => format!("add {} {}", rng.range(1, 2), rng.below(PARS)),
                18..=25 => format!("rm {}", anyid(rng)),
                26..=27 => "rmall".into(),
                28..=33 => format!(
                    "rmif {}",
                    match rng.below(5) {
                        0 => Pred::None,
                        1 => Pred::Par(rng.below(PARS)),
                        2 => Pred::Dir(rng.range(1, 2)),
                        3 => Pred::IdLt(anyid(rng)),
                        _ => Pred::IdGe(anyid(rng)),
                    }
                    .text()
                ),
                34..=39 => format!("ex {}", anyid(rng)),
                40..=57 => format!("setup {} {}", if rng.chance(2, 3) { "s" } else { "o" }, anyid(rng)),
                58..=82 => {
                    let l = live(&ctxs, true);
                    if l.is_empty() { format!("ex {}", anyid(rng)) } else { format!("seal {} {}", rng.pick(&l), rng.chance(1, 4) as u8) }
                }
                83..=92 => {
                    let l = live(&ctxs, false);
                    if l.is_empty() { format!("ex {}", anyid(rng)) } else { format!("open {} {}", rng.pick(&l), rng.chance(1, 4) as u8) }
                }
                _ => {
                    let l: Vec<usize> = (0..ctxs.len()).filter(|&k| ctxs[k].seal.is_some() || ctxs[k].open.is_some()).collect();
                    if l.is_empty() { format!("ex {}", anyid(rng)) } else { format!("drop {}", rng.pick(&l)) }
                }
            }
        };
        let t: Vec<&str> = op.split(' ').collect();
        let present = |tab: &Vec<(u64, u64, u64)>, x: u64| tab.iter().any(|c| c.0 == x);
        let label_of = |x: u64| label_id(addinfo.get(x as usize).map_or(0, |c: &(u64, u64)| c.1));
        let res: String = match t.as_slice() {
            ["add", d, p] => {
                let (d, p): (u64, u64) = (d.parse().unwrap_or(1), p.parse().unwrap_or(0));
                let raw = raw_key(keyseed, ever);
                let keys = if d == 1 {
                    Directed::SealOnly { seal: SealKey::<CS>::from_raw(&raw, Seq::ZERO).expect("seal key") }
                } else {
                    Directed::OpenOnly { open: OpenKey::<CS>::from_raw(&raw_open(&raw)).expect("open key") }
                };
                match wr.add(keys, label_id(p), DeviceId::default()) {
                    Ok(id) => {
                        let id = chan_num(id);
                        if id != ever {
                            fails.push(("C42", format!("memory add returned id {id}, expected {ever}")));
                        }
                        tab.push((id, d, p));
                        addinfo.push((d, p));
                        ever += 1;
                        format!("id{id}")
                    }
                    Err(e) => err_kind(&e),
                }
            }
            ["rm", x] => {
                let x: u64 = x.parse().unwrap_or(0);
                tab.retain(|c| c.0 != x);
                wr.remove(chan_id(x)).map(|_| "ok".to_string()).unwrap_or_else(|e| err_kind(&e))
            }
            ["rmall"] => {
                tab.clear();
                wr.remove_all().map(|_| "ok".to_string()).unwrap_or_else(|e| err_kind(&e))
            }
            ["rmif", rest @ ..] => {
                let Some(p) = Pred::parse(rest) else { continue };
                tab.retain(|c| !p.eval(c.0, c.1, c.2));
                wr.remove_if(|q| {
                    let dir = match q.direction {
                        ChannelDirection::Seal => 1,
                        ChannelDirection::Open => 2,
                    };
                    p.eval(chan_num(q.local_channel_id), dir, label_par(q.label_id))
                })
                .map(|_| "ok".to_string())
                .unwrap_or_else(|e| err_kind(&e))
            }
            ["ex", x] => {
                let x: u64 = x.parse().unwrap_or(0);
                let a = AranyaState::exists(&wr, chan_id(x)).map(|b| b as u8).unwrap_or(9);
                let b = AfcState::exists(cl.state(), chan_id(x)).map(|b| b as u8).unwrap_or(9);
                if a != b || a != present(&tab, x) as u8 {
                    fails.push(("C42", format!("memory exists({x}): writer half {a}, reader half {b}, specification {}", present(&tab, x) as u8)));
                }
                format!("b{b}")
            }
            ["setup", kind, x] => {
                let x: u64 = x.parse().unwrap_or(0);
                let is_seal = *kind == "s";
                let live_for_x = ctxs.iter().any(|c| c.id == x && (c.seal.is_some() || c.open.is_some()));
                let r = if is_seal {
                    cl.setup_seal_ctx(chan_id(x)).map(|c| MCtxReal { seal: Some(c), open: None, id: x, is_seal, next_seq: *key_count.get(&x).unwrap_or(&0) })
                } else {
                    cl.setup_open_ctx(chan_id(x)).map(|c| MCtxReal { seal: None, open: Some(c), id: x, is_seal, next_seq: 0 })
                };
                match r {
                    Ok(c) => {
                        if live_for_x {
                            fails.push(("C40", format!("memory state handed out a second live context for channel {x}")));
                        }
                        if !tab.iter().any(|c| c.0 == x && c.1 == if is_seal { 1 } else { 2 }) {
                            fails.push(("C41", format!("memory setup succeeded for channel {x}, which is not in the map with that direction")));
                        }
                        ctxs.push(c);
                        format!("ctx{}", ctxs.len() - 1)
                    }
                    Err(e) => {
                        if !live_for_x && tab.iter().any(|c| c.0 == x && c.1 == if is_seal { 1 } else { 2 }) {
                            fails.push(("C41", format!("memory setup failed for the present, unloaned channel {x}: {e:?}")));
                        }
                        err_kind(&e)
                    }
                }
            }
            ["seal", k, f] => {
                let (k, f): (usize, bool) = (k.parse().unwrap_or(0), *f == "1");
                let Some(c) = ctxs.get_mut(k) else { continue };
                let x = c.id;
                let Some(ctx) = c.seal.as_mut() else { continue };
                let r = if f {
                    match cl.state().seal(ctx, |_k, _l| Err::<(), Error>(Error::Authentication)) {
                        Ok(Ok(())) => "err:closure-ok".to_string(),
                        Ok(Err(_)) => "ferr".into(),
                        Err(e) => err_kind(&e),
                    }
                } else {
                    let mut dst = vec![0u8; pt.len() + OVERHEAD];
                    match cl.seal(ctx, &mut dst, pt) {
                        Ok(_) => {
                            let seq = u64::from_le_bytes(dst[dst.len() - HDR..].try_into().unwrap());
                            let ok = OpenKey::<CS>::from_raw(&raw_open(&raw_key(keyseed, x)))
                                .ok()
                                .and_then(|ok| {
                                    let mut out = vec![0u8; pt.len()];
                                    let ad = AuthData { version: u32::from(Version::V1 as u16), label_id: label_of(x) };
                                    ok.open(&mut out, &dst[..dst.len() - HDR], &ad, Seq::new(seq)).ok().map(|_| out == pt)
                                })
                                .unwrap_or(false);
                            if !ok {
                                fails.push(("C40", format!("memory seal on channel {x}: ciphertext does not open under the channel key at seq {seq}")));
                            }
                            let kc = key_count.entry(x).or_insert(0);
                            if seq != c.next_seq || seq != *kc {
                                fails.push((
                                    "C40",
                                    format!("memory seal on channel {x}: sequence number {seq}, but the context expects {} and {} seals were made under this channel key", c.next_seq, *kc),
                                ));
                            }
                            *kc = seq + 1;
                            c.next_seq = seq + 1;
                            format!("seq{seq}")
                        }
                        Err(e) => err_kind(&e),
                    }
                };
                let should_nf = !present(&tab, x);
                if should_nf != (r == "nf") {
                    fails.push(("C41", format!("memory seal on channel {x} (in the map: {}) returned `{r}`", !should_nf)));
                }
                r
            }
            ["open", k, f] => {
                let (k, f): (usize, bool) = (k.parse().unwrap_or(0), *f == "1");
                let Some(c) = ctxs.get_mut(k) else { continue };
                let x = c.id;
                let Some(ctx) = c.open.as_mut() else { continue };
                let mut wire = vec![0u8; pt.len() + OVERHEAD];
                let n = wire.len();
                let ad = AuthData { version: u32::from(Version::V1 as u16), label_id: label_of(x) };
                if let Some(q) = SealKey::<CS>::from_raw(&raw_key(keyseed, x), Seq::new(5)).ok().and_then(|mut sk| sk.seal(&mut wire[..n - HDR], pt, &ad).ok()) {
                    wire[n - HDR..].copy_from_slice(&u64::from(q).to_le_bytes());
                }
                if f {
                    wire[1] ^= 0x10;
                }
                let mut dst = vec![0u8; pt.len()];
                let r = match cl.open(ctx, &mut dst, &wire) {
                    Ok((l, q)) => {
                        if dst == pt && u64::from(q) == 5 && l == label_of(x) { "opened".to_string() } else { "opened!badpt".to_string() }
                    }
                    Err(e) => err_kind(&e),
                };
                let should_nf = !present(&tab, x);
                if should_nf != (r == "nf") {
                    fails.push(("C41", format!("memory open on channel {x} (in the map: {}) returned `{r}`", !should_nf)));
                }
                r
            }
            ["drop", k] => {
                let k: usize = k.parse().unwrap_or(0);
                let Some(c) = ctxs.get_mut(k) else { continue };
                if c.seal.is_none() && c.open.is_none() {
                    continue;
                }
                c.seal = None;
                c.open = None;
                let _ = c.is_seal;
                "ok".into()
            }
            _ => continue,
        };
        if res.contains('!') || res.starts_with("err:") {
            fails.push(("all", format!("memory `{op}`: unexpected result `{res}`")));
        }
        let class: String = res.chars().take_while(|c| c.is_ascii_alphabetic()).collect();
        rec.count(&format!("mem:{}:{class}", t[0]));
        rec.line(format!("mo {op}"), res.split('!').next().unwrap().to_string());
    }
    fails
}

/// `cases` random memory-state cases
pub fn drive_mem(rec: &mut Recorder, prop: &str, seed: u64, cases: usize) {
    let mut rng = Rng::new(seed ^ 0x6d65_6d);
    for c in 0..cases {
        rec.begin_case();
        let n = rng.range(10, 60) as usize;
        let fails = run_mem_case(rec, &mut rng, n, None);
        rec.count("runs:memory");
        if n >= 10 {
            rec.nontrivial(fnv(&format!("mem{seed}-{c}")));
        }
        let o = Outcome { fails, ..Default::default() };
        report(rec, prop, &o);
    }
}

/// replay of the memory cases of a replay file (`mnew`, `mo …`)
pub fn replay_mem_cases(rec: &mut Recorder, prop: &str, lines: &[String]) {
    let mut i = 0;
    while i < lines.len() {
        if lines[i] == "mnew" {
            let mut j = i + 1;
            while j < lines.len() && lines[j] != "mnew" && !lines[j].starts_with("new ") {
                j += 1;
            }
            let seed = lines[i + 1..j]
                .iter()
                .find_map(|l| l.strip_prefix("m memseed ").and_then(|x| x.parse::<u64>().ok()))
                .unwrap_or(1);
            let mut rng = Rng::new(seed);
            let ops: Vec<String> = lines[i + 1..j].iter().filter(|l| l.starts_with("mo ")).cloned().collect();
            rec.begin_case();
            let fails = run_mem_case(rec, &mut rng, 0, Some((seed, &ops)));
            let o = Outcome { fails, ..Default::default() };
            report(rec, prop, &o);
            i = j;
        } else {
            i += 1;
        }
    }
}

