//! Cooperative scheduler for REAL threads (C33, C43, C44).
//!
//! Worker threads run the real code; the verification hooks in /repo call `yield_point(label)`
//! immediately before every shared-memory operation.  A worker parks there until the scheduler
//! (the main thread) grants it the turn; it then runs up to its next yield point (so exactly
//! one shared-memory operation per grant) and hands the turn back.  At most one worker runs at
//! any time, so an execution is exactly a schedule (a list of thread ids) and is replayable.
//!
//! A worker can also go to sleep (`sleep()`, used by the routed futex): it is then not
//! runnable until the scheduler `release`s it, after which it is parked at the pseudo yield
//! point `"woken"`.

use std::{
    cell::RefCell,
    sync::{
        atomic::{AtomicUsize, Ordering},
        Arc, Condvar, Mutex,
    },
    time::Duration,
};

#[derive(Clone, Copy, PartialEq, Eq, Debug)]
pub enum St {
    /// running real code (or not yet at its first yield point)
    Running,
    /// parked before the operation named by the label
    AtYield(&'static str),
    /// blocked (routed futex); not runnable
    Asleep,
    Done,
    Panicked,
}

impl St {
    pub fn label(self) -> &'static str {
        match self {
            St::Running => "running",
            St::AtYield(l) => l,
            St::Asleep => "asleep",
            St::Done => "done",
            St::Panicked => "panic",
        }
    }
}

struct Inner {
    /// which worker may run; `None` = the scheduler
    turn: Option<usize>,
    st: Vec<St>,
}

pub struct Sched {
    m: Mutex<Inner>,
    /// the scheduler waits here
    cv: Condvar,
    /// worker `t` waits on `wcv[t]` (one wake-up per hand-over instead of a broadcast)
    wcv: Vec<Condvar>,
    /// mirror of `turn` (`usize::MAX` = scheduler) for a short optimistic spin before blocking:
    /// a hand-over then usually costs no futex round trip
    hint: AtomicUsize,
}

const SCHED: usize = usize::MAX;
const SPIN: usize = 4000;

thread_local! {
    static CUR: RefCell<Option<(Arc<Sched>, usize)>> = const { RefCell::new(None) };
}

const STUCK: Duration = Duration::from_secs(60);

impl Sched {
    pub fn new(n: usize) -> Arc<Self> {
        Arc::new(Sched {
            m: Mutex::new(Inner { turn: None, st: vec![St::Running; n] }),
            cv: Condvar::new(),
            wcv: (0..n).map(|_| Condvar::new()).collect(),
            hint: AtomicUsize::new(SCHED),
        })
    }

    /// Scheduler: wait until no worker is running; returns the status of every worker.
    /// `Err` if a worker stays in real code for a minute (it is stuck outside a yield point).
    pub fn quiesce(&self) -> Result<Vec<St>, String> {
        for _ in 0..SPIN {
            if self.hint.load(Ordering::Acquire) == SCHED {
                break;
            }
            std::hint::spin_loop();
        }
        let mut g = self.m.lock().unwrap();
        loop {
            if g.turn.is_none() && g.st.iter().all(|s| *s != St::Running) {
                return Ok(g.st.clone());
            }
            let (g2, to) = self.cv.wait_timeout(g, STUCK).unwrap();
            g = g2;
            if to.timed_out() {
                return Err(format!("worker stuck outside a yield point: {:?}", g.st));
            }
        }
    }

    /// Scheduler: let worker `t` (parked at a yield point) perform its next operation and run to
    /// its next yield point / sleep / end.  Returns its new status.
    pub fn grant(&self, t: usize) -> Result<St, String> {
        {
            let mut g = self.m.lock().unwrap();
            assert!(matches!(g.st[t], St::AtYield(_)), "grant to a non-parked worker");
            g.st[t] = St::Running;
            g.turn = Some(t);
            self.hint.store(t, Ordering::Release);
            self.wcv[t].notify_one();
        }
        let st = self.quiesce()?;
        Ok(st[t])
    }

    /// Scheduler: release sleeper `w` (wake or spurious wake-up).
    pub fn release(&self, w: usize) {
        let mut g = self.m.lock().unwrap();
        assert!(g.st[w] == St::Asleep, "release of a worker that is not asleep");
        g.st[w] = St::AtYield("woken");
    }

    pub fn status(&self) -> Vec<St> {
        self.m.lock().unwrap().st.clone()
    }

    fn park(&self, t: usize, st: St) {
        let mut g = self.m.lock().unwrap();
        g.st[t] = st;
        if g.turn == Some(t) {
            g.turn = None;
            self.hint.store(SCHED, Ordering::Release);
        }
        self.cv.notify_one();
        drop(g);
        for _ in 0..SPIN {
            if self.hint.load(Ordering::Acquire) == t {
                break;
            }
            std::hint::spin_loop();
        }
        let mut g = self.m.lock().unwrap();
        while g.turn != Some(t) {
            g = self.wcv[t].wait(g).unwrap();
        }
    }

    fn finish(&self, t: usize, st: St) {
        let mut g = self.m.lock().unwrap();
        g.st[t] = st;
        if g.turn == Some(t) {
            g.turn = None;
            self.hint.store(SCHED, Ordering::Release);
        }
        self.cv.notify_one();
    }
}

/// Registers the calling thread as worker `t`; dropping the guard marks it done (or panicked).
pub struct WorkerGuard(Arc<Sched>, usize);

pub fn enter(s: &Arc<Sched>, t: usize) -> WorkerGuard {
    CUR.with(|c| *c.borrow_mut() = Some((s.clone(), t)));
    WorkerGuard(s.clone(), t)
}

impl Drop for WorkerGuard {
    fn drop(&mut self) {
        CUR.with(|c| *c.borrow_mut() = None);
        let st = if std::thread::panicking() { St::Panicked } else { St::Done };
        self.0.finish(self.1, st);
    }
}

/// The worker id of the calling thread, if it is a registered worker.
pub fn current() -> Option<usize> {
    CUR.with(|c| c.borrow().as_ref().map(|x| x.1))
}

/// Park before the operation `label` until the scheduler grants the turn.  No-op on threads
/// that are not registered workers.
pub fn yield_point(label: &'static str) {
    let cur = CUR.with(|c| c.borrow().clone());
    if let Some((s, t)) = cur {
        s.park(t, St::AtYield(label));
    }
}

/// Go to sleep (not runnable) until released and granted again.  Returns `false` on threads
/// that are not registered workers.
pub fn sleep() -> bool {
    let cur = CUR.with(|c| c.borrow().clone());
    match cur {
        Some((s, t)) => {
            s.park(t, St::Asleep);
            true
        }
        None => false,
    }
}

/// Source of scheduling decisions: `choose(k)` returns an index `< k` (`k ≥ 1`).
pub trait Chooser {
    fn choose(&mut self, k: usize) -> usize;
}

/// Depth-first enumeration of all decision sequences up to `depth` decisions; beyond the depth
/// bound the first option is taken.  Usage: `loop { run(&mut dfs); if !dfs.advance() { break } }`.
pub struct Dfs {
    pub depth: usize,
    /// (chosen, number of options) for the decisions of the current run, up to `depth`
    stack: Vec<(usize, usize)>,
    pos: usize,
}

impl Dfs {
    pub fn new(depth: usize) -> Self {
        Dfs { depth, stack: vec![], pos: 0 }
    }
    /// all `depth` enumerated decisions of the current run have been taken: the caller should
    /// continue with a fair policy of its own (e.g. round-robin) so that the run terminates
    pub fn past_depth(&self) -> bool {
        self.pos >= self.depth
    }
    /// prepare the next run; `false` when the enumeration is complete
    pub fn advance(&mut self) -> bool {
        // drop decisions that were not reached in the last run
        self.stack.truncate(self.pos);
        while let Some((c, k)) = self.stack.pop() {
            if c + 1 < k {
                self.stack.push((c + 1, k));
                self.pos = 0;
                return true;
            }
        }
        false
    }
}

impl Chooser for Dfs {
    fn choose(&mut self, k: usize) -> usize {
        if self.pos < self.stack.len() {
            let (c, k0) = self.stack[self.pos];
            self.pos += 1;
            // the real code is deterministic under the scheduler, so the option count repeats
            if k0 == k { c } else { c.min(k - 1) }
        } else if self.pos < self.depth {
            self.stack.push((0, k));
            self.pos += 1;
            0
        } else {
            0
        }
    }
}
