//! Real-side interpreter of the session line protocol (`lean/Driver/SessStep.lean`), shared by the
//! C13 and C14 harnesses.  Drives REAL `ClientState` / `Session`s over the in-memory linear
//! storage with a small *script policy*: an action (or the rule of a received command) is a
//! script of fact operations on the perspective the runtime hands to the policy, so queries are
//! issued from inside policy calls and a script may write and then fail.
//! The S-level oracle (flat `BTreeMap` overlay; graph heads / stamp / fact cache unchanged by
//! session operations) is evaluated next to every call.

use std::cell::{Cell, RefCell};

use aranya_runtime::{
    storage::linear::{testing::Manager, verif_api_c12, LinearStorageProvider},
    ActionPlacement, Address, ClientError, ClientState, CmdId, Command, CommandPlacement,
    FactPerspective, GraphId, HeadSet, HeadSetOffset, MemSpill, MergeIds, Perspective, Policy,
    PolicyError, PolicyId, PolicyStore, Prior, Priority, Query, RuntimeBuffers, Session, Sink,
    Storage, StorageError, StorageProvider,
};

use crate::factsworld::{
    flat_prefix, name_of, parse_key, show_facts, show_key, show_opt, to_keys, FKey, Flat,
};
use crate::{hex, unhex, Recorder};

pub type SP = LinearStorageProvider<Manager>;
type Seg = <SP as StorageProvider>::Segment;

// ------------------------------------------------------------------ scripts

#[derive(Clone, Debug)]
pub enum ScOp {
    Ins(FKey, Vec<u8>),
    Del(FKey),
    Q(FKey),
    Qp(FKey),
    Fail,
    Pub,
}

pub fn parse_script(s: &str) -> Option<Vec<ScOp>> {
    if s == "." {
        return Some(vec![]);
    }
    s.split(';')
        .map(|o| {
            let f: Vec<&str> = o.split('/').collect();
            match f.as_slice() {
                ["ins", k, v] => Some(ScOp::Ins(parse_key(k)?, unhex(v)?)),
                ["del", k] => Some(ScOp::Del(parse_key(k)?)),
                ["q", k] => Some(ScOp::Q(parse_key(k)?)),
                ["qp", k] => Some(ScOp::Qp(parse_key(k)?)),
                ["fail"] => Some(ScOp::Fail),
                ["pub"] => Some(ScOp::Pub),
                _ => None,
            }
        })
        .collect()
}

// ------------------------------------------------------------------ the script policy

pub struct PCmd {
    id: CmdId,
    parent: Prior<Address>,
    prio: Priority,
    data: Vec<u8>,
}
impl Command for PCmd {
    fn priority(&self) -> Priority {
        self.prio.clone()
    }
    fn id(&self) -> CmdId {
        self.id
    }
    fn parent(&self) -> Prior<Address> {
        self.parent
    }
    fn policy(&self) -> Option<&[u8]> {
        None
    }
    fn bytes(&self) -> &[u8] {
        &self.data
    }
}

pub fn pcmd_id(n: u64) -> CmdId {
    let mut b = [0u8; 32];
    b[..8].copy_from_slice(&n.to_be_bytes());
    b[31] = 0xC4;
    CmdId::from_bytes(b)
}

/// `ClientState` does not expose its policy store, so what the policy observes inside a call
/// (`q` / `qp` answers) and its command counter live in thread locals.
thread_local! {
    static OBS: RefCell<Vec<String>> = const { RefCell::new(Vec::new()) };
    static NEXT_ID: Cell<u64> = const { Cell::new(0) };
}

fn push_obs(s: String) {
    OBS.with(|o| o.borrow_mut().push(s));
}
fn take_obs() -> Vec<String> {
    OBS.with(|o| std::mem::take(&mut *o.borrow_mut()))
}
fn fresh_id() -> u64 {
    NEXT_ID.with(|c| {
        let n = c.get();
        c.set(n + 1);
        n
    })
}

#[derive(Default)]
pub struct ScriptPolicy;

impl ScriptPolicy {
    fn run<F: FactPerspective>(
        &self,
        ops: &[ScOp],
        facts: &mut F,
        mut publish: impl FnMut(&mut F) -> Result<(), PolicyError>,
    ) -> Result<(), PolicyError> {
        for op in ops {
            match op {
                ScOp::Ins(k, v) => facts
                    .insert(name_of(k), to_keys(k), v.clone().into_boxed_slice())
                    .map_err(|_| PolicyError::Write)?,
                ScOp::Del(k) => facts.delete(name_of(k), to_keys(k)).map_err(|_| PolicyError::Write)?,
                ScOp::Q(k) => {
                    let r = facts.query(&name_of(k), &to_keys(k)).map_err(|_| PolicyError::Read)?;
                    push_obs(show_opt(&r.map(|b| b.to_vec())));
                }
                ScOp::Qp(k) => {
                    let it = facts.query_prefix(&name_of(k), &to_keys(k)).map_err(|_| PolicyError::Read)?;
                    let mut items = vec![];
                    for f in it {
                        match f {
                            Ok(f) => {
                                let fk: FKey = (k.0.clone(), f.key.iter().map(|c| c.to_vec()).collect());
                                items.push(format!("{}={}", show_key(&fk), hex(&f.value)));
                            }
                            Err(_) => items.push("!err".into()),
                        }
                    }
                    push_obs(format!("[{}]", items.join(";")));
                }
                ScOp::Fail => return Err(PolicyError::Rejected),
                ScOp::Pub => publish(facts)?,
            }
        }
        Ok(())
    }
}

impl Policy for ScriptPolicy {
    type Action<'a> = &'a [ScOp];
    type Effect = String;
    type Command<'a> = PCmd;

    fn serial(&self) -> u32 {
        0
    }

    fn call_rule(
        &self,
        command: &impl Command,
        facts: &mut impl FactPerspective,
        _sink: &mut impl Sink<String>,
        _placement: CommandPlacement,
    ) -> Result<(), PolicyError> {
        // the rule of a command is the script carried in its payload
        let text = std::str::from_utf8(command.bytes()).map_err(|_| PolicyError::Read)?;
        let ops = parse_script(text).ok_or(PolicyError::Read)?;
        self.run(&ops, facts, |_| Ok(()))
    }

    fn call_action(
        &self,
        action: &[ScOp],
        facts: &mut impl Perspective,
        sink: &mut impl Sink<String>,
        _placement: ActionPlacement,
    ) -> Result<(), PolicyError> {
        self.run(action, facts, |facts| {
            let parent = facts.head_address()?;
            let prio = match parent {
                Prior::None => Priority::Init,
                Prior::Single(_) => Priority::Basic(0),
                Prior::Merge(_, _) => Priority::Merge,
            };
            let n = fresh_id();
            let cmd = PCmd { id: pcmd_id(n), parent, prio, data: b".".to_vec() };
            facts.add_command(&cmd).map_err(|_| PolicyError::Write)?;
            sink.consume(format!("published {n}"));
            Ok(())
        })
    }

    fn merge<'a>(&self, _target: &'a mut [u8], _ids: MergeIds) -> Result<PCmd, PolicyError> {
        Err(PolicyError::InternalError)
    }
}

#[derive(Default)]
pub struct ScriptStore {
    pub policy: ScriptPolicy,
}
impl PolicyStore for ScriptStore {
    type Policy = ScriptPolicy;
    type Effect = String;
    fn add_policy(&mut self, _policy: &[u8]) -> Result<PolicyId, PolicyError> {
        Ok(PolicyId::new(0))
    }
    fn get_policy(&self, _id: PolicyId) -> Result<&ScriptPolicy, PolicyError> {
        Ok(&self.policy)
    }
}

/// effect sink: counts what the runtime does with it
#[derive(Default)]
pub struct EffSink {
    pub pending: Vec<String>,
    pub committed: Vec<String>,
    pub begins: u32,
    pub commits: u32,
    pub rollbacks: u32,
}
impl Sink<String> for EffSink {
    fn begin(&mut self) {
        self.begins += 1;
        self.pending.clear();
    }
    fn consume(&mut self, e: String) {
        self.pending.push(e);
    }
    fn rollback(&mut self) {
        self.rollbacks += 1;
        self.pending.clear();
    }
    fn commit(&mut self) {
        self.commits += 1;
        self.committed.append(&mut self.pending);
    }
}

/// message sink of `Session::action` (the runtime only ever calls `consume` and `rollback`)
#[derive(Default)]
pub struct MsgSink {
    pub msgs: Vec<Vec<u8>>,
    pub mark: usize,
}
impl<'b> Sink<&'b [u8]> for MsgSink {
    fn begin(&mut self) {}
    fn consume(&mut self, m: &'b [u8]) {
        self.msgs.push(m.to_vec());
    }
    fn rollback(&mut self) {
        self.msgs.truncate(self.mark);
    }
    fn commit(&mut self) {}
}

// ------------------------------------------------------------------ world

pub struct SessInfo {
    pub session: Session<SP, ScriptStore>,
    /// S-level: the session's view = committed facts at creation overlaid with its own writes
    pub flat: Flat,
    pub msgs: MsgSink,
}

pub struct SWorld {
    pub client: ClientState<ScriptStore, SP>,
    pub buffers: RuntimeBuffers<Seg>,
    pub graph: Option<GraphId>,
    /// S-level: the committed facts of the graph
    pub gflat: Flat,
    pub sessions: Vec<SessInfo>,
}

impl SWorld {
    pub fn new() -> Self {
        SWorld {
            client: ClientState::new(ScriptStore::default(), LinearStorageProvider::new(Manager::new())),
            buffers: RuntimeBuffers::new(),
            graph: None,
            gflat: Flat::new(),
            sessions: vec![],
        }
    }
}

impl Default for SWorld {
    fn default() -> Self {
        Self::new()
    }
}

/// flat-map semantics of a script: (map after, observations, completed?)
pub fn spec_script(start: &Flat, ops: &[ScOp]) -> (Flat, Vec<String>, bool) {
    let mut m = start.clone();
    let mut obs = vec![];
    for op in ops {
        match op {
            ScOp::Ins(k, v) => {
                m.insert(k.clone(), v.clone());
            }
            ScOp::Del(k) => {
                m.remove(k);
            }
            ScOp::Q(k) => obs.push(show_opt(&m.get(k).cloned())),
            ScOp::Qp(k) => obs.push(show_facts(&flat_prefix(&m, k))),
            ScOp::Fail => return (m, obs, false),
            ScOp::Pub => {}
        }
    }
    (m, obs, true)
}

/// everything observable about the graph: heads, commit stamp, fact cache layer by layer
pub struct GraphSnap {
    heads: HeadSet,
    stamp: HeadSetOffset,
    cache: String,
}

pub fn dump_cache(w: &mut SWorld) -> Result<String, StorageError> {
    let g = w.graph.expect("graph");
    let st = w.client.provider().get_storage(g)?;
    let ix = st.fact_cache()?;
    let layers = verif_api_c12::fact_index_layers(&ix)?;
    let mut parts = vec![];
    for (depth, entries) in layers {
        let mut es: Vec<(FKey, Option<Vec<u8>>)> = entries
            .iter()
            .map(|(nm, k, v)| ((nm.as_bytes().to_vec(), k.iter().map(|c| c.to_vec()).collect()), v.as_ref().map(|b| b.to_vec())))
            .collect();
        es.sort();
        let body = es
            .iter()
            .map(|(k, v)| format!("{}={}", show_key(k), v.as_ref().map_or("~".to_string(), |v| hex(v))))
            .collect::<Vec<_>>()
            .join(";");
        parts.push(format!("d={depth}{{{body}}}"));
    }
    Ok(parts.join("|"))
}

pub fn graph_snap(w: &mut SWorld) -> GraphSnap {
    let g = w.graph.expect("graph");
    let cache = dump_cache(w).expect("fact cache");
    let st = w.client.provider().get_storage(g).expect("storage");
    GraphSnap { heads: st.get_heads().expect("heads").clone(), stamp: st.heads_offset().expect("stamp"), cache }
}

fn check_graph_unchanged(rec: &mut Recorder, op: &str, a: &GraphSnap, b: &GraphSnap) {
    if a.heads != b.heads {
        rec.oracle_fail(format!("`{op}` changed the graph's head set"));
    }
    if a.stamp != b.stamp {
        rec.oracle_fail(format!("`{op}` changed the graph's commit stamp"));
    }
    if a.cache != b.cache {
        rec.oracle_fail(format!("`{op}` changed the graph's fact cache: {} -> {}", a.cache, b.cache));
    }
}

fn obs_line(tag: &str, obs: &[String]) -> String {
    format!("{tag} [{}]", obs.join("|"))
}

const BAD: &str = "bad-op";

pub const SESS_OPS: [&str; 9] = ["snew", "graph", "act", "sess", "sact", "srecv", "gdump", "gq", "gqp"];

/// Executes one request line on the real client; returns the canonical answer.
pub fn exec_sess(w: &mut SWorld, rec: &mut Recorder, op: &str) -> String {
    let t: Vec<&str> = op.split(' ').filter(|s| !s.is_empty()).collect();
    match t.as_slice() {
        ["snew"] => {
            *w = SWorld::new();
            let _ = take_obs();
            NEXT_ID.with(|c| c.set(0));
            "ok".into()
        }
        ["graph", sc] => {
            let Some(ops) = parse_script(sc) else { return BAD.into() };
            if w.graph.is_some() {
                return BAD.into();
            }
            let mut sink = EffSink::default();
            let (want, want_obs, want_ok) = spec_script(&Flat::new(), &ops);
            let npub = ops.iter().filter(|o| matches!(o, ScOp::Pub)).count();
            let r = w.client.new_graph(b"policy", &ops, &mut sink);
            let obs = take_obs();
            check_obs(rec, op, &obs, &want_obs);
            match r {
                Ok(g) => {
                    if !want_ok || npub == 0 {
                        rec.oracle_fail(format!("`{op}`: new_graph succeeded for a failing / command-less action"));
                    }
                    w.graph = Some(g);
                    w.gflat = want;
                    obs_line("ok", &obs)
                }
                Err(ClientError::PolicyError(_)) => {
                    if want_ok {
                        rec.oracle_fail(format!("`{op}`: policy error for a script that does not fail"));
                    }
                    obs_line("fail", &obs)
                }
                Err(ClientError::StorageError(StorageError::EmptyPerspective)) => obs_line("err empty", &obs),
                Err(e) => obs_line(&format!("err {e}"), &obs),
            }
        }
        ["act", sc] => {
            let Some(ops) = parse_script(sc) else { return BAD.into() };
            let Some(g) = w.graph else { return BAD.into() };
            let mut sink = EffSink::default();
            let (want, want_obs, want_ok) = spec_script(&w.gflat, &ops);
            let r = w.client.action(g, &mut sink, &ops, &mut w.buffers, MemSpill::new);
            let obs = take_obs();
            check_obs(rec, op, &obs, &want_obs);
            match r {
                Ok(()) => {
                    if !want_ok {
                        rec.oracle_fail(format!("`{op}`: a failing action was committed"));
                    }
                    w.gflat = want;
                    obs_line("ok", &obs)
                }
                Err(ClientError::PolicyError(_)) => {
                    if want_ok {
                        rec.oracle_fail(format!("`{op}`: policy error for a script that does not fail"));
                    }
                    obs_line("fail", &obs)
                }
                Err(ClientError::StorageError(StorageError::EmptyPerspective)) => obs_line("err empty", &obs),
                Err(e) => obs_line(&format!("err {e}"), &obs),
            }
        }
        ["sess"] => {
            let Some(g) = w.graph else { return BAD.into() };
            match w.client.session(g) {
                Ok(session) => {
                    w.sessions.push(SessInfo { session, flat: w.gflat.clone(), msgs: MsgSink::default() });
                    format!("ok {}", w.sessions.len() - 1)
                }
                Err(e) => format!("err {e}"),
            }
        }
        [kind @ ("sact" | "srecv"), sid, sc] => {
            let (Ok(sid), Some(ops)) = (sid.parse::<usize>(), parse_script(sc)) else { return BAD.into() };
            if sid >= w.sessions.len() {
                return BAD.into();
            }
            let before = graph_snap(w);
            let (want, want_obs, want_ok) = spec_script(&w.sessions[sid].flat, &ops);
            let mut sink = EffSink::default();
            let nmsg_before = w.sessions[sid].msgs.msgs.len();
            let r = {
                let si = &mut w.sessions[sid];
                si.msgs.mark = si.msgs.msgs.len();
                if *kind == "sact" {
                    si.session.action(&w.client, &mut sink, &mut si.msgs, &ops)
                } else {
                    // a command from a peer session: 32-byte id followed by its payload (the rule)
                    let n = fresh_id();
                    let mut bytes = pcmd_id(n).as_bytes().to_vec();
                    bytes.extend_from_slice(sc.as_bytes());
                    si.session.receive(&w.client, &mut sink, &bytes)
                }
            };
            let obs = take_obs();
            check_obs(rec, op, &obs, &want_obs);
            let after = graph_snap(w);
            check_graph_unchanged(rec, op, &before, &after);
            let si = &mut w.sessions[sid];
            let npub = ops.iter().take_while(|o| !matches!(o, ScOp::Fail)).filter(|o| matches!(o, ScOp::Pub)).count();
            match r {
                Ok(()) => {
                    if !want_ok {
                        rec.oracle_fail(format!("`{op}`: a failing session call returned Ok"));
                    }
                    si.flat = want;
                    if sink.commits != 1 || sink.rollbacks != 0 {
                        rec.oracle_fail(format!("`{op}`: effect sink not committed exactly once"));
                    }
                    if *kind == "sact" && si.msgs.msgs.len() != nmsg_before + npub {
                        rec.oracle_fail(format!("`{op}`: {} messages for {npub} published commands", si.msgs.msgs.len() - nmsg_before));
                    }
                    obs_line("ok", &obs)
                }
                Err(ClientError::PolicyError(_)) => {
                    if want_ok {
                        rec.oracle_fail(format!("`{op}`: policy error for a script that does not fail"));
                    }
                    // failed call: the session's view is unchanged, effects and messages are rolled back
                    if sink.rollbacks != 1 || sink.commits != 0 || !sink.pending.is_empty() {
                        rec.oracle_fail(format!("`{op}`: effect sink not rolled back"));
                    }
                    if si.msgs.msgs.len() != nmsg_before {
                        rec.oracle_fail(format!("`{op}`: messages of a failed action were kept"));
                    }
                    obs_line("fail", &obs)
                }
                Err(e) => obs_line(&format!("err {e}"), &obs),
            }
        }
        ["gdump"] => {
            if w.graph.is_none() {
                return BAD.into();
            }
            match dump_cache(w) {
                Ok(s) => s,
                Err(e) => format!("err {e}"),
            }
        }
        ["gq", k] | ["gqp", k] => {
            let (Some(g), Some(k)) = (w.graph, parse_key(k)) else { return BAD.into() };
            let st = w.client.provider().get_storage(g).expect("storage");
            let ix = st.fact_cache().expect("fact cache");
            if t[0] == "gq" {
                let got = ix.query(&name_of(&k), &to_keys(&k)).expect("query").map(|b| b.to_vec());
                if got != w.gflat.get(&k).cloned() {
                    rec.oracle_fail(format!("`{op}`: graph fact cache returns {} but the committed map holds {}", show_opt(&got), show_opt(&w.gflat.get(&k).cloned())));
                }
                show_opt(&got)
            } else {
                let mut out = vec![];
                for f in ix.query_prefix(&name_of(&k), &to_keys(&k)).expect("query_prefix") {
                    let f = f.expect("fact");
                    out.push(((k.0.clone(), f.key.iter().map(|c| c.to_vec()).collect()), f.value.to_vec()));
                }
                let want = flat_prefix(&w.gflat, &k);
                if out != want {
                    rec.oracle_fail(format!("`{op}`: graph fact cache returns {} but the committed map gives {}", show_facts(&out), show_facts(&want)));
                }
                show_facts(&out)
            }
        }
        _ => BAD.into(),
    }
}

fn check_obs(rec: &mut Recorder, op: &str, got: &[String], want: &[String]) {
    if got != want {
        rec.oracle_fail(format!(
            "`{op}`: queries inside the policy call returned [{}] but the flat overlay gives [{}]",
            got.join("|"),
            want.join("|")
        ));
    }
}

// ------------------------------------------------------------------ script generators

use crate::factsworld::KeyPool;
use crate::Rng;

pub fn gen_script(rng: &mut Rng, pool: &KeyPool, n: u64, fail: bool, publish: bool) -> String {
    let mut ops: Vec<String> = vec![];
    for _ in 0..n {
        match rng.below(10) {
            0..=3 => {
                let k = pool.key(rng);
                let v = KeyPool::val(rng);
                ops.push(format!("ins/{}/{}", show_key(&k), hex(&v)));
            }
            4..=5 => {
                let k = pool.key(rng);
                ops.push(format!("del/{}", show_key(&k)));
            }
            6..=7 => {
                let k = pool.key(rng);
                ops.push(format!("q/{}", show_key(&k)));
            }
            _ => {
                let k = pool.prefix(rng);
                ops.push(format!("qp/{}", show_key(&k)));
            }
        }
    }
    if publish {
        let at = rng.below(ops.len() as u64 + 1) as usize;
        ops.insert(at, "pub".into());
        if rng.chance(1, 4) {
            ops.push("pub".into());
        }
    }
    if fail {
        let at = rng.below(ops.len() as u64 + 1) as usize;
        ops.insert(at, "fail".into());
    }
    if ops.is_empty() {
        ".".into()
    } else {
        ops.join(";")
    }
}

/// all pool keys and name-level prefixes, observed from inside a (successful, write-free) call
pub fn observe_all(pool: &KeyPool) -> String {
    let mut ops: Vec<String> = pool.keys.iter().map(|k| format!("q/{}", show_key(k))).collect();
    let mut names: Vec<Vec<u8>> = pool.keys.iter().map(|k| k.0.clone()).collect();
    names.sort();
    names.dedup();
    for nm in names {
        ops.push(format!("qp/{}", show_key(&(nm, vec![]))));
    }
    ops.join(";")
}

