//! synckit: drive REAL `SyncRequester` / `SyncResponder` sessions between two graphkit replicas
//! in-process (poll -> receive -> add_commands -> commit), dump a replica's segment layout
//! through the public `Storage`/`Segment` API, and build graph shapes that exceed the sync
//! limits (C16, C17).  Only public APIs of aranya-runtime are used.

use std::collections::{BTreeMap, BTreeSet};

use aranya_runtime::{
    Address, CmdId, Command as _, GraphId, MaxCut, PeerCache, Prior, Priority, Segment as _, Storage as _,
    StorageProvider, SyncError, SyncIncoming, SyncRequester, SyncResponder, MAX_SYNC_MESSAGE_SIZE,
};
use serde::Deserialize;

use crate::{
    gk::{self, Dag, KCmd, Node, Op, Replica},
    Rng,
};

// ---------------------------------------------------------------------------------- id numbering

/// 32-byte command ids -> small integers in first-seen order (request lines stay short and are
/// independent of the hash values).
#[derive(Default, Clone)]
pub struct IdMap {
    pub map: BTreeMap<CmdId, usize>,
}

impl IdMap {
    pub fn of(&mut self, id: CmdId) -> usize {
        let n = self.map.len();
        *self.map.entry(id).or_insert(n)
    }
    pub fn get(&self, id: CmdId) -> Option<usize> {
        self.map.get(&id).copied()
    }
}

// ---------------------------------------------------------------------------------- segment dump

#[derive(Clone, Debug)]
pub struct SegDump {
    pub idx: u64,
    pub first: u64,
    /// (id, policy bytes + payload bytes)
    pub cmds: Vec<(CmdId, usize)>,
    /// (segment, max_cut)
    pub prior: Vec<(u64, u64)>,
    pub skips: Vec<(u64, u64)>,
}

#[derive(Clone, Debug, Default)]
pub struct StoreDump {
    pub segs: Vec<SegDump>,
    /// committed heads (segment, max_cut, id) in head-set order
    pub heads: Vec<(u64, u64, CmdId)>,
}

impl StoreDump {
    pub fn loc_of(&self, id: CmdId) -> Option<(u64, u64)> {
        for s in &self.segs {
            if let Some(j) = s.cmds.iter().position(|c| c.0 == id) {
                return Some((s.idx, s.first + j as u64));
            }
        }
        None
    }
    pub fn ncmds(&self) -> usize {
        self.segs.iter().map(|s| s.cmds.len()).sum()
    }
}

/// Every segment reachable from the committed heads, sorted by segment index.
pub fn dump_store<SP: StorageProvider>(r: &mut Replica<SP>) -> Result<StoreDump, String> {
    let s = r.client.provider().get_storage(r.graph).map_err(|e| format!("{e:?}"))?;
    let mut out = StoreDump::default();
    let mut stack = vec![];
    for la in s.get_heads().map_err(|e| format!("{e:?}"))?.iter() {
        out.heads.push((la.segment.get(), la.max_cut.get(), la.id));
        stack.push(la.location());
    }
    let mut seen = BTreeSet::new();
    while let Some(loc) = stack.pop() {
        if !seen.insert(loc.segment.get()) {
            continue;
        }
        let seg = s.get_segment(loc).map_err(|e| format!("{e:?}"))?;
        let first = seg.first_location();
        let cmds = seg
            .get_from(first)
            .iter()
            .map(|c| (c.id(), c.policy().map_or(0, |p| p.len()) + c.bytes().len()))
            .collect();
        let prior: Vec<(u64, u64)> = seg.prior().into_iter().map(|p| (p.segment.get(), p.max_cut.get())).collect();
        let skips = seg.skip_list().iter().map(|p| (p.segment.get(), p.max_cut.get())).collect();
        for p in seg.prior() {
            stack.push(p);
        }
        out.segs.push(SegDump { idx: seg.index().get(), first: first.max_cut.get(), cmds, prior, skips });
    }
    out.segs.sort_by_key(|s| s.idx);
    Ok(out)
}

fn locs_arg(v: &[(u64, u64)]) -> String {
    if v.is_empty() {
        "-".into()
    } else {
        v.iter().map(|(s, m)| format!("{s}:{m}")).collect::<Vec<_>>().join(",")
    }
}

/// Request lines that rebuild the store in the Lean driver:
/// `store-reset`, `seg <idx> <first> <id:size,...> <prior locs|-> <skip locs|->`, `heads <locs|->`.
pub fn store_lines(d: &StoreDump, ids: &mut IdMap) -> Vec<String> {
    let mut v = vec!["store-reset".to_string()];
    for s in &d.segs {
        let cmds = s.cmds.iter().map(|(id, sz)| format!("{}:{}", ids.of(*id), sz)).collect::<Vec<_>>().join(",");
        v.push(format!("seg {} {} {} {} {}", s.idx, s.first, cmds, locs_arg(&s.prior), locs_arg(&s.skips)));
    }
    let hs: Vec<(u64, u64)> = d.heads.iter().map(|h| (h.0, h.1)).collect();
    v.push(format!("heads {}", locs_arg(&hs)));
    v
}

pub fn addrs_arg(a: &[Address], ids: &mut IdMap) -> String {
    if a.is_empty() {
        "-".into()
    } else {
        a.iter().map(|x| format!("{}:{}", ids.of(x.id), x.max_cut.get())).collect::<Vec<_>>().join(",")
    }
}

pub fn ids_show(v: &[CmdId], ids: &mut IdMap) -> String {
    if v.is_empty() {
        "[]".into()
    } else {
        format!("[{}]", v.iter().map(|i| ids.of(*i).to_string()).collect::<Vec<_>>().join(","))
    }
}

// ---------------------------------------------------------------------------------- wire peeking

/// Mirror of the *prefix* of `SyncResponseMessage` (postcard is not self-describing, so decoding a
/// prefix-compatible type reads exactly the leading fields): used to observe `response_index` /
/// `max_index` independently of `SyncRequester`.
#[derive(Deserialize, Debug)]
#[allow(dead_code)]
enum RespHdr {
    SyncResponse { session_id: u128, response_index: u64 },
    SyncEnd { session_id: u128, max_index: u64, remaining: bool },
    Offer { session_id: u128 },
    EndSession { session_id: u128 },
}

#[derive(Clone, Debug, PartialEq, Eq)]
pub enum Hdr {
    Response(u64),
    End(u64, bool),
    Offer,
    EndSession,
    Undecodable,
}

pub fn peek(buf: &[u8]) -> Hdr {
    match postcard::take_from_bytes::<RespHdr>(buf) {
        Ok((RespHdr::SyncResponse { response_index, .. }, _)) => Hdr::Response(response_index),
        Ok((RespHdr::SyncEnd { max_index, remaining, .. }, _)) => Hdr::End(max_index, remaining),
        Ok((RespHdr::Offer { .. }, _)) => Hdr::Offer,
        Ok((RespHdr::EndSession { .. }, _)) => Hdr::EndSession,
        Err(_) => Hdr::Undecodable,
    }
}

pub fn sync_err_name(e: &SyncError) -> String {
    match e {
        SyncError::SessionMismatch => "SessionMismatch".into(),
        SyncError::MissingSyncResponse => "MissingSyncResponse".into(),
        SyncError::SessionState => "SessionState".into(),
        SyncError::NotReady => "NotReady".into(),
        SyncError::CommandOverflow => "CommandOverflow".into(),
        SyncError::BufferTooSmall => "BufferTooSmall".into(),
        SyncError::MalformedResponse => "MalformedResponse".into(),
        SyncError::UnsupportedRequest => "UnsupportedRequest".into(),
        SyncError::Storage(s) => format!("Storage:{s:?}"),
        SyncError::Serialize(s) => format!("Serialize:{s:?}"),
        SyncError::Bug(b) => format!("Bug:{b:?}"),
        _ => "Other".into(),
    }
}

// ---------------------------------------------------------------------------------- requester sample

/// The sample (`SyncRequester::get_commands`) the requester would put in its next `SyncRequest`,
/// observed through the public Subscribe message (same private function, same inputs).
pub fn requester_sample<SP: StorageProvider>(r: &mut Replica<SP>, cache: &PeerCache) -> Result<Vec<Address>, String> {
    let mut rq = SyncRequester::new_session_id(r.graph, 7);
    let mut buf = vec![0u8; MAX_SYNC_MESSAGE_SIZE];
    let n = rq
        .subscribe(&mut buf, r.client.provider(), &cache.session_heads(), 0, 0, &mut r.buffers.traversal.primary)
        .map_err(|e| sync_err_name(&e))?;
    match SyncIncoming::decode(&buf[..n]).map_err(|e| sync_err_name(&e))? {
        SyncIncoming::Subscribe(s) => Ok(s.heads().as_slice().to_vec()),
        _ => Err("not a subscribe".into()),
    }
}

// ---------------------------------------------------------------------------------- sessions

#[derive(Clone, Debug)]
pub enum PollOut {
    /// a `SyncResponse`: observed index and the commands the requester parsed out of it
    Resp { index: u64, cmds: Vec<KCmd> },
    End { max_index: u64 },
    EndSession,
    /// the poll failed because the target buffer was too small (`BufferTooSmall` or postcard's
    /// `SerializeBufferFull`)
    TooSmall,
    Err(String),
}

fn to_kcmd(c: &impl aranya_runtime::Command) -> KCmd {
    KCmd { id: c.id(), parent: c.parent(), prio: c.priority(), policy: c.policy().map(|p| p.to_vec()), data: c.bytes().to_vec() }
}

/// One responder-side session object over replica `resp`, started with an explicit `have` sample.
pub struct RespSession {
    pub responder: SyncResponder,
    parser: SyncRequester,
    pub cache: PeerCache,
    buf: Vec<u8>,
}

impl RespSession {
    pub fn start(graph: GraphId, have: &[Address]) -> Result<Self, String> {
        let sid = 0x5eed_u128;
        let mut responder = SyncResponder::new();
        responder.start_session(sid, graph, 0, have.iter().copied()).map_err(|e| sync_err_name(&e))?;
        Ok(RespSession {
            responder,
            parser: SyncRequester::new_session_id(graph, sid),
            cache: PeerCache::new(),
            buf: vec![0u8; MAX_SYNC_MESSAGE_SIZE],
        })
    }

    pub fn ready(&self) -> bool {
        self.responder.ready()
    }

    /// One `SyncResponder::poll` into a buffer of `size` bytes (None: the full
    /// `MAX_SYNC_MESSAGE_SIZE`), parsed by a real `SyncRequester`.
    pub fn poll<SP: StorageProvider>(&mut self, resp: &mut Replica<SP>, size: Option<usize>) -> PollOut {
        let n = size.unwrap_or(MAX_SYNC_MESSAGE_SIZE).min(MAX_SYNC_MESSAGE_SIZE);
        let r = self.responder.poll(&mut self.buf[..n], resp.client.provider(), &mut self.cache, &mut resp.buffers.traversal);
        let len = match r {
            Ok(l) => l,
            Err(SyncError::BufferTooSmall) => return PollOut::TooSmall,
            Err(SyncError::Serialize(postcard::Error::SerializeBufferFull)) => return PollOut::TooSmall,
            Err(e) => return PollOut::Err(sync_err_name(&e)),
        };
        let hdr = peek(&self.buf[..len]);
        match self.parser.receive(&self.buf[..len]) {
            Ok(Some(cmds)) => {
                let cmds: Vec<KCmd> = cmds.iter().map(to_kcmd).collect();
                match hdr {
                    Hdr::Response(index) => PollOut::Resp { index, cmds },
                    h => PollOut::Err(format!("requester parsed commands but header is {h:?}")),
                }
            }
            Ok(None) => match hdr {
                Hdr::End(max_index, _) => PollOut::End { max_index },
                Hdr::EndSession => PollOut::EndSession,
                h => PollOut::Err(format!("requester parsed no commands but header is {h:?}")),
            },
            Err(e) => PollOut::Err(format!("requester.receive: {} (header {hdr:?})", sync_err_name(&e))),
        }
    }
}

/// Outcome of one complete requester-driven session `req <- resp`.
#[derive(Clone, Debug, Default)]
pub struct SessionLog {
    pub sample: Vec<Address>,
    /// responses in order: (observed index, commands)
    pub responses: Vec<(u64, Vec<KCmd>)>,
    pub end_max_index: Option<u64>,
    pub polls: usize,
    /// number of commands `add_commands` reported as new
    pub added: usize,
    pub errors: Vec<String>,
}

impl SessionLog {
    pub fn stream(&self) -> Vec<CmdId> {
        self.responses.iter().flat_map(|r| r.1.iter().map(|c| c.id)).collect()
    }
}

/// Drive one real session to `SyncEnd`: the requester polls once (its sample comes from its own
/// storage and `req_cache`), the responder is polled until it is no longer ready, every batch is
/// added to one transaction of the requester, which is committed at the end; then the requester's
/// peer cache is advanced like the repo's own test driver does (`ClientState::update_heads`).
pub fn full_session<SP: StorageProvider>(
    req: &mut Replica<SP>,
    resp: &mut Replica<SP>,
    req_cache: &mut PeerCache,
    resp_cache: &mut PeerCache,
    max_polls: usize,
) -> SessionLog {
    let mut log = SessionLog::default();
    let graph = resp.graph;
    let mut requester = SyncRequester::new(graph, aranya_crypto::Rng);
    let mut buf = vec![0u8; MAX_SYNC_MESSAGE_SIZE];
    let (len, _sent) = match requester.poll(&mut buf, req.client.provider(), &req_cache.session_heads(), &mut req.buffers.traversal.primary) {
        Ok(x) => x,
        Err(e) => {
            log.errors.push(format!("requester.poll: {}", sync_err_name(&e)));
            return log;
        }
    };
    // what was sampled (public view of the same message)
    let mut responder = SyncResponder::new();
    match SyncIncoming::decode(&buf[..len]) {
        Ok(SyncIncoming::Poll(p)) => {
            if let Err(e) = responder.receive(p) {
                log.errors.push(format!("responder.receive: {}", sync_err_name(&e)));
                return log;
            }
        }
        Ok(_) => {
            log.errors.push("request is not a poll".into());
            return log;
        }
        Err(e) => {
            log.errors.push(format!("decode request: {}", sync_err_name(&e)));
            return log;
        }
    }
    let mut trx = req.transaction();
    let mut received_addrs: Vec<Address> = vec![];
    while responder.ready() {
        log.polls += 1;
        if log.polls > max_polls {
            log.errors.push(format!("session did not end within {max_polls} polls"));
            break;
        }
        let len = match responder.poll(&mut buf, resp.client.provider(), resp_cache, &mut resp.buffers.traversal) {
            Ok(l) => l,
            Err(e) => {
                log.errors.push(format!("responder.poll: {}", sync_err_name(&e)));
                break;
            }
        };
        let hdr = peek(&buf[..len]);
        match requester.receive(&buf[..len]) {
            Ok(Some(cmds)) => {
                let k: Vec<KCmd> = cmds.iter().map(to_kcmd).collect();
                let index = match hdr {
                    Hdr::Response(i) => i,
                    ref h => {
                        log.errors.push(format!("commands under header {h:?}"));
                        u64::MAX
                    }
                };
                match req.add(&mut trx, &k) {
                    Ok(n) => log.added += n,
                    Err(e) => log.errors.push(format!("add_commands: {}", gk::err_name(&e))),
                }
                received_addrs.extend(k.iter().map(|c| c.address()));
                log.responses.push((index, k));
            }
            Ok(None) => match hdr {
                Hdr::End(m, _) => {
                    log.end_max_index = Some(m);
                }
                h => {
                    log.errors.push(format!("session closed by {h:?}"));
                    break;
                }
            },
            Err(e) => {
                log.errors.push(format!("requester.receive: {} ({hdr:?})", sync_err_name(&e)));
                break;
            }
        }
    }
    match req.commit(trx) {
        Ok(_) => {}
        Err(e) => log.errors.push(format!("commit: {}", gk::err_name(&e))),
    }
    if req.exists() {
        if let Err(e) =
            req.client.update_heads(graph, received_addrs, req_cache, &mut req.buffers.traversal.primary)
        {
            log.errors.push(format!("update_heads: {}", gk::err_name(&e)));
        }
    }
    log
}

// ---------------------------------------------------------------------------------- graph shapes

/// Shapes that exceed the sync limits; all bodies are check-free so nothing is ever rejected.
#[derive(Clone, Debug)]
pub enum Shape {
    /// gk::gen_dag with the given size
    Random { nodes: usize, branch_pct: u64, merge_pct: u64 },
    /// init, then `width` branches of `len` commands each forking from a trunk of `trunk` commands
    Comb { trunk: usize, width: usize, len: usize },
    /// one chain
    Chain { len: usize },
    /// chain with side branches that merge back
    Ladder { len: usize, every: usize, side: usize },
}

fn body(rng: &mut Rng) -> Vec<Op> {
    let mut b = vec![];
    if rng.chance(1, 2) {
        b.push(Op::Set(rng.below(4), rng.below(100)));
    }
    if rng.chance(3, 4) {
        b.push(Op::Append);
    }
    b
}

fn basic(rng: &mut Rng, parent: usize) -> Node {
    Node { parents: vec![parent], prio: Priority::Basic(rng.below(3) as u32), body: body(rng) }
}

pub fn build(rng: &mut Rng, shape: &Shape) -> Dag {
    let mut d = Dag::default();
    d.nodes.push(Node { parents: vec![], prio: Priority::Init, body: vec![Op::Set(0, 0), Op::Append] });
    match *shape {
        Shape::Random { nodes, branch_pct, merge_pct } => {
            let p = gk::DagParams {
                max_nodes: nodes,
                branch_pct,
                merge_pct,
                finalize_pct: 0,
                prios: 3,
                keys: 4,
                check_pct: 0,
                allow_parallel_finalize: false,
            };
            // gen_dag draws its size from 2..=max_nodes; keep drawing until reasonably large
            let mut best = gk::gen_dag(rng, &p);
            for _ in 0..3 {
                if best.nodes.len() * 2 >= nodes {
                    break;
                }
                let g = gk::gen_dag(rng, &p);
                if g.nodes.len() > best.nodes.len() {
                    best = g;
                }
            }
            return best;
        }
        Shape::Comb { trunk, width, len } => {
            let mut t = 0;
            for _ in 0..trunk {
                let n = basic(rng, t);
                d.nodes.push(n);
                t = d.nodes.len() - 1;
            }
            for _ in 0..width {
                let mut p = if trunk > 0 && rng.chance(1, 3) { rng.below(trunk as u64 + 1) as usize } else { t };
                for _ in 0..len {
                    let n = basic(rng, p);
                    d.nodes.push(n);
                    p = d.nodes.len() - 1;
                }
            }
        }
        Shape::Chain { len } => {
            let mut p = 0;
            for _ in 0..len {
                let n = basic(rng, p);
                d.nodes.push(n);
                p = d.nodes.len() - 1;
            }
        }
        Shape::Ladder { len, every, side } => {
            let mut p = 0;
            for i in 0..len {
                let n = basic(rng, p);
                d.nodes.push(n);
                p = d.nodes.len() - 1;
                if every > 0 && i % every == every - 1 {
                    let mut q = p;
                    for _ in 0..side {
                        let n = basic(rng, q);
                        d.nodes.push(n);
                        q = d.nodes.len() - 1;
                    }
                    let n = basic(rng, p);
                    d.nodes.push(n);
                    p = d.nodes.len() - 1;
                    d.nodes.push(Node { parents: vec![p, q], prio: Priority::Merge, body: vec![] });
                    p = d.nodes.len() - 1;
                }
            }
        }
    }
    d
}

/// A parents-closed subset of the DAG's node indexes (always contains 0), chosen as the
/// ancestors-or-self of `tips` random nodes taken below `limit`.
pub fn closed_subset(rng: &mut Rng, d: &Dag, tips: usize, limit: usize) -> BTreeSet<usize> {
    let mut keep = BTreeSet::new();
    keep.insert(0usize);
    let limit = limit.clamp(1, d.nodes.len());
    for _ in 0..tips {
        let t = rng.below(limit as u64) as usize;
        let mut st = vec![t];
        while let Some(x) = st.pop() {
            if keep.insert(x) {
                st.extend(d.nodes[x].parents.iter().copied());
            }
        }
    }
    keep
}

/// Load the commands `which` (node indexes, any parents-closed set) into a fresh replica, in
/// index order, split into transactions of random size (`max_batch`); every transaction is
/// committed.  Varies the segment layout: a transaction boundary always cuts a segment.
pub fn load(rng: &mut Rng, cmds: &[KCmd], which: &BTreeSet<usize>, max_batch: usize) -> Result<Replica<gk::MemProvider>, String> {
    let mut r = gk::mem_replica(gk::graph_id_of(&cmds[0]));
    let order: Vec<usize> = which.iter().copied().collect();
    let mut i = 0;
    while i < order.len() {
        let n = rng.range(1, max_batch.max(1) as u64) as usize;
        let batch: Vec<KCmd> = order[i..(i + n).min(order.len())].iter().map(|&k| cmds[k].clone()).collect();
        i += batch.len();
        let mut trx = r.transaction();
        r.add(&mut trx, &batch).map_err(|e| format!("load add: {}", gk::err_name(&e)))?;
        r.commit(trx).map_err(|e| format!("load commit: {}", gk::err_name(&e)))?;
    }
    Ok(r)
}

pub fn parents_of(c: &KCmd) -> Vec<CmdId> {
    match c.parent {
        Prior::None => vec![],
        Prior::Single(p) => vec![p.id],
        Prior::Merge(l, r) => vec![l.id, r.id],
    }
}

pub fn mc(m: MaxCut) -> u64 {
    m.get()
}

/// ancestors-or-self of `from` within the command set `g`
pub fn anc_self(g: &BTreeMap<CmdId, KCmd>, from: impl IntoIterator<Item = CmdId>) -> BTreeSet<CmdId> {
    let mut seen = BTreeSet::new();
    let mut st: Vec<CmdId> = from.into_iter().collect();
    while let Some(x) = st.pop() {
        if let Some(c) = g.get(&x) {
            if seen.insert(x) {
                st.extend(parents_of(c));
            }
        }
    }
    seen
}
