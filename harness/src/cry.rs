//! Shared helpers of the crypto harnesses c34 / c36 / c37 / c38 (included with `#[path]`, not a
//! module of `vh`, so that it does not depend on other builders' edits of lib.rs).
//!
//! * `SeedRng`: a deterministic `Csprng` (SplitMix64) so that every key, nonce and seed of a run
//!   derives from `--seed`.
//! * an independent Rust transcription of the Lean framing model (`Model.Framing`): the exact
//!   bytes `tuple_hash` feeds to the hash.  The harness hashes these bytes with the REAL
//!   SHA-256 of the default cipher suite and compares with the real digests / ids / ADs; the
//!   same bytes are diffed against the Lean driver's output by `./check`.
#![allow(dead_code)]

use std::cell::Cell;

use aranya_crypto::{
    dangerous::spideroak_crypto::{hash::Hash as _, rust::Sha256},
    default::DefaultCipherSuite,
    CipherSuite, Csprng,
};

pub type CS = DefaultCipherSuite;

/// Deterministic CSPRNG for reproducible runs.
pub struct SeedRng(Cell<u64>);

impl SeedRng {
    pub fn new(seed: u64) -> Self {
        SeedRng(Cell::new(seed ^ 0xA5A5_5A5A_C3C3_3C3C))
    }
    fn next(&self) -> u64 {
        let mut s = self.0.get().wrapping_add(0x9E37_79B9_7F4A_7C15);
        self.0.set(s);
        s = (s ^ (s >> 30)).wrapping_mul(0xBF58_476D_1CE4_E5B9);
        s = (s ^ (s >> 27)).wrapping_mul(0x94D0_49BB_1331_11EB);
        s ^ (s >> 31)
    }
}

impl Csprng for SeedRng {
    fn fill_bytes(&self, dst: &mut [u8]) {
        for b in dst.iter_mut() {
            *b = self.next() as u8;
        }
    }
}

/// the six OIDs of the default cipher suite, in `CipherSuite::OIDS` order
pub fn suite_oids() -> Vec<Vec<u8>> {
    <CS as CipherSuite>::OIDS.into_iter().map(|o| o.as_bytes().to_vec()).collect()
}

pub const DSIZE: usize = 32;

pub fn sha256(data: &[u8]) -> [u8; 32] {
    let d = Sha256::hash(data);
    let mut out = [0u8; 32];
    out.copy_from_slice(d.as_bytes());
    out
}

/// minimal big-endian base-256 digits (`[0]` for 0)
pub fn be_digits(mut n: u128) -> Vec<u8> {
    let mut v = vec![(n & 0xff) as u8];
    n >>= 8;
    while n > 0 {
        v.push((n & 0xff) as u8);
        n >>= 8;
    }
    v.reverse();
    v
}
pub fn left_encode(n: u128) -> Vec<u8> {
    let d = be_digits(n);
    let mut v = vec![d.len() as u8];
    v.extend(d);
    v
}
pub fn right_encode(n: u128) -> Vec<u8> {
    let mut v = be_digits(n);
    let l = v.len() as u8;
    v.push(l);
    v
}
pub fn encode_string(s: &[u8]) -> Vec<u8> {
    let mut v = left_encode(8 * s.len() as u128);
    v.extend_from_slice(s);
    v
}
/// what `hash::tuple_hash::<H,_>(items)` feeds to `H`
pub fn tuple_preimage(items: &[Vec<u8>], dsize: usize) -> Vec<u8> {
    let mut v = vec![];
    for it in items {
        v.extend(encode_string(it));
    }
    v.extend(right_encode(8 * dsize as u128));
    v
}
/// `CipherSuiteExt::tuple_hash(tag, ctx)`
pub fn suite_tuple_preimage(tag: &[u8], ctx: &[Vec<u8>]) -> Vec<u8> {
    let mut items = vec![tag.to_vec()];
    items.extend(suite_oids());
    items.extend(ctx.iter().cloned());
    tuple_preimage(&items, DSIZE)
}
/// `IdExt::new::<CS>(tag, data)`
pub fn id_preimage(tag: &[u8], data: &[Vec<u8>]) -> Vec<u8> {
    let mut ctx: Vec<Vec<u8>> = data.to_vec();
    ctx.push(tag.to_vec());
    suite_tuple_preimage(b"ID-v1", &ctx)
}

/// the `suite <dsize> <oid>...` request line
pub fn suite_line() -> String {
    let mut s = format!("suite {DSIZE}");
    for o in suite_oids() {
        s.push(' ');
        s.push_str(&vh::hex(&o));
    }
    s
}

/// Answer for a preimage request: the harness's preimage bytes if hashing them with the real
/// SHA-256 reproduces what the real code produced, otherwise a MISMATCH marker (which differs
/// from whatever the model prints, so `./check` reports the tie as broken).
pub fn pre_answer(pre: &[u8], real: &[u8]) -> String {
    if sha256(pre)[..] == *real {
        vh::hex(pre)
    } else {
        format!("MISMATCH sha256(model-framed bytes)={} real={}", vh::hex(&sha256(pre)), vh::hex(real))
    }
}

/// flip one bit
pub fn flip(v: &[u8], pos: usize, bit: u8) -> Vec<u8> {
    let mut w = v.to_vec();
    w[pos] ^= 1 << (bit % 8);
    w
}

/// Answer for a preimage request whose hash is not observable: the framed bytes if the
/// primitive-level check (`ok`) confirmed them, else a MISMATCH marker.
pub fn pre_answer_ok(pre: &[u8], ok: bool, why: &str) -> String {
    if ok {
        vh::hex(pre)
    } else {
        format!("MISMATCH {why}")
    }
}

// ---------------------------------------------------------------- primitive-level helpers (C37 / C38)
use aranya_crypto::{
    dangerous::spideroak_crypto::{
        aead::Aead as _,
        kdf::Kdf as _,
        rust::{Aes256Gcm, HkdfSha512},
    },
    default::DefaultEngine,
    engine::UnwrappedKey,
    Engine as _, Identified,
};

pub type Eng = DefaultEngine<SeedRng, CS>;
pub type EngKey = <Aes256Gcm as aranya_crypto::dangerous::spideroak_crypto::aead::Aead>::Key;

/// every suite OID `encode_string`ed, concatenated (`Oids::encode`)
pub fn encoded_oids() -> Vec<u8> {
    let mut v = vec![];
    for o in suite_oids() {
        v.extend(encode_string(&o));
    }
    v
}

/// Raw secret bytes of a key, obtained WITHOUT any hook: wrap it with the real engine and open
/// the wrapped form with the raw AES-256-GCM primitive under the known engine key (C36 layout).
pub fn raw_secret<K: UnwrappedKey<CS> + Identified>(eng: &Eng, ekey: &EngKey, key: K, alg_id: &[u8]) -> Vec<u8> {
    let wk = eng.wrap(key).expect("wrap");
    let ser = postcard::to_allocvec(&wk).expect("serialize wrapped key");
    assert!(ser[0] == 0x20 && ser.len() > 62, "wrapped key layout");
    let n = ser.len() - 62;
    let (id, nonce, ct, tag) = (&ser[1..33], &ser[33..45], &ser[46..46 + n], &ser[46 + n..]);
    let ad = sha256(&suite_tuple_preimage(b"DefaultEngine", &[alg_id.to_vec(), id.to_vec()]));
    let mut data = ct.to_vec();
    Aes256Gcm::new(ekey).open_in_place(nonce, &mut data, tag, &ad).expect("raw unwrap");
    data
}

/// `CipherSuiteExt::labeled_extract(domain, salt = [], label, ikm)` with the real HKDF-SHA512
pub fn labeled_extract(domain: &[u8], label: &[u8], ikm: &[u8]) -> aranya_crypto::dangerous::spideroak_crypto::kdf::Prk<<HkdfSha512 as aranya_crypto::dangerous::spideroak_crypto::kdf::Kdf>::PrkSize> {
    let eo = encoded_oids();
    HkdfSha512::extract_multi([domain, &eo[..], label, ikm], &[])
}

/// `CipherSuiteExt::labeled_expand(domain, prk, label, info)` producing `out.len()` bytes
pub fn labeled_expand(
    domain: &[u8],
    prk: &aranya_crypto::dangerous::spideroak_crypto::kdf::Prk<<HkdfSha512 as aranya_crypto::dangerous::spideroak_crypto::kdf::Kdf>::PrkSize>,
    label: &[u8],
    info: &[u8],
    out: &mut [u8],
) {
    let eo = encoded_oids();
    let size = (out.len() as u16).to_be_bytes();
    HkdfSha512::expand_multi(out, prk, [&size[..], domain, &eo[..], label, info]).expect("expand");
}

/// raw AES-256-GCM open with a 32-byte key
pub fn aes_open(key: &[u8], nonce: &[u8], ct: &[u8], tag: &[u8], ad: &[u8]) -> Option<Vec<u8>> {
    use aranya_crypto::dangerous::spideroak_crypto::import::Import as _;
    let k = EngKey::import(key).ok()?;
    let mut data = ct.to_vec();
    Aes256Gcm::new(&k).open_in_place(nonce, &mut data, tag, ad).ok()?;
    Some(data)
}
