//! C11 — command lookup and ancestry queries are exact; skip lists never change answers.
//!
//! Builds REAL linear storages (`LinearStorageProvider` over the in-memory io manager, i.e.
//! `MemStorageProvider`) segment by segment through the public `Storage` API
//! (`get_linear_perspective` / `new_merge_perspective` / `Perspective::add_command` / `write` /
//! `commit_heads`), dumps the real segment layout through the public `Segment` trait, and
//! queries `get_location`, `get_location_from`, `is_ancestor` on the real storage.
//!
//! * S-level oracle: plain graph reachability over the harness's own mirror of the command DAG
//!   (bitsets), independent of the Lean model; also the skip-list soundness predicate evaluated on
//!   the real skip lists, and the `skip_target_boundaries` rules.
//! * Model tie: every request line is answered by the Lean driver `drv_c11` fed the same segment
//!   layout (including the real skip lists); the `seg` line itself is answered with the skip list.
//!
//! Request lines: see lean/Driver/C11.lean.

use aranya_runtime::{
    storage::linear::testing::MemStorageProvider, testing::hash_for_testing_only, Address, CmdId,
    Command, HeadSet, LocatedAddress, Location, MaxCut, Perspective as _, PolicyId, Prior, Priority,
    Segment as _, SegmentIndex, Storage, StorageProvider, TraversalBuffer,
};
use std::collections::BTreeMap;
use vh::{fnv, Args, Recorder, Rng};

// ------------------------------------------------------------------ commands

pub struct Cmd {
    id: CmdId,
    prio: Priority,
    parent: Prior<Address>,
    data: Vec<u8>,
}

impl Command for Cmd {
    fn priority(&self) -> Priority {
        self.prio.clone()
    }
    fn id(&self) -> CmdId {
        self.id
    }
    fn parent(&self) -> Prior<Address> {
        self.parent
    }
    fn policy(&self) -> Option<&[u8]> {
        None
    }
    fn bytes(&self) -> &[u8] {
        &self.data
    }
}

pub fn cmd_id(n: u64) -> CmdId {
    let mut b = b"c11-cmd-".to_vec();
    b.extend_from_slice(&n.to_le_bytes());
    hash_for_testing_only(&b)
}

// ------------------------------------------------------------------ plan (what to build)

#[derive(Clone, Debug, PartialEq)]
pub enum PPrior {
    None,
    Single(u64),
    Merge(u64, u64),
}

/// One segment to write: commands `ids` (small integers), the first one a child of `prior`
/// (command ids); for merges the recorded last common ancestor.
#[derive(Clone, Debug)]
pub struct PlanSeg {
    pub prior: PPrior,
    pub lca: Option<u64>,
    pub ids: Vec<u64>,
}

/// The harness's own mirror of the command DAG (independent of the storage code).
#[derive(Default, Clone)]
pub struct Mirror {
    /// parents of node i (indices)
    pub parents: Vec<Vec<usize>>,
    pub mc: Vec<u64>,
    /// small-integer id of node i, and the inverse map
    pub ids: Vec<u64>,
    pub by_id: BTreeMap<u64, usize>,
    /// anc*(i) as a bitset (i itself included)
    pub anc: Vec<Vec<u64>>,
}

impl Mirror {
    pub fn n(&self) -> usize {
        self.ids.len()
    }
    pub fn add(&mut self, id: u64, parents: Vec<usize>) -> usize {
        let i = self.n();
        let words = i / 64 + 1;
        let mut bits = vec![0u64; words];
        let mut mc = 0;
        for &p in &parents {
            mc = mc.max(self.mc[p] + 1);
            for (w, x) in self.anc[p].iter().enumerate() {
                bits[w] |= x;
            }
        }
        bits[i / 64] |= 1 << (i % 64);
        self.parents.push(parents);
        self.mc.push(mc);
        self.ids.push(id);
        self.by_id.insert(id, i);
        self.anc.push(bits);
        i
    }
    /// a ∈ anc*(b)
    pub fn anc_self(&self, a: usize, b: usize) -> bool {
        self.anc[b].get(a / 64).map_or(false, |w| w >> (a % 64) & 1 == 1)
    }
    pub fn comparable(&self, a: usize, b: usize) -> bool {
        self.anc_self(a, b) || self.anc_self(b, a)
    }
    /// c is a common ancestor-or-self of l and r below which nothing else of anc*(l) ∪ anc*(r)
    /// lives: every x in the union with mc(x) <= mc(c) is an ancestor-or-self of c.
    pub fn is_dominator(&self, c: usize, l: usize, r: usize) -> bool {
        if !(self.anc_self(c, l) && self.anc_self(c, r)) {
            return false;
        }
        (0..self.n()).all(|x| {
            !((self.anc_self(x, l) || self.anc_self(x, r)) && self.mc[x] <= self.mc[c]) || self.anc_self(x, c)
        })
    }
    pub fn dominators(&self, l: usize, r: usize) -> Vec<usize> {
        let mut v: Vec<usize> = (0..self.n()).filter(|&c| self.is_dominator(c, l, r)).collect();
        v.sort_by_key(|&c| std::cmp::Reverse(self.mc[c]));
        v
    }
    pub fn frontier(&self) -> Vec<usize> {
        let mut has_child = vec![false; self.n()];
        for ps in &self.parents {
            for &p in ps {
                has_child[p] = true;
            }
        }
        (0..self.n()).filter(|&i| !has_child[i]).collect()
    }
}

pub fn seg_len(rng: &mut Rng, mode: u8) -> usize {
    match mode {
        // many short segments: deep segment chains, skip lists get built
        0 => *rng.pick(&[1, 1, 1, 1, 2, 2, 3]),
        // around the 10-command threshold
        1 => *rng.pick(&[9, 10, 11, 9, 10, 11, 1, 2, 12]),
        _ => *rng.pick(&[1, 1, 2, 3, 5, 9, 10, 11]),
    }
}

/// Generates a build plan together with its mirror.
pub fn gen_plan(rng: &mut Rng, big: bool) -> (String, Vec<PlanSeg>) {
    let shape = rng.below(10);
    let lmode = rng.below(3) as u8;
    let budget = if big { rng.range(30, 420) } else { rng.range(12, 150) } as usize;
    let mut m = Mirror::default();
    let mut plan = vec![];
    let mut next_id = 0u64;
    let mut fresh = |n: usize| -> Vec<u64> {
        let v: Vec<u64> = (next_id..next_id + n as u64).collect();
        next_id += n as u64;
        v
    };
    // init segment
    let l0 = seg_len(rng, lmode).min(4);
    let ids = fresh(l0);
    let mut prev: Option<usize> = None;
    for &id in &ids {
        prev = Some(m.add(id, prev.into_iter().collect()));
    }
    plan.push(PlanSeg { prior: PPrior::None, lca: None, ids });
    let (p_fork, p_merge, name) = match shape {
        0..=2 => (0, 0, "chain"),
        3..=5 => (12, 14, "dag"),
        6..=7 => (4, 6, "long-branches"),
        _ => (25, 30, "bushy"),
    };
    while m.n() < budget {
        let heads = m.frontier();
        let k = rng.below(100);
        if k < p_merge && heads.len() >= 2 {
            // merge two incomparable commands (mostly heads)
            let l = *rng.pick(&heads);
            let r = if rng.chance(4, 5) { *rng.pick(&heads) } else { rng.below(m.n() as u64) as usize };
            if l == r || m.comparable(l, r) {
                continue;
            }
            let doms = m.dominators(l, r);
            // the deepest dominator (what the lca walk of the runtime yields), sometimes a more
            // conservative one (any dominator is a legal recorded ancestor)
            let lca = if rng.chance(1, 6) { *rng.pick(&doms) } else { doms[0] };
            let len = if rng.chance(1, 2) { 1 } else { seg_len(rng, lmode) };
            let ids = fresh(len);
            let mut prev = m.add(ids[0], vec![l, r]);
            for &id in &ids[1..] {
                prev = m.add(id, vec![prev]);
            }
            plan.push(PlanSeg { prior: PPrior::Merge(m.ids[l], m.ids[r]), lca: Some(m.ids[lca]), ids });
        } else {
            let parent = if k < p_merge + p_fork || heads.is_empty() {
                rng.below(m.n() as u64) as usize
            } else {
                *rng.pick(&heads)
            };
            let ids = fresh(seg_len(rng, lmode));
            let mut prev = parent;
            for &id in &ids {
                prev = m.add(id, vec![prev]);
            }
            plan.push(PlanSeg { prior: PPrior::Single(m.ids[parent]), lca: None, ids });
        }
    }
    (format!("{name}/len{lmode}"), plan)
}

// ------------------------------------------------------------------ real build

pub struct SegDump {
    pub idx: u64,
    pub first: u64,
    pub len: u64,
    pub prior: Prior<Location>,
    pub skips: Vec<Location>,
    pub lca: Option<Location>,
    pub ids: Vec<u64>,
}

pub struct Built {
    pub provider: MemStorageProvider,
    pub graph: aranya_runtime::GraphId,
    pub mirror: Mirror,
    /// location of node i
    pub loc: Vec<Location>,
    pub by_loc: BTreeMap<(u64, u64), usize>,
    pub segs: Vec<SegDump>,
}

pub fn show_loc(l: Location) -> String {
    format!("{}:{}", l.segment.get(), l.max_cut.get())
}
pub fn show_locs(ls: &[Location]) -> String {
    format!("[{}]", ls.iter().map(|l| show_loc(*l)).collect::<Vec<_>>().join(","))
}
pub fn show_list(ls: &[Location]) -> String {
    if ls.is_empty() {
        "-".into()
    } else {
        ls.iter().map(|l| show_loc(*l)).collect::<Vec<_>>().join(",")
    }
}
pub fn show_prior(p: Prior<Location>) -> String {
    match p {
        Prior::None => "n".into(),
        Prior::Single(a) => format!("s:{}", show_loc(a)),
        Prior::Merge(a, b) => format!("m:{}:{}", show_loc(a), show_loc(b)),
    }
}
pub fn parse_loc(s: &str) -> Option<Location> {
    let (a, b) = s.split_once(':')?;
    Some(Location::new(SegmentIndex::new(a.parse().ok()?), MaxCut::new(b.parse().ok()?)))
}

/// Executes the plan against a real storage; writes one `seg` line per written segment.
pub fn build(rec: &mut Recorder, plan: &[PlanSeg]) -> Result<Built, String> {
    let policy = PolicyId::new(0);
    let mut provider = MemStorageProvider::default();
    let mut mirror = Mirror::default();
    let mut loc: Vec<Location> = vec![];
    let mut by_loc = BTreeMap::new();
    let mut segs: Vec<SegDump> = vec![];
    let mut graph = None;
    rec.line("new", "ok");
    for (k, ps) in plan.iter().enumerate() {
        let e = |w: &str, x: &dyn std::fmt::Debug| format!("plan segment {k}: {w}: {x:?}");
        let node = |id: u64| mirror.by_id.get(&id).copied().ok_or_else(|| format!("plan segment {k}: unknown command {id}"));
        if ps.ids.is_empty() {
            return Err(format!("plan segment {k}: empty"));
        }
        // parents of the first command
        let (parents, parent_nodes): (Prior<Address>, Vec<usize>) = match ps.prior {
            PPrior::None => (Prior::None, vec![]),
            PPrior::Single(p) => {
                let p = node(p)?;
                (Prior::Single(Address { id: cmd_id(mirror.ids[p]), max_cut: MaxCut::new(mirror.mc[p]) }), vec![p])
            }
            PPrior::Merge(l, r) => {
                let (l, r) = (node(l)?, node(r)?);
                let a = |i: usize| Address { id: cmd_id(mirror.ids[i]), max_cut: MaxCut::new(mirror.mc[i]) };
                (Prior::Merge(a(l), a(r)), vec![l, r])
            }
        };
        let lca_loc = match ps.lca {
            Some(c) => Some(loc[node(c)?]),
            None => None,
        };
        let first_mc = parent_nodes.iter().map(|&p| mirror.mc[p] + 1).max().unwrap_or(0);
        // the commands
        let mut cmds = vec![];
        for (j, &id) in ps.ids.iter().enumerate() {
            let parent = if j == 0 {
                parents
            } else {
                Prior::Single(Address { id: cmd_id(ps.ids[j - 1]), max_cut: MaxCut::new(first_mc + j as u64 - 1) })
            };
            let prio = match (j, &ps.prior) {
                (0, PPrior::None) => Priority::Init,
                (0, PPrior::Merge(..)) => Priority::Merge,
                _ => Priority::Basic(0),
            };
            cmds.push(Cmd { id: cmd_id(id), prio, parent, data: id.to_le_bytes().to_vec() });
        }
        let segment = if k == 0 {
            if ps.prior != PPrior::None {
                return Err("plan must start with an init segment".into());
            }
            let mut p = provider.new_perspective(policy);
            for c in &cmds {
                p.add_command(c).map_err(|x| e("add_command", &x))?;
            }
            let (g, storage) = provider.new_storage(p).map_err(|x| e("new_storage", &x))?;
            graph = Some(g);
            let head = storage.get_heads().map_err(|x| e("get_heads", &x))?.as_slice()[0];
            storage.get_segment(head.location()).map_err(|x| e("get_segment", &x))?
        } else {
            let storage = provider.get_storage(graph.unwrap()).map_err(|x| e("get_storage", &x))?;
            let mut p = match ps.prior {
                PPrior::None => return Err(format!("plan segment {k}: second init")),
                PPrior::Single(_) => storage
                    .get_linear_perspective(loc[parent_nodes[0]])
                    .map_err(|x| e("get_linear_perspective", &x))?,
                PPrior::Merge(..) => {
                    let braid = storage.fact_cache().map_err(|x| e("fact_cache", &x))?;
                    storage
                        .new_merge_perspective(
                            loc[parent_nodes[0]],
                            loc[parent_nodes[1]],
                            lca_loc.ok_or("merge without lca")?,
                            policy,
                            braid,
                        )
                        .map_err(|x| e("new_merge_perspective", &x))?
                }
            };
            for c in &cmds {
                p.add_command(c).map_err(|x| e("add_command", &x))?;
            }
            storage.write(p).map_err(|x| e("write", &x))?
        };
        // dump the real segment through the Segment trait
        let idx = segment.index();
        let first = segment.shortest_max_cut();
        let last = segment.longest_max_cut().map_err(|x| e("longest_max_cut", &x))?;
        let mut real_ids = vec![];
        for mcv in first.get()..=last.get() {
            let c = segment
                .get_command(Location::new(idx, MaxCut::new(mcv)))
                .ok_or_else(|| format!("segment {idx} has no command at {mcv}"))?;
            let pos = ps.ids.iter().position(|&i| cmd_id(i) == c.id());
            real_ids.push(pos.map(|p| ps.ids[p]).ok_or("segment holds a foreign command id")?);
        }
        let dump = SegDump {
            idx: idx.get(),
            first: first.get(),
            len: real_ids.len() as u64,
            prior: segment.prior(),
            skips: segment.skip_list().to_vec(),
            lca: lca_loc,
            ids: real_ids,
        };
        rec.line(
            format!(
                "seg {} {} {} {} {} {}",
                dump.idx,
                dump.first,
                show_prior(dump.prior),
                lca_loc.map_or("-".into(), show_loc),
                dump.ids.iter().map(|i| i.to_string()).collect::<Vec<_>>().join(","),
                show_list(&dump.skips)
            ),
            show_locs(&dump.skips),
        );
        // mirror (from the plan, not from the storage)
        let mut prev = parent_nodes.clone();
        for (j, &id) in ps.ids.iter().enumerate() {
            let i = mirror.add(id, prev.clone());
            let l = Location::new(idx, MaxCut::new(first.get() + j as u64));
            loc.push(l);
            by_loc.insert((idx.get(), first.get() + j as u64), i);
            prev = vec![i];
        }
        segs.push(dump);
    }
    Ok(Built { provider, graph: graph.ok_or("empty plan")?, mirror, loc, by_loc, segs })
}

// ------------------------------------------------------------------ oracles on the layout

/// the real layout must present the planned graph; real skip lists must be sound
pub fn check_layout(rec: &mut Recorder, b: &Built, plan: &[PlanSeg]) {
    let m = &b.mirror;
    for (k, (d, ps)) in b.segs.iter().zip(plan).enumerate() {
        if d.ids != ps.ids {
            rec.oracle_fail(format!("segment {k}: holds commands {:?}, written {:?}", d.ids, ps.ids));
        }
        let first_node = m.by_id[&ps.ids[0]];
        if d.first != m.mc[first_node] {
            rec.oracle_fail(format!("segment {k}: first max cut {} but graph says {}", d.first, m.mc[first_node]));
        }
        let pl: Vec<Location> = d.prior.into_iter().collect();
        let want: Vec<Location> = m.parents[first_node].iter().map(|&p| b.loc[p]).collect();
        if pl != want {
            rec.oracle_fail(format!("segment {k}: prior {:?} but parents are at {:?}", pl, want));
        }
        // skip-list soundness
        let mut last_mc = None;
        for s in &d.skips {
            let Some(&sn) = b.by_loc.get(&(s.segment.get(), s.max_cut.get())) else {
                rec.oracle_fail(format!("segment {k}: skip entry {} is not a command location", show_loc(*s)));
                continue;
            };
            if sn == first_node || !m.anc_self(sn, first_node) {
                rec.oracle_fail(format!("segment {k}: skip entry {} is not an ancestor of the segment", show_loc(*s)));
            }
            for x in 0..m.n() {
                if x != first_node && m.anc_self(x, first_node) && m.mc[x] <= m.mc[sn] && !m.anc_self(x, sn) {
                    rec.oracle_fail(format!(
                        "segment {k}: skip entry {} jumps past ancestor {} (max cut {})",
                        show_loc(*s),
                        show_loc(b.loc[x]),
                        m.mc[x]
                    ));
                    break;
                }
            }
            if last_mc.map_or(false, |l| l >= s.max_cut.get()) {
                rec.oracle_fail(format!("segment {k}: skip list not strictly ascending {}", show_locs(&d.skips)));
            }
            last_mc = Some(s.max_cut.get());
        }
        if let Some(l) = d.lca {
            if d.skips.last() != Some(&l) {
                rec.oracle_fail(format!("segment {k}: merge skip list {} does not end with the recorded ancestor {}", show_locs(&d.skips), show_loc(l)));
            }
        }
        if d.skips.len() > 1 {
            rec.count("segments:rich-skip-list");
        } else if d.skips.len() == 1 {
            rec.count("segments:one-skip");
        } else {
            rec.count("segments:no-skip");
        }
    }
}

// ------------------------------------------------------------------ queries

pub struct Q<'a> {
    pub b: &'a mut Built,
    pub buf: TraversalBuffer,
    pub heads: Vec<usize>,
}

pub fn id_of_addr(m: &Mirror, id: u64, mc: u64) -> Option<usize> {
    m.by_id.get(&id).copied().filter(|&i| m.mc[i] == mc)
}

impl Q<'_> {
    pub fn exec(&mut self, rec: &mut Recorder, line: &str) {
        let t: Vec<&str> = line.split(' ').collect();
        let num = |s: &str| s.parse::<u64>().ok();
        let graph = self.b.graph;
        match t.as_slice() {
            ["heads", hs] => {
                let locs: Option<Vec<Location>> = if *hs == "-" { Some(vec![]) } else { hs.split(',').map(parse_loc).collect() };
                let Some(locs) = locs else { return rec.line(line, "bad-op") };
                let mut nodes = vec![];
                let mut set = HeadSet::default();
                for l in &locs {
                    let Some(&i) = self.b.by_loc.get(&(l.segment.get(), l.max_cut.get())) else {
                        return rec.line(line, "bad-op");
                    };
                    nodes.push(i);
                    set.push(LocatedAddress { id: cmd_id(self.b.mirror.ids[i]), segment: l.segment, max_cut: l.max_cut });
                }
                let storage = self.b.provider.get_storage(graph).unwrap();
                let fc = storage.fact_cache().unwrap();
                let r = storage.commit_heads(set, fc);
                self.heads = nodes;
                rec.line(line, if r.is_ok() { "ok" } else { "err" });
            }
            ["loc", id, mc] => {
                let (Some(id), Some(mc)) = (num(id), num(mc)) else { return rec.line(line, "bad-op") };
                let storage = self.b.provider.get_storage(graph).unwrap();
                let addr = Address { id: cmd_id(id), max_cut: MaxCut::new(mc) };
                let buf = &mut self.buf;
                let got = vh::catch(std::panic::AssertUnwindSafe(|| storage.get_location(addr, buf)));
                let m = &self.b.mirror;
                let want = id_of_addr(m, id, mc).filter(|&x| self.heads.iter().any(|&h| m.anc_self(x, h))).map(|x| self.b.loc[x]);
                self.finish_found(rec, line, got, want, "get_location");
            }
            ["locfrom", start, id, mc] => {
                let (Some(start), Some(id), Some(mc)) = (parse_loc(start), num(id), num(mc)) else {
                    return rec.line(line, "bad-op");
                };
                let storage = self.b.provider.get_storage(graph).unwrap();
                let addr = Address { id: cmd_id(id), max_cut: MaxCut::new(mc) };
                let buf = &mut self.buf;
                let got = vh::catch(std::panic::AssertUnwindSafe(|| storage.get_location_from(start, addr, buf)));
                let m = &self.b.mirror;
                let Some(&sn) = self.b.by_loc.get(&(start.segment.get(), start.max_cut.get())) else {
                    // start is not a command location: no claim
                    rec.count("query:locfrom:invalid-start");
                    let s = match &got {
                        Ok(Ok(None)) => "none".to_string(),
                        Ok(Ok(Some(l))) => show_loc(*l),
                        Ok(Err(_)) => "err".into(),
                        Err(p) => {
                            rec.panics.push(format!("{line}: {p}"));
                            "panic".into()
                        }
                    };
                    return rec.line(line, s);
                };
                let want = id_of_addr(m, id, mc).filter(|&x| m.anc_self(x, sn)).map(|x| self.b.loc[x]);
                self.finish_found(rec, line, got, want, "get_location_from");
            }
            ["anc", a, s] => {
                let (Some(a), Some(s)) = (parse_loc(a), parse_loc(s)) else { return rec.line(line, "bad-op") };
                let storage = self.b.provider.get_storage(graph).unwrap();
                let buf = &mut self.buf;
                let got = vh::catch(std::panic::AssertUnwindSafe(|| storage.is_ancestor(a, s, buf)));
                let m = &self.b.mirror;
                let an = self.b.by_loc.get(&(a.segment.get(), a.max_cut.get())).copied();
                let sn = self.b.by_loc.get(&(s.segment.get(), s.max_cut.get())).copied();
                let ans = match &got {
                    Ok(Ok(x)) => (*x as u8).to_string(),
                    Ok(Err(_)) => "err".into(),
                    Err(p) => {
                        rec.panics.push(format!("{line}: {p}"));
                        "panic".into()
                    }
                };
                rec.line(line, ans);
                if let Some(sn) = sn {
                    // proper ancestor; a location that holds no command is nobody's ancestor
                    let want = an.map_or(false, |an| an != sn && m.anc_self(an, sn));
                    rec.count(if want { "query:anc:true" } else if an.is_none() { "query:anc:invalid-search" } else { "query:anc:false" });
                    match got {
                        Ok(Ok(x)) if x == want => {}
                        other => rec.oracle_fail_with(
                            format!("is_ancestor({}, {}) = {:?}, reachability says {}", show_loc(a), show_loc(s), other.map(|r| r.map_err(|e| e.to_string())), want),
                            self.failing_input(rec, line),
                        ),
                    }
                } else {
                    rec.count("query:anc:invalid-start");
                }
            }
            ["bounds", n] => {
                let Some(n) = num(n) else { return rec.line(line, "bad-op") };
                let got = aranya_runtime::storage::linear::verif_api_c11::skip_target_boundaries(n);
                match got {
                    Err(_) => {
                        rec.line(line, "err");
                        rec.oracle_fail_with(format!("skip_target_boundaries({n}) failed"), vec![line.to_string()]);
                    }
                    Ok(v) => {
                        rec.line(line, format!("[{}]", v.iter().map(|x| x.to_string()).collect::<Vec<_>>().join(",")));
                        let gap = aranya_runtime::storage::linear::verif_api_c11::MIN_SKIP_GAP;
                        let inc = v.windows(2).all(|w| w[0] < w[1]);
                        let below = v.iter().all(|&x| x > 0 && x < n);
                        let shape = if n < 2 {
                            v.is_empty()
                        } else {
                            v.first() == Some(&(n / 2)) && v.last().map_or(false, |&l| n - l <= gap)
                                && v.windows(2).all(|w| n - w[0] > gap && w[1] == w[0] + (n - w[0]) / 2)
                        };
                        if !(inc && below && shape) {
                            rec.oracle_fail_with(format!("skip_target_boundaries({n}) = {v:?}"), vec![line.to_string()]);
                        }
                    }
                }
            }
            _ => rec.line(line, "bad-op"),
        }
    }

    pub fn failing_input(&self, rec: &Recorder, line: &str) -> Vec<String> {
        // the build lines of the case + the committed heads + the failing query
        let mut v: Vec<String> =
            rec.current_case_lines().into_iter().filter(|l| l == "new" || l.starts_with("seg ")).collect();
        let hs: Vec<Location> = self.heads.iter().map(|&h| self.b.loc[h]).collect();
        if !hs.is_empty() {
            v.push(format!("heads {}", show_list(&hs)));
        }
        v.push(line.to_string());
        v
    }

    pub fn finish_found(
        &mut self,
        rec: &mut Recorder,
        line: &str,
        got: Result<Result<Option<Location>, aranya_runtime::StorageError>, String>,
        want: Option<Location>,
        what: &str,
    ) {
        let ans = match &got {
            Ok(Ok(None)) => "none".to_string(),
            Ok(Ok(Some(l))) => show_loc(*l),
            Ok(Err(_)) => "err".into(),
            Err(p) => {
                rec.panics.push(format!("{line}: {p}"));
                "panic".into()
            }
        };
        rec.line(line, ans);
        rec.count(&format!("query:{}:{}", line.split(' ').next().unwrap(), if want.is_some() { "found" } else { "absent" }));
        let ok = matches!(&got, Ok(Ok(g)) if *g == want);
        if !ok {
            rec.oracle_fail_with(
                format!("{what}: `{line}` returned {:?}, reachability says {:?}", got.map(|r| r.map_err(|e| e.to_string()).map(|o| o.map(show_loc))), want.map(show_loc)),
                self.failing_input(rec, line),
            );
        }
    }
}

/// all queries of one case, as request lines
pub fn gen_queries(rng: &mut Rng, b: &Built, exhaustive_limit: usize, samples: usize) -> Vec<String> {
    let m = &b.mirror;
    let n = m.n();
    let mut q = vec![];
    let addr = |x: usize| format!("{} {}", m.ids[x], m.mc[x]);
    // committed heads 1: the whole frontier
    let fr: Vec<Location> = m.frontier().iter().map(|&h| b.loc[h]).collect();
    q.push(format!("heads {}", show_list(&fr)));
    for x in 0..n {
        q.push(format!("loc {}", addr(x)));
    }
    // committed heads 2: the maximal elements of a random subset
    let k = rng.range(1, 4) as usize;
    let pick: Vec<usize> = (0..k).map(|_| rng.below(n as u64) as usize).collect();
    let maximal: Vec<usize> =
        pick.iter().copied().filter(|&a| !pick.iter().any(|&c| c != a && m.anc_self(a, c))).collect();
    let mut maximal_d = maximal.clone();
    maximal_d.sort();
    maximal_d.dedup();
    q.push(format!("heads {}", show_list(&maximal_d.iter().map(|&h| b.loc[h]).collect::<Vec<_>>())));
    for x in 0..n {
        q.push(format!("loc {}", addr(x)));
    }
    // addresses that are not in the graph
    for _ in 0..8 {
        let x = rng.below(n as u64) as usize;
        q.push(format!("loc {} {}", m.ids[x], m.mc[x] + 1));
        if m.mc[x] > 0 {
            q.push(format!("loc {} {}", m.ids[x], m.mc[x] - 1));
        }
        q.push(format!("loc {} {}", 1_000_000 + rng.below(1000), m.mc[x]));
        let s = rng.below(n as u64) as usize;
        q.push(format!("locfrom {} {} {}", show_loc(b.loc[s]), m.ids[x], m.mc[x] + 1));
        q.push(format!("locfrom {} {} {}", show_loc(b.loc[s]), 1_000_000 + rng.below(1000), m.mc[x]));
    }
    // every (address, start) pair, or a sample
    let mut pair = |x: usize, s: usize, q: &mut Vec<String>| {
        q.push(format!("locfrom {} {}", show_loc(b.loc[s]), addr(x)));
        q.push(format!("anc {} {}", show_loc(b.loc[x]), show_loc(b.loc[s])));
    };
    if n <= exhaustive_limit {
        for s in 0..n {
            for x in 0..n {
                pair(x, s, &mut q);
            }
        }
    } else {
        for _ in 0..samples {
            let s = rng.below(n as u64) as usize;
            // bias towards ancestors (the interesting half) and deep starts
            let x = if rng.chance(1, 2) {
                let cands: Vec<usize> = (0..n).filter(|&x| m.anc_self(x, s)).collect();
                *rng.pick(&cands)
            } else {
                rng.below(n as u64) as usize
            };
            pair(x, s, &mut q);
        }
        // every address from every frontier head
        for &h in &m.frontier() {
            for x in 0..n {
                pair(x, h, &mut q);
            }
        }
    }
    // search locations that hold no command
    for _ in 0..6 {
        let d = rng.pick(&b.segs);
        let s = rng.below(n as u64) as usize;
        q.push(format!("anc {}:{} {}", d.idx, d.first + d.len, show_loc(b.loc[s])));
        if d.first > 0 {
            q.push(format!("anc {}:{} {}", d.idx, d.first - 1, show_loc(b.loc[s])));
        }
    }
    q
}

pub fn plan_from_lines(lines: &[String]) -> Result<(Vec<PlanSeg>, Vec<String>), String> {
    // `seg` lines → plan (priors resolved to command ids through the earlier lines); the rest are queries
    let mut at: BTreeMap<(u64, u64), u64> = BTreeMap::new();
    let mut plan = vec![];
    let mut queries = vec![];
    for l in lines {
        let t: Vec<&str> = l.split(' ').collect();
        match t.as_slice() {
            ["new"] => {}
            ["seg", idx, first, prior, lca, ids, _skips] => {
                let idx: u64 = idx.parse().map_err(|_| "idx")?;
                let first: u64 = first.parse().map_err(|_| "first")?;
                let ids: Vec<u64> = ids.split(',').map(|x| x.parse().map_err(|_| "ids")).collect::<Result<_, _>>()?;
                let res = |s: &str| -> Result<u64, String> {
                    let l = parse_loc(s).ok_or("loc")?;
                    at.get(&(l.segment.get(), l.max_cut.get())).copied().ok_or(format!("no command at {s}"))
                };
                let p: Vec<&str> = prior.split(':').collect();
                let prior = match p.as_slice() {
                    ["n"] => PPrior::None,
                    ["s", a, b] => PPrior::Single(res(&format!("{a}:{b}"))?),
                    ["m", a, b, c, d] => PPrior::Merge(res(&format!("{a}:{b}"))?, res(&format!("{c}:{d}"))?),
                    _ => return Err("prior".into()),
                };
                let lca = if *lca == "-" { None } else { Some(res(lca)?) };
                for (j, id) in ids.iter().enumerate() {
                    at.insert((idx, first + j as u64), *id);
                }
                plan.push(PlanSeg { prior, lca, ids });
            }
            _ => queries.push(l.clone()),
        }
    }
    Ok((plan, queries))
}

pub fn run_case(rec: &mut Recorder, plan: &[PlanSeg], queries: Option<Vec<String>>, rng: &mut Rng, limits: (usize, usize)) {
    let mut b = match build(rec, plan) {
        Ok(b) => b,
        Err(e) => {
            rec.oracle_fail(format!("building the storage failed: {e}"));
            return;
        }
    };
    check_layout(rec, &b, plan);
    let queries = queries.unwrap_or_else(|| gen_queries(rng, &b, limits.0, limits.1));
    rec.count_n("commands", b.mirror.n() as u64);
    rec.count_n("segments", b.segs.len() as u64);
    rec.count_n("merge-segments", b.segs.iter().filter(|d| d.lca.is_some()).count() as u64);
    let mut q = Q { b: &mut b, buf: TraversalBuffer::new(), heads: vec![] };
    for l in &queries {
        q.exec(rec, l);
    }
}

fn main() {
    let args = Args::parse();
    vh::quiet_panics();
    let mut rec = Recorder::new(&args.out);
    let mut rng = Rng::new(args.seed);
    if let Some(p) = &args.replay {
        let lines = vh::read_replay_input(p);
        rec.begin_case();
        match plan_from_lines(&lines) {
            Ok((plan, queries)) if !plan.is_empty() => run_case(&mut rec, &plan, Some(queries), &mut rng, (0, 0)),
            Ok((_, queries)) => {
                // queries that need no storage (`bounds`)
                let mut b = Built {
                    provider: MemStorageProvider::default(),
                    graph: Default::default(),
                    mirror: Mirror::default(),
                    loc: vec![],
                    by_loc: BTreeMap::new(),
                    segs: vec![],
                };
                let mut q = Q { b: &mut b, buf: TraversalBuffer::new(), heads: vec![] };
                for l in queries.iter().filter(|l| l.starts_with("bounds ")) {
                    q.exec(&mut rec, l);
                }
            }
            Err(e) => rec.notes.push(format!("replay: cannot parse input: {e}")),
        }
        rec.finish(args.seed, &args.tier);
        return;
    }
    let big = args.thorough() || args.search;
    // case 0: skip_target_boundaries for small n, around powers of two, and huge n
    {
        rec.begin_case();
        let mut b = Built {
            provider: MemStorageProvider::default(),
            graph: Default::default(),
            mirror: Mirror::default(),
            loc: vec![],
            by_loc: BTreeMap::new(),
            segs: vec![],
        };
        let mut q = Q { b: &mut b, buf: TraversalBuffer::new(), heads: vec![] };
        let mut ns: Vec<u64> = (0..=130).collect();
        for k in 7..64 {
            ns.extend([(1u64 << k) - 1, 1u64 << k, (1u64 << k) + 1]);
        }
        ns.extend([u64::MAX, u64::MAX - 1, u64::MAX / 2 + 1]);
        for _ in 0..args.budget(200, 3000) {
            let bits = rng.range(1, 63);
            ns.push(rng.below(1u64 << bits));
        }
        for n in ns {
            q.exec(&mut rec, &format!("bounds {n}"));
            rec.count("query:bounds");
        }
    }
    let cases = args.budget(48, 260);
    let limits = if big { (120, 6000) } else { (90, 3000) };
    for c in 0..cases {
        let (name, plan) = gen_plan(&mut rng, big);
        rec.begin_case();
        rec.count(&format!("shape:{name}"));
        let fp = fnv(&format!("{plan:?}"));
        if plan.len() >= 3 {
            rec.nontrivial(fp);
        }
        if c < 3 {
            rec.sample(format!("{name}: {} segments, {} commands", plan.len(), plan.iter().map(|p| p.ids.len()).sum::<usize>()));
        }
        run_case(&mut rec, &plan, None, &mut rng, limits);
    }
    // malformed stream
    rec.begin_case();
    for l in ["seg 1 2", "loc x 1", "locfrom 1 2 3", "anc 1:2", "bounds", "bounds -3", "heads 1;2", "frob"] {
        rec.line(l, "bad-op");
        rec.count("malformed");
    }
    rec.finish(args.seed, &args.tier);
}
