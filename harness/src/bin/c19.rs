//! C19 — see harness/src/scen.rs (multi-replica scenarios; oracle set selected by name).
fn main() {
    vh::scen::main_for("C19");
}
