//! C17 — sync sessions are sound and terminate.
//!
//! Pairs of REAL replicas (graphkit) with arbitrary overlap; the responder side of a session is
//! driven through the public API (`SyncResponder::start_session` / `poll`, parsed by a real
//! `SyncRequester`) with the requester's real sample or with an arbitrary `have` set, to the end
//! of the session.  Oracles (S level, evaluated on what the real code produced):
//!   * every command sent is committed at the responder;
//!   * parents first: each command's parents are earlier in the stream or known to the
//!     requester (in `anc*(have)` / in the requester's graph);
//!   * every batch is added, in order, to a REAL replica holding exactly the requester's
//!     commands — `add_commands` must never fail — and the final commit succeeds;
//!   * response indexes are 0,1,2,…; the session ends with `SyncEnd { max_index = count }` after
//!     a bounded number of polls; every response carries 1..=COMMAND_RESPONSE_MAX commands;
//!   * a poll into a buffer that is too small fails without advancing the session: the stream of
//!     a session with such failed polls equals the stream of the undisturbed session.
//! The same polls are put to the Lean model (`Driver.Sync`) on the dumped segment layout.

use std::collections::{BTreeMap, BTreeSet};

use aranya_runtime::{Address, CmdId, MaxCut, COMMAND_RESPONSE_MAX};
use vh::{
    fnv,
    gk::{self, KCmd},
    sk::{self, IdMap, PollOut, RespSession, Shape},
    Args, Recorder, Rng,
};

const SAMPLE_MAX: usize = 100;

fn case_rng(seed: u64, idx: u64) -> Rng {
    Rng::new(seed ^ idx.wrapping_mul(0xA24B_AED4_963E_E407) ^ 0x17)
}

fn pick_shape(rng: &mut Rng, thorough: bool) -> Shape {
    let big = thorough && rng.chance(1, 4);
    match rng.below(10) {
        0..=3 => Shape::Random {
            nodes: if big { rng.range(150, 400) as usize } else { rng.range(8, 90) as usize },
            branch_pct: *rng.pick(&[5, 20, 35, 60]),
            merge_pct: *rng.pick(&[0, 10, 25]),
        },
        4..=5 => Shape::Comb {
            trunk: rng.range(0, 6) as usize,
            width: if big { rng.range(101, 330) as usize } else { rng.range(2, 40) as usize },
            len: if big { rng.range(1, 3) as usize } else { rng.range(1, 5) as usize },
        },
        6..=7 => Shape::Chain { len: if big { rng.range(250, 700) as usize } else { rng.range(5, 260) as usize } },
        _ => Shape::Ladder {
            len: if big { rng.range(100, 300) as usize } else { rng.range(8, 70) as usize },
            every: rng.range(2, 9) as usize,
            side: rng.range(1, 5) as usize,
        },
    }
}

fn shape_name(s: &Shape) -> &'static str {
    match s {
        Shape::Random { .. } => "random",
        Shape::Comb { .. } => "comb",
        Shape::Chain { .. } => "chain",
        Shape::Ladder { .. } => "ladder",
    }
}

fn out_line(o: &PollOut, ids: &mut IdMap) -> String {
    match o {
        PollOut::Resp { index, cmds } => {
            let v: Vec<CmdId> = cmds.iter().map(|c| c.id).collect();
            format!("resp {} {}", index, sk::ids_show(&v, ids))
        }
        PollOut::End { max_index } => format!("end {max_index}"),
        PollOut::EndSession => "endsession".into(),
        PollOut::TooSmall => "too-small".into(),
        PollOut::Err(e) => {
            let k = if e.starts_with("Storage") || e.starts_with("Bug") { "internal" } else { e.as_str() };
            format!("err {k}")
        }
    }
}

fn bucket(n: usize) -> &'static str {
    match n {
        0 => "0",
        1..=9 => "1-9",
        10..=99 => "10-99",
        100 => "100",
        101..=299 => "101-299",
        _ => "300+",
    }
}

/// Hand-built scenarios (kept in corpus/C17): independent of the random generator.
///   midseg  — one 131-command segment, nothing known: the first response stops inside the segment;
///             in the second session the first poll gets a buffer that is too small
///   syncend — a short chain; the poll that would answer `SyncEnd` first gets a 4-byte buffer
#[derive(Clone, Default)]
struct Scenario {
    shape: Option<Shape>,
    b_batch: Option<usize>,
    /// buffer sizes of the first polls of the disturbed session
    sizes: Vec<Option<usize>>,
}

fn scenario(name: &str) -> Option<Scenario> {
    match name {
        "midseg" => Some(Scenario { shape: Some(Shape::Chain { len: 130 }), b_batch: Some(400), sizes: vec![Some(64), None, Some(2000), None] }),
        "syncend" => Some(Scenario { shape: Some(Shape::Chain { len: 5 }), b_batch: Some(400), sizes: vec![None, Some(4), None] }),
        _ => None,
    }
}

fn run_case(rec: &mut Recorder, seed: u64, idx: u64, thorough: bool, scen: Option<&str>) {
    let mut rng = case_rng(seed, idx);
    rec.begin_case();
    let sc = match scen {
        Some(name) => {
            rec.line(format!("case c17 scenario={name}"), "ok");
            match scenario(name) {
                Some(s) => s,
                None => {
                    rec.oracle_fail(format!("unknown scenario {name}"));
                    return;
                }
            }
        }
        None => {
            rec.line(format!("case c17 seed={seed} idx={idx} thorough={}", thorough as u8), "ok");
            Scenario::default()
        }
    };
    let scripted = sc.shape.is_some();
    let shape = match &sc.shape {
        Some(s) => s.clone(),
        None => pick_shape(&mut rng, thorough),
    };
    rec.count(&format!("shape:{}", shape_name(&shape)));
    let dag = sk::build(&mut rng, &shape);
    let cmds = gk::realize(&dag, rng.next_u64());
    let n = cmds.len();
    let by_id: BTreeMap<CmdId, usize> = cmds.iter().enumerate().map(|(i, c)| (c.id, i)).collect();
    let mut ids = IdMap::default();
    for c in &cmds {
        ids.of(c.id);
    }

    // responder's graph B and requester's graph A: parents-closed subsets of the universe
    let all: BTreeSet<usize> = (0..n).collect();
    let bset = if scripted || rng.chance(2, 3) {
        all.clone()
    } else {
        let tips = rng.range(1, 8) as usize;
        sk::closed_subset(&mut rng, &dag, tips, n)
    };
    let aset: BTreeSet<usize> = match if scripted { 0 } else { rng.below(8) } {
        0 => BTreeSet::new(),
        1 => [0usize].into_iter().collect(),
        2 => bset.clone(),
        3 => all.clone(),
        _ => {
            let lim = (n as u64 * rng.range(10, 100) / 100).max(1) as usize;
            let tips = rng.range(1, 12) as usize;
            sk::closed_subset(&mut rng, &dag, tips, lim)
        }
    };
    let b_batch = sc.b_batch.unwrap_or(*rng.pick(&[1usize, 3, 10, 40, 150, 400]));
    let a_batch = *rng.pick(&[1usize, 4, 25, 200]);
    let mut rb = match sk::load(&mut rng, &cmds, &bset, b_batch) {
        Ok(r) => r,
        Err(e) => {
            rec.oracle_fail(format!("loading the responder replica failed: {e}"));
            return;
        }
    };
    let b_cmds: BTreeMap<CmdId, KCmd> = match rb.committed() {
        Ok(v) => v.into_iter().map(|c| (c.id, c)).collect(),
        Err(e) => {
            rec.oracle_fail(format!("responder committed(): {e}"));
            return;
        }
    };
    if b_cmds.len() != bset.len() {
        rec.oracle_fail(format!("responder holds {} commands, loaded {}", b_cmds.len(), bset.len()));
    }
    let dump = match sk::dump_store(&mut rb) {
        Ok(d) => d,
        Err(e) => {
            rec.oracle_fail(format!("dump_store: {e}"));
            return;
        }
    };
    for l in sk::store_lines(&dump, &mut ids) {
        rec.line(l, "ok");
    }
    rec.count(&format!("B.cmds:{}", bucket(b_cmds.len())));
    rec.count(&format!("B.segs:{}", bucket(dump.segs.len())));
    rec.count(&format!("B.heads:{}", bucket(dump.heads.len())));
    rec.count(&format!("B.maxseg:{}", bucket(dump.segs.iter().map(|s| s.cmds.len()).max().unwrap_or(0))));

    // the `have` sample
    let mode = if scripted { 9 } else { rng.below(10) };
    let mut have: Vec<Address> = vec![];
    // what the requester is known to hold (node indexes): base of the ingest check
    let mut base: BTreeSet<usize> = BTreeSet::new();
    let mode_name;
    if mode <= 4 && !aset.is_empty() {
        mode_name = "sample";
        let mut ra = match sk::load(&mut rng, &cmds, &aset, a_batch) {
            Ok(r) => r,
            Err(e) => {
                rec.oracle_fail(format!("loading the requester replica failed: {e}"));
                return;
            }
        };
        match sk::requester_sample(&mut ra, &aranya_runtime::PeerCache::new()) {
            Ok(s) => have = s,
            Err(e) => {
                rec.oracle_fail(format!("requester sample failed: {e}"));
                return;
            }
        }
        // oracle: the sample only names commands the requester holds
        for a in &have {
            match by_id.get(&a.id) {
                Some(i) if aset.contains(i) && cmds[*i].max_cut() == sk::mc(a.max_cut) => {}
                _ => rec.oracle_fail(format!("requester sampled {} which it does not hold", gk::short(a.id))),
            }
        }
        base = aset.clone();
    } else {
        match mode {
            5..=7 => {
                mode_name = "random";
                let k = rng.range(0, if thorough { 100 } else { 30 }) as usize;
                for _ in 0..k {
                    let c = &cmds[rng.below(n as u64) as usize];
                    let mut a = c.address();
                    match rng.below(12) {
                        0 => a.max_cut = MaxCut::new(sk::mc(a.max_cut) + 1), // wrong max cut: unknown
                        1 => a.id = gk::hash_id(&rng.bytes(8)),              // unknown id
                        _ => {}
                    }
                    have.push(a);
                }
            }
            8 => {
                mode_name = "frontier";
                // the exact frontier of A, possibly above the sample limit
                let mut has_child: BTreeSet<usize> = BTreeSet::new();
                for &i in &aset {
                    for &p in &dag.nodes[i].parents {
                        has_child.insert(p);
                    }
                }
                for &i in &aset {
                    if !has_child.contains(&i) {
                        have.push(cmds[i].address());
                    }
                }
                if have.len() > SAMPLE_MAX && rng.chance(3, 4) {
                    have.truncate(SAMPLE_MAX);
                }
            }
            _ => {
                mode_name = "empty";
            }
        }
        // what such a requester certainly holds: anc*(have ∩ B)
        let known: Vec<CmdId> = have
            .iter()
            .filter(|a| b_cmds.get(&a.id).is_some_and(|c| c.max_cut() == sk::mc(a.max_cut)))
            .map(|a| a.id)
            .collect();
        for id in sk::anc_self(&b_cmds, known) {
            base.insert(by_id[&id]);
        }
    }
    rec.count(&format!("have:{mode_name}"));
    rec.count(&format!("have.len:{}", bucket(have.len())));

    // ------------------------------------------------------------------ reference session
    let start_line = format!("start {}", sk::addrs_arg(&have, &mut ids));
    let mut sess = match RespSession::start(rb.graph, &have) {
        Ok(s) => {
            rec.line(start_line.clone(), "ok");
            s
        }
        Err(e) => {
            rec.line(start_line, format!("err {e}"));
            if !(e == "CommandOverflow" && have.len() > SAMPLE_MAX) {
                rec.oracle_fail(format!("start_session failed: {e} with {} heads", have.len()));
            }
            rec.count("start:overflow");
            return;
        }
    };
    let bound = b_cmds.len() + dump.segs.len() + 3;
    let mut reference: Vec<PollOut> = vec![];
    let mut polls = 0usize;
    let mut ended = false;
    while sess.ready() {
        polls += 1;
        if polls > bound {
            rec.oracle_fail(format!("session still ready after {polls} polls (bound {bound})"));
            break;
        }
        let out = sess.poll(&mut rb, None);
        rec.line("poll 1", out_line(&out, &mut ids));
        match &out {
            PollOut::End { .. } => ended = true,
            PollOut::TooSmall => rec.oracle_fail("full-size buffer reported too small"),
            PollOut::Err(e) => rec.oracle_fail(format!("poll failed: {e}")),
            PollOut::EndSession => rec.oracle_fail("session ended with EndSession, not SyncEnd"),
            PollOut::Resp { .. } => {}
        }
        reference.push(out);
    }
    if !ended {
        rec.oracle_fail("session did not end with SyncEnd");
    }

    // ------------------------------------------------------------------ oracles on the stream
    let mut known: BTreeSet<CmdId> = base.iter().map(|&i| cmds[i].id).collect();
    let mut fresh = gk::mem_replica(rb.graph);
    let mut fresh_ok = true;
    if !base.is_empty() {
        match sk::load(&mut rng, &cmds, &base, a_batch) {
            Ok(r) => fresh = r,
            Err(e) => {
                rec.oracle_fail(format!("loading the ingest replica failed: {e}"));
                fresh_ok = false;
            }
        }
    }
    let mut trx = fresh.transaction();
    let mut expect_index = 0u64;
    let mut stream: Vec<CmdId> = vec![];
    let mut dup = 0u64;
    let mut resent = 0u64;
    let mut midseg = 0u64;
    let mut last: Option<CmdId> = None;
    for out in &reference {
        match out {
            PollOut::Resp { index, cmds: batch } => {
                if *index != expect_index {
                    rec.oracle_fail(format!("response index {index}, expected {expect_index}"));
                }
                expect_index += 1;
                if batch.is_empty() || batch.len() > COMMAND_RESPONSE_MAX {
                    rec.oracle_fail(format!("response with {} commands", batch.len()));
                }
                // a response boundary inside a segment?
                if let (Some(l), Some(f)) = (last, batch.first()) {
                    if let (Some(a), Some(b)) = (dump.loc_of(l), dump.loc_of(f.id)) {
                        if a.0 == b.0 && a.1 + 1 == b.1 {
                            midseg += 1;
                        }
                    }
                }
                for c in batch {
                    match b_cmds.get(&c.id) {
                        None => rec.oracle_fail(format!("sent {} which is not committed at the responder", gk::short(c.id))),
                        Some(orig) => {
                            if orig.parent != c.parent || orig.prio != c.prio || orig.data != c.data || orig.policy != c.policy {
                                rec.oracle_fail(format!("sent {} with altered contents", gk::short(c.id)));
                            }
                        }
                    }
                    for p in sk::parents_of(c) {
                        if !known.contains(&p) {
                            rec.oracle_fail(format!(
                                "parents-first violated: {} arrives before its parent {} (response {index})",
                                gk::short(c.id),
                                gk::short(p)
                            ));
                        }
                    }
                    if stream.contains(&c.id) {
                        dup += 1;
                    } else if known.contains(&c.id) {
                        resent += 1;
                    }
                    known.insert(c.id);
                    stream.push(c.id);
                }
                last = batch.last().map(|c| c.id);
                if fresh_ok {
                    if let Err(e) = fresh.add(&mut trx, batch) {
                        rec.oracle_fail(format!("add_commands of response {index} failed: {}", gk::err_name(&e)));
                        fresh_ok = false;
                    }
                }
            }
            PollOut::End { max_index } => {
                if *max_index != expect_index {
                    rec.oracle_fail(format!("SyncEnd.max_index {max_index}, {expect_index} responses were sent"));
                }
            }
            _ => {}
        }
    }
    if fresh_ok {
        match fresh.commit(trx) {
            Ok(_) => {
                if fresh.exists() {
                    match fresh.committed() {
                        Ok(v) => {
                            let got: BTreeSet<CmdId> = v.iter().map(|c| c.id).collect();
                            if got != known {
                                rec.oracle_fail(format!("ingest replica holds {} commands, expected {}", got.len(), known.len()));
                            }
                        }
                        Err(e) => rec.oracle_fail(format!("ingest replica committed(): {e}")),
                    }
                } else if !known.is_empty() {
                    rec.oracle_fail("ingest replica has no graph after the session");
                }
            }
            Err(e) => rec.oracle_fail(format!("commit after the session failed: {}", gk::err_name(&e))),
        }
    }
    rec.count(&format!("responses:{}", bucket(expect_index as usize)));
    rec.count(&format!("stream:{}", bucket(stream.len())));
    rec.count_n("dup_in_stream", dup);
    rec.count_n("resent_known", resent);
    rec.count_n("midseg_resume", midseg);
    if expect_index >= 2 {
        rec.count("multi_response_sessions");
    }

    // ------------------------------------------------------------------ session with failed polls
    let start_line = format!("start {}", sk::addrs_arg(&have, &mut ids));
    if let Ok(mut s2) = RespSession::start(rb.graph, &have) {
        rec.line(start_line, "ok");
        let mut got: Vec<PollOut> = vec![];
        let mut polls = 0usize;
        let mut too_small = 0u64;
        while s2.ready() {
            polls += 1;
            if polls > 4 * bound {
                rec.oracle_fail("session with failed polls does not end");
                break;
            }
            let size = if polls <= sc.sizes.len() {
                sc.sizes[polls - 1]
            } else if rng.chance(2, 5) {
                Some(*rng.pick(&[0usize, 1, 8, 20, 25, 30, 40, 64, 100, 300, 1500, 6000, 20000]))
            } else {
                None
            };
            let out = s2.poll(&mut rb, size);
            match &out {
                PollOut::TooSmall => {
                    too_small += 1;
                    rec.line("poll 0", "too-small");
                }
                o => {
                    rec.line("poll 1", out_line(o, &mut ids));
                    got.push(out);
                }
            }
        }
        rec.count_n("too_small_polls", too_small);
        // no loss on retry: same responses, same end
        let show = |v: &Vec<PollOut>, ids: &mut IdMap| v.iter().map(|o| out_line(o, ids)).collect::<Vec<_>>();
        let (a, b) = (show(&reference, &mut ids), show(&got, &mut ids));
        if a != b {
            let k = a.iter().zip(b.iter()).position(|(x, y)| x != y).unwrap_or(a.len().min(b.len()));
            rec.oracle_fail(format!(
                "a poll into a too-small buffer changed the session: message #{k} is `{}`, undisturbed session has `{}` ({} vs {} messages)",
                b.get(k).map(|s| s.chars().take(80).collect::<String>()).unwrap_or_else(|| "<nothing>".into()),
                a.get(k).map(|s| s.chars().take(80).collect::<String>()).unwrap_or_else(|| "<nothing>".into()),
                b.len(),
                a.len()
            ));
        }
    }

    // a malformed request now and then
    if rng.chance(1, 10) {
        rec.line("poll 2", "bad-op");
        rec.line("start 1:x", "bad-op");
    }
    if expect_index >= 1 {
        rec.nontrivial(fnv(&format!("{seed}/{idx}/{}", stream.len())));
    }
    if rec.cases() <= 3 {
        rec.sample(format!(
            "{} B={}cmds/{}segs/{}heads have={}({}) -> {} responses, {} commands",
            shape_name(&shape),
            b_cmds.len(),
            dump.segs.len(),
            dump.heads.len(),
            mode_name,
            have.len(),
            expect_index,
            stream.len()
        ));
    }
}

fn main() {
    let args = Args::parse();
    vh::quiet_panics();
    let mut rec = Recorder::new(&args.out);
    if let Some(p) = &args.replay {
        // a replay names its case in the header line
        let lines = vh::read_replay_input(p);
        let mut ran = false;
        for l in &lines {
            if let Some(rest) = l.strip_prefix("case c17 ") {
                let mut seed = 1u64;
                let mut idx = 0u64;
                let mut th = false;
                let mut scen: Option<String> = None;
                for kv in rest.split(' ') {
                    match kv.split_once('=') {
                        Some(("seed", v)) => seed = v.parse().unwrap_or(1),
                        Some(("idx", v)) => idx = v.parse().unwrap_or(0),
                        Some(("thorough", v)) => th = v == "1",
                        Some(("scenario", v)) => scen = Some(v.to_string()),
                        _ => {}
                    }
                }
                run(&mut rec, seed, idx, th, scen.as_deref());
                ran = true;
            }
        }
        if !ran {
            rec.begin_case();
            rec.oracle_fail("replay file has no `case c17 …` header line");
        }
        rec.finish(args.seed, &args.tier);
        return;
    }
    let thorough = args.thorough() || args.search;
    let cases = args.budget(300, 2500);
    for name in ["midseg", "syncend"] {
        run(&mut rec, args.seed, 0, thorough, Some(name));
    }
    for idx in 0..cases as u64 {
        run(&mut rec, args.seed, idx, thorough, None);
    }
    rec.finish(args.seed, &args.tier);
}

fn run(rec: &mut Recorder, seed: u64, idx: u64, thorough: bool, scen: Option<&str>) {
    // a panic inside the real code is a finding of its own; record it and go on
    let r = std::panic::catch_unwind(std::panic::AssertUnwindSafe(|| run_case(rec, seed, idx, thorough, scen)));
    if let Err(e) = r {
        let msg = e
            .downcast_ref::<&str>()
            .map(|s| s.to_string())
            .or_else(|| e.downcast_ref::<String>().cloned())
            .unwrap_or_else(|| "panic".into());
        rec.panics.push(format!("case c17 seed={seed} idx={idx} thorough={} scenario={scen:?}: {msg}", thorough as u8));
    }
}
