//! C06 — commands rejected at origin leave no trace.
//! Histories: DAG × causal delivery permutation × batching × flush/commit points, with
//! rejecting (plain and write-then-fail) commands at every position; real `ClientState` vs the
//! Lean transaction model (`Driver/Trx.lean`) and vs the S-level oracle in `tk.rs`.

#[path = "../tk.rs"]
mod tk;

use vh::gk::DagParams;

fn main() {
    tk::harness_main("c06", 160, 2500, |rng, big| tk::Profile {
        dag: DagParams {
            max_nodes: if big && rng.chance(1, 8) { 40 } else { rng.range(3, 14) as usize },
            prios: rng.range(1, 3) as u32,
            finalize_pct: *rng.pick(&[0, 0, 6]),
            check_pct: *rng.pick(&[0, 15, 30]),
            merge_pct: *rng.pick(&[5, 15, 30]),
            branch_pct: *rng.pick(&[20, 40, 60]),
            allow_parallel_finalize: rng.chance(1, 10),
            ..DagParams::default()
        },
        reject_pct: *rng.pick(&[8, 15, 30]),
        write_then_fail_pct: 70,
        slots: 1,
        batch_max: *rng.pick(&[1, 3, 6]),
        flush_pct: *rng.pick(&[0, 10, 30]),
        commit_pct: *rng.pick(&[5, 15, 30]),
        dup_pct: *rng.pick(&[0, 10]),
        dup_near_pct: *rng.pick(&[0, 20]),
        noncausal_pct: *rng.pick(&[0, 5]),
        ..tk::Profile::default()
    });
}
