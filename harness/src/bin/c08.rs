//! C08 — transactions are isolated and history only grows.
//! Random interleavings of 2–4 concurrently open transactions and actions on one real client:
//! after every step the committed set (walked from `get_heads`) must contain the previous one;
//! a commit must fail with `ConcurrentTransaction` exactly when another head-set commit happened
//! after the transaction first read the heads, and must otherwise add exactly what it accepted;
//! the head-set stamp must take a fresh value on every commit.

#[path = "../tk.rs"]
mod tk;

use vh::gk::DagParams;

fn main() {
    tk::harness_main("c08", 160, 2500, |rng, big| tk::Profile {
        dag: DagParams {
            max_nodes: if big && rng.chance(1, 8) { 40 } else { rng.range(4, 16) as usize },
            prios: rng.range(1, 3) as u32,
            finalize_pct: *rng.pick(&[0, 0, 5]),
            check_pct: *rng.pick(&[0, 10]),
            merge_pct: *rng.pick(&[5, 15, 30]),
            branch_pct: *rng.pick(&[20, 40, 60]),
            ..DagParams::default()
        },
        reject_pct: *rng.pick(&[0, 8]),
        slots: rng.range(2, 4),
        batch_max: *rng.pick(&[1, 3, 5]),
        flush_pct: *rng.pick(&[0, 10]),
        commit_pct: *rng.pick(&[15, 30, 50]),
        dup_pct: *rng.pick(&[0, 10]),
        noncausal_pct: 0,
        action_pct: *rng.pick(&[0, 10, 25]),
        action_fail_pct: 35,
        ..tk::Profile::default()
    });
}
