//! C42 — AFC shared-memory channel tables stay consistent.
//!
//! Drives the REAL `WriteState` (1 writer thread) and `ReadState` (1–3 reader threads, own
//! mappings of one POSIX shm object) under the cooperative hook scheduler (`vh::shmworld`):
//! exhaustive small-depth schedules and seeded random schedules of small operation programs.
//! Every step is replayed through the Lean transition system `AranyaV.Shm` (`drv_c42`): the
//! real thread's yield-point label must be the model's, the raw shared memory after the step
//! (offsets, next id, generation and channels of both lists, lock words) and every result must
//! be what the model computes.
//!
//! S-level oracle (Rust, independent of the model), against a sequential table specification:
//!   * whenever no writer operation is in progress both lists hold the specification's channel
//!     sequence, with equal generations, and `read_off != write_off`;
//!   * a list a reader locks holds the table from before or after the writer operation in
//!     flight, and the reader's answer agrees with that list;
//!   * ids returned by `add` are strictly increasing (the k-th add gets id k-1);
//!   * `add` fails with OutOfSpace exactly when the table holds `cap` channels;
//!   * steps inside the futex mutex never change the table.
use vh::{
    coop::Dfs,
    shmworld::{self as sw, GenCfg, Mode, Pred, ROp, Spec, WOp},
    Args, Recorder, Rng,
};

const PROP: &str = "C42";

fn report(rec: &mut Recorder, o: &sw::Outcome) {
    for (p, f) in &o.fails {
        if *p == PROP || *p == "all" {
            rec.oracle_fail(f.clone());
        } else {
            rec.count(&format!("other-property-oracle:{p}"));
            rec.notes.push(format!("[{p}] {f}"));
        }
    }
}

fn main() {
    let args = Args::parse();
    let mut rec = Recorder::new(&args.out);
    if std::env::var("VH_LOUD").is_err() {
        vh::quiet_panics();
    }
    if let Some(p) = &args.replay {
        let lines = vh::read_replay_input(p);
        let mut i = 0;
        while i < lines.len() {
            if lines[i].starts_with("new ") {
                let mut j = i + 1;
                while j < lines.len() && !lines[j].starts_with("new ") {
                    j += 1;
                }
                if let Some(spec) = Spec::from_lines(&lines[i..j]) {
                    rec.begin_case();
                    let sched: Vec<String> = lines[i + 1..j].iter().filter(|l| *l != "end").cloned().collect();
                    let o = sw::run_case(&mut rec, &spec, &mut Mode::Replay { lines: sched, pos: 0 });
                    sw::account(&mut rec, "replay", &spec, &o);
                    report(&mut rec, &o);
                }
                i = j;
            } else {
                i += 1;
            }
        }
        rec.finish(args.seed, &args.tier);
        return;
    }
    let big = args.thorough() || args.search;

    // ---- exhaustive small-depth schedules of fixed small programs
    let seal = |k, f| ROp::Seal { kth: k, fail: f };
    let fixed: Vec<(Spec, usize, usize)> = vec![
        // add racing a reader that sets up and seals
        (
            Spec { cap: 2, keyseed: 7, warm: 1, wprog: vec![WOp::Add { dir: 1, par: 0 }, WOp::Add { dir: 2, par: 1 }],
                   rprogs: vec![vec![ROp::Setup { seal: true, x: 0 }, seal(0, 0), ROp::Ex(1)]] },
            9, 13,
        ),
        // remove racing a cached seal
        (
            Spec { cap: 2, keyseed: 8, warm: 2, wprog: vec![WOp::Add { dir: 1, par: 0 }, WOp::Add { dir: 1, par: 1 }, WOp::Rm(0)],
                   rprogs: vec![vec![ROp::Setup { seal: true, x: 1 }, seal(0, 0), seal(0, 0), ROp::Ex(0)]] },
            8, 12,
        ),
        // remove_if / remove_all with two readers
        (
            Spec { cap: 3, keyseed: 9, warm: 1, wprog: vec![WOp::Add { dir: 2, par: 0 }, WOp::RmIf(Pred::Par(0)), WOp::Add { dir: 1, par: 2 }, WOp::RmAll],
                   rprogs: vec![vec![ROp::Setup { seal: false, x: 0 }, ROp::Open { kth: 0, fail: false }], vec![ROp::Ex(0), ROp::Ex(1)]] },
            6, 8,
        ),
    ];
    for (spec, dq, dt) in &fixed {
        let depth = if big { *dt } else { *dq };
        let mut dfs = Dfs::new(depth);
        let mut runs = 0u64;
        loop {
            rec.begin_case();
            let o = sw::run_case(&mut rec, spec, &mut Mode::Dfs(&mut dfs));
            sw::account(&mut rec, "exhaustive", spec, &o);
            report(&mut rec, &o);
            if o.visible >= 10 {
                rec.nontrivial(o.sig);
            }
            runs += 1;
            if !dfs.advance() {
                break;
            }
        }
        rec.notes.push(format!(
            "exhaustive: cap {} / {} writer ops / {} readers, all schedules to decision depth {depth}: {runs} runs",
            spec.cap, spec.wprog.len(), spec.rprogs.len()
        ));
    }

    // ---- random schedules of random programs
    let mut rng = Rng::new(args.seed);
    let cases = args.budget(250, 8000);
    for c in 0..cases {
        let cfg = GenCfg { readers: rng.range(1, 3) as usize, wops: rng.range(2, 7) as usize, rops: rng.range(2, 7) as usize, focus: 0 };
        let spec = sw::gen_spec(&mut rng, &cfg);
        let sticky = *rng.pick(&[0u64, 40, 70, 85, 95]);
        let spur_pct = *rng.pick(&[0u64, 0, 0, 5]);
        rec.begin_case();
        let o = sw::run_case(&mut rec, &spec, &mut Mode::Random { rng: &mut rng, sticky, spur_pct });
        sw::account(&mut rec, "random", &spec, &o);
        report(&mut rec, &o);
        if o.visible >= 10 {
            rec.nontrivial(o.sig);
        }
        if c < 2 {
            rec.sample(rec.current_case_lines().join("; "));
        }
    }
    rec.finish(args.seed, &args.tier);
}
