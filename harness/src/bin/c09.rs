//! C09 — the head set is exactly the frontier.
//! Histories with duplicates, parents deep in history, merges of non-tips, explicit flushes and
//! several commits; after every step `get_heads` is compared with the frontier of the committed
//! graph (walked from the heads) and the transaction's tip bookkeeping (`verif_tips` hook) with
//! the frontier of committed ∪ accepted.  Real code vs Lean model (`Driver/Trx.lean`) vs oracle.

#[path = "../tk.rs"]
mod tk;

use vh::gk::DagParams;

fn main() {
    tk::harness_main("c09", 160, 2500, |rng, big| tk::Profile {
        dag: DagParams {
            max_nodes: if big && rng.chance(1, 8) { 45 } else { rng.range(3, 16) as usize },
            prios: rng.range(1, 3) as u32,
            finalize_pct: *rng.pick(&[0, 0, 5]),
            check_pct: *rng.pick(&[0, 10]),
            merge_pct: *rng.pick(&[10, 25, 40]),
            // many commands start from a non-tip: parents deep in history, merges of non-tips
            branch_pct: *rng.pick(&[30, 50, 70]),
            allow_parallel_finalize: rng.chance(1, 12),
            ..DagParams::default()
        },
        reject_pct: *rng.pick(&[0, 5, 12]),
        slots: *rng.pick(&[1, 1, 2]),
        batch_max: *rng.pick(&[1, 2, 4, 8]),
        flush_pct: *rng.pick(&[10, 30, 60]),
        commit_pct: *rng.pick(&[5, 15, 40]),
        dup_pct: *rng.pick(&[10, 25, 40]),
        dup_near_pct: *rng.pick(&[15, 30, 50]),
        noncausal_pct: *rng.pick(&[0, 5]),
        tips_pct: 70,
        action_pct: *rng.pick(&[0, 0, 8]),
        ..tk::Profile::default()
    });
}
