//! C03 — braided fact state equals the reference braid.
//! Real `ClientState` (audit policy) vs the Lean spec (`refBraid`/`factsOf`/`stateAt`) and vs
//! an independent Rust reference braid (S-level oracle).

use aranya_runtime::Prior;
use vh::{fnv, gk::*, gkb::*, Args, Recorder, Rng};

/// does the reference model accept `c` on top of the commands `sim` (parents known, rule accepts at
/// origin, merge parents braid without parallel finalizes)?
fn predict_accept(sim: &[KCmd], c: &KCmd) -> bool {
    let og = oracle::OGraph::new(sim);
    if og.cmds.contains_key(&c.id) {
        return false;
    }
    match c.parent {
        Prior::None => sim.is_empty(),
        Prior::Single(p) => match og.states.get(&p.id) {
            Some(Ok(st)) => {
                let mut st = st.clone();
                oracle::rule(c, &mut st)
            }
            _ => false,
        },
        Prior::Merge(l, r) => {
            og.cmds.contains_key(&l.id) && og.cmds.contains_key(&r.id) && !og.is_anc(l.id, r.id) && !og.is_anc(r.id, l.id) && og.braid(&[l.id, r.id]).is_ok()
        }
    }
}

fn run_case(rec: &mut Recorder, rng: &mut Rng, sched: &Schedule, multi_add: bool, label: &str) {
    let cmds = flatten(sched);
    let cmds = &cmds[..];
    let g = graph_id_of(&cmds[0]);
    let mut r = mem_replica(g);
    rec.line("reset", "ok");
    let mut accepted: Vec<KCmd> = vec![];
    let mut multi_commits = 0;
    let mut merges = 0;
    for batch in sched {
        let mut trx = r.transaction();
        let mut mark = accepted.len();
        // Deliver the batch in `add_commands` calls of 1..4 commands.  A call with several commands is
        // only made for commands the reference model accepts (so the outcome per command is known);
        // a command the reference rejects, a merge and the init command end their call.
        let mut i = 0;
        while i < batch.len() {
            let want = if multi_add && cmds.len() <= 100 { rng.range(1, 4) as usize } else { 1 };
            let mut chunk: Vec<KCmd> = vec![];
            if want > 1 {
                let mut sim = accepted.clone();
                while i < batch.len() && chunk.len() < want {
                    let c = &batch[i];
                    if !predict_accept(&sim, c) {
                        if chunk.is_empty() {
                            chunk.push(c.clone());
                            i += 1;
                        }
                        break;
                    }
                    chunk.push(c.clone());
                    sim.push(c.clone());
                    i += 1;
                    if !matches!(c.parent, Prior::Single(_)) {
                        break;
                    }
                }
            } else {
                chunk.push(batch[i].clone());
                i += 1;
            }
            if chunk.len() > 1 {
                rec.count("multi_command_add_calls");
                let _ = audit_take();
                let res = r.add(&mut trx, &chunk);
                let evs = audit_take();
                match res {
                    Ok(n) => {
                        if n != chunk.len() {
                            rec.oracle_fail(format!("{label}: add_commands of {} commands accepted by the reference added {n}", chunk.len()));
                        }
                        for c in &chunk {
                            rec.line(cmd_line(c), "ok");
                            accepted.push(c.clone());
                        }
                        if let Some(c) = chunk.last() {
                            if let Prior::Merge(l, rr) = c.parent {
                                merges += 1;
                                let order = braid_calls(&evs);
                                rec.line(format!("braidorder {}", ids_arg(&[l.id, rr.id])), show_ids(&order));
                                let og = oracle::OGraph::new(&accepted);
                                match og.braid(&[l.id, rr.id]) {
                                    Ok((_s, o)) => {
                                        if o != order {
                                            rec.oracle_fail(format!("{label}: merge {} braid order {} but reference braid {}", short(c.id), show_ids(&order), show_ids(&o)));
                                        }
                                    }
                                    Err(e) => rec.oracle_fail(format!("{label}: merge accepted but reference says {e}")),
                                }
                            }
                        }
                    }
                    Err(e) => {
                        rec.oracle_fail(format!(
                            "{label}: add_commands([{}]) failed with {} although the reference accepts every command of the call",
                            chunk.iter().map(|c| short(c.id)).collect::<Vec<_>>().join(","),
                            err_name(&e)
                        ));
                        // what was added is unknown: stop this case
                        return;
                    }
                }
                continue;
            }
            let c = &chunk[0];
            let _ = audit_take();
            let res = r.add(&mut trx, std::slice::from_ref(c));
            let evs = audit_take();
            match &res {
                Ok(_) => {
                    rec.line(cmd_line(c), "ok");
                    accepted.push(c.clone());
                    if matches!(c.parent, Prior::None) {
                        // the init command creates the storage at once, independent of the commit
                        mark = accepted.len();
                    }
                    if let Prior::Merge(l, rr) = c.parent {
                        merges += 1;
                        let order = braid_calls(&evs);
                        rec.line(format!("braidorder {}", ids_arg(&[l.id, rr.id])), show_ids(&order));
                        let og = oracle::OGraph::new(&accepted);
                        match og.braid(&[l.id, rr.id]) {
                            Ok((_s, o)) => {
                                if o != order {
                                    rec.oracle_fail(format!(
                                        "{label}: merge {} braid order {} but reference braid {}",
                                        short(c.id),
                                        show_ids(&order),
                                        show_ids(&o)
                                    ));
                                }
                            }
                            Err(e) => rec.oracle_fail(format!("{label}: merge accepted but reference says {e}")),
                        }
                    }
                }
                Err(e) => {
                    rec.count(&format!("add_err:{}", err_name(e)));
                    let og = oracle::OGraph::new(&accepted);
                    if let Prior::Merge(l, rr) = c.parent {
                        if og.cmds.contains_key(&l.id) && og.cmds.contains_key(&rr.id) {
                            let want = og.braid(&[l.id, rr.id]);
                            if !(matches!(e, aranya_runtime::ClientError::ParallelFinalize) && want.is_err()) {
                                rec.oracle_fail(format!("{label}: merge {} failed with {} but reference braid is {:?}", short(c.id), err_name(e), want.map(|x| show_ids(&x.1))));
                            }
                        }
                    }
                }
            }
        }
        let _ = audit_take();
        let cres = r.commit(trx);
        let evs = audit_take();
        let heads = r.heads();
        match cres {
            Ok(changed) => {
                let og = oracle::OGraph::new(&accepted);
                let real_facts = r.facts().map(|f| show_facts(&f)).unwrap_or_else(|e| format!("err {e}"));
                rec.line(format!("facts {}", ids_arg(&heads)), real_facts.clone());
                if changed && heads.len() >= 2 {
                    multi_commits += 1;
                    let order = braid_calls(&evs);
                    rec.line(format!("braidorder {}", ids_arg(&heads)), show_ids(&order));
                    match og.braid(&heads) {
                        Ok((_s, o)) => {
                            if o != order {
                                rec.oracle_fail(format!("{label}: commit braid order {} but reference {}", show_ids(&order), show_ids(&o)));
                            }
                        }
                        Err(e) => rec.oracle_fail(format!("{label}: commit succeeded but reference braid says {e}")),
                    }
                }
                match og.facts_of(&heads) {
                    Ok(f) => {
                        if oracle::show(&f) != real_facts {
                            rec.oracle_fail(format!("{label}: fact cache {} but reference {}", real_facts, oracle::show(&f)));
                        }
                    }
                    Err(e) => rec.oracle_fail(format!("{label}: commit ok but reference facts {e}")),
                }
            }
            Err(e) => {
                rec.count(&format!("commit_err:{}", err_name(&e)));
                // nothing of this transaction was committed
                accepted.truncate(mark);
                rec.line(format!("truncate {mark}"), "ok");
            }
        }
    }
    // stored state after every committed merge command
    let committed = r.committed().unwrap_or_default();
    let og = oracle::OGraph::new(&accepted);
    for c in &committed {
        let bigg = committed.len() > 100;
        // every committed command (mid-segment fact perspectives included); sampled only for the
        // spill-sized graphs (the Lean driver recomputes all states per request)
        let pick = if !bigg { true } else if matches!(c.parent, Prior::Merge(..)) { rng.chance(1, 16) } else { rng.chance(1, 64) };
        if pick {
            let real = r.facts_at(c.address()).map(|f| show_facts(&f)).unwrap_or_else(|e| format!("err {e}"));
            rec.line(format!("state {}", id_hex(c.id)), real.clone());
            if let Some(Ok(f)) = og.states.get(&c.id) {
                if oracle::show(f) != real {
                    rec.oracle_fail(format!("{label}: stored state at {} is {} but reference {}", short(c.id), real, oracle::show(f)));
                }
            }
        }
    }
    rec.count_n("multi_head_commits", multi_commits);
    rec.count_n("merge_cmds", merges);
    rec.count_n("cmds", cmds.len() as u64);
    if multi_commits + merges > 0 {
        rec.nontrivial(fnv(&cmds.iter().map(cmd_line).collect::<Vec<_>>().join("\n")));
    }
}

fn guarded(rec: &mut Recorder, rng: &mut Rng, sched: &Schedule, multi_add: bool, label: &str, case: usize) {
    let mut crng = rng.fork();
    match vh::catch(std::panic::AssertUnwindSafe(|| run_case(rec, &mut crng, sched, multi_add, label))) {
        Ok(()) => {}
        Err(p) => {
            // keep the request lines of the case: the panic is replayable
            rec.oracle_fail(format!("case {case}: panic in the real code: {p}"));
            rec.panics.push(format!("case {case}: {p}"));
        }
    }
}

fn main() {
    let args = Args::parse();
    vh::quiet_panics();
    let mut rec = Recorder::new(&args.out);
    let mut rng = Rng::new(args.seed);

    if let Some(p) = &args.replay {
        // replay: the recorded delivery schedule, then other batchings of the same commands
        let lines = vh::read_replay_input(p);
        for (k, sched) in parse_schedules(&lines).iter().enumerate() {
            let cmds = flatten(sched);
            let n = cmds.len() as u64;
            let mut scheds = vec![sched.clone()];
            for (per_cmd, mb, fixed) in [(true, 1, true), (false, 6, false), (false, n, true)] {
                scheds.push(make_schedule(&mut rng, &cmds, per_cmd, mb, fixed));
            }
            for sc in &scheds {
                rec.begin_case();
                for multi in [false, true] {
                    guarded(&mut rec, &mut rng, sc, multi, &format!("replay{k}"), k);
                    if multi == false {
                        rec.begin_case();
                    }
                }
            }
        }
        rec.finish(args.seed, &args.tier);
        return;
    }

    let cases = args.budget(150, 3000);
    for case in 0..cases {
        let big = (args.thorough() || args.search) && rng.chance(1, 10);
        let p = DagParams {
            max_nodes: if big { 60 } else { rng.range(3, 16) as usize },
            prios: rng.range(1, 3) as u32,
            finalize_pct: *rng.pick(&[0, 5, 15]),
            check_pct: *rng.pick(&[0, 0, 20]),
            allow_parallel_finalize: rng.chance(1, 8),
            merge_pct: *rng.pick(&[10, 25, 40]),
            branch_pct: *rng.pick(&[20, 40, 60]),
            ..DagParams::default()
        };
        let d = gen_dag(&mut rng, &p);
        let cmds = realize(&d, args.seed.wrapping_mul(1_000_003).wrapping_add(case as u64));
        rec.begin_case();
        // (F1 is repaired: rejected commands no longer poison a transaction, so bodies with
        // state-dependent checks are delivered in batches too)
        let per_cmd = rng.chance(1, 4);
        rec.count(if per_cmd { "mode:per-command-trx" } else { "mode:batched-trx" });
        if rec.cases() <= 2 {
            rec.sample(cmds.iter().map(cmd_line).collect::<Vec<_>>().join(" | "));
        }
        // the same DAG under different batchings: segment boundaries / skip lists differ
        let mb = *rng.pick(&[6, 6, 3, 20]);
        let sched = make_schedule(&mut rng, &cmds, per_cmd, mb, false);
        // several commands per add_commands call in most batched cases
        let multi_add = !per_cmd && rng.chance(3, 4);
        rec.count(if multi_add { "add:multi-command-calls" } else { "add:one-command-calls" });
        guarded(&mut rec, &mut rng, &sched, multi_add, "c03", case);
        if !per_cmd && rng.chance(1, 4) {
            rec.begin_case();
            rec.count("mode:rebatched-same-dag");
            let sched2 = make_schedule(&mut rng, &cmds, false, 12, false);
            guarded(&mut rec, &mut rng, &sched2, true, "c03", case);
        }
    }
    // one spill-sized comb in every tier: ~300 heads whose fork points all stay pending in the
    // convergence map at once (> 256 = one block), so spilled blocks must be found again
    {
        let d = comb_dag(&mut rng, 300, 2, false, 7);
        let cmds = realize(&d, args.seed.wrapping_mul(1_000_003).wrapping_add(77));
        rec.begin_case();
        rec.count("shape:comb-300-heads");
        let sched = make_schedule(&mut rng, &cmds, false, (cmds.len() as u64 / 3).max(8), true);
        guarded(&mut rec, &mut rng, &sched, false, "c03-comb", 100_001);
    }
    // a few spill-sized graphs (sparse log fact; stored state checked at the merges that are sampled)
    if args.thorough() || args.search {
        for (name, d) in [
            ("ladder-1x120", ladders_dag(&mut rng, 1, 120, 2, 3, 10, 5)),
            ("chains-270+280", chains_dag(&mut rng, 2, &[270, 280], 5)),
        ] {
            let cmds = realize(&d, args.seed.wrapping_mul(1_000_003).wrapping_add(name.len() as u64));
            rec.begin_case();
            rec.count(&format!("shape:{name}"));
            let sched = make_schedule(&mut rng, &cmds, false, (cmds.len() as u64 / 5).max(8), false);
            guarded(&mut rec, &mut rng, &sched, false, "c03-big", 100_000);
        }
    }
    rec.finish(args.seed, &args.tier);
}
