//! C03 — braided fact state equals the reference braid.
//! Real `ClientState` (audit policy) vs the Lean spec (`refBraid`/`factsOf`/`stateAt`) and vs
//! an independent Rust reference braid (S-level oracle).

use aranya_runtime::Prior;
use vh::{fnv, gk::*, gkb::*, Args, Recorder, Rng};

fn run_case(rec: &mut Recorder, rng: &mut Rng, sched: &Schedule, label: &str) {
    let cmds = flatten(sched);
    let cmds = &cmds[..];
    let g = graph_id_of(&cmds[0]);
    let mut r = mem_replica(g);
    rec.line("reset", "ok");
    let mut accepted: Vec<KCmd> = vec![];
    let mut multi_commits = 0;
    let mut merges = 0;
    for batch in sched {
        let mut trx = r.transaction();
        let mut mark = accepted.len();
        for c in batch {
            let _ = audit_take();
            let res = r.add(&mut trx, std::slice::from_ref(c));
            let evs = audit_take();
            match &res {
                Ok(_) => {
                    rec.line(cmd_line(c), "ok");
                    accepted.push(c.clone());
                    if matches!(c.parent, Prior::None) {
                        // the init command creates the storage at once, independent of the commit
                        mark = accepted.len();
                    }
                    if let Prior::Merge(l, rr) = c.parent {
                        merges += 1;
                        let order = braid_calls(&evs);
                        rec.line(format!("braidorder {}", ids_arg(&[l.id, rr.id])), show_ids(&order));
                        let og = oracle::OGraph::new(&accepted);
                        match og.braid(&[l.id, rr.id]) {
                            Ok((_s, o)) => {
                                if o != order {
                                    rec.oracle_fail(format!(
                                        "{label}: merge {} braid order {} but reference braid {}",
                                        short(c.id),
                                        show_ids(&order),
                                        show_ids(&o)
                                    ));
                                }
                            }
                            Err(e) => rec.oracle_fail(format!("{label}: merge accepted but reference says {e}")),
                        }
                    }
                }
                Err(e) => {
                    rec.count(&format!("add_err:{}", err_name(e)));
                    let og = oracle::OGraph::new(&accepted);
                    if let Prior::Merge(l, rr) = c.parent {
                        if og.cmds.contains_key(&l.id) && og.cmds.contains_key(&rr.id) {
                            let want = og.braid(&[l.id, rr.id]);
                            if !(matches!(e, aranya_runtime::ClientError::ParallelFinalize) && want.is_err()) {
                                rec.oracle_fail(format!("{label}: merge {} failed with {} but reference braid is {:?}", short(c.id), err_name(e), want.map(|x| show_ids(&x.1))));
                            }
                        }
                    }
                }
            }
        }
        let _ = audit_take();
        let cres = r.commit(trx);
        let evs = audit_take();
        let heads = r.heads();
        match cres {
            Ok(changed) => {
                let og = oracle::OGraph::new(&accepted);
                let real_facts = r.facts().map(|f| show_facts(&f)).unwrap_or_else(|e| format!("err {e}"));
                rec.line(format!("facts {}", ids_arg(&heads)), real_facts.clone());
                if changed && heads.len() >= 2 {
                    multi_commits += 1;
                    let order = braid_calls(&evs);
                    rec.line(format!("braidorder {}", ids_arg(&heads)), show_ids(&order));
                    match og.braid(&heads) {
                        Ok((_s, o)) => {
                            if o != order {
                                rec.oracle_fail(format!("{label}: commit braid order {} but reference {}", show_ids(&order), show_ids(&o)));
                            }
                        }
                        Err(e) => rec.oracle_fail(format!("{label}: commit succeeded but reference braid says {e}")),
                    }
                }
                match og.facts_of(&heads) {
                    Ok(f) => {
                        if oracle::show(&f) != real_facts {
                            rec.oracle_fail(format!("{label}: fact cache {} but reference {}", real_facts, oracle::show(&f)));
                        }
                    }
                    Err(e) => rec.oracle_fail(format!("{label}: commit ok but reference facts {e}")),
                }
            }
            Err(e) => {
                rec.count(&format!("commit_err:{}", err_name(&e)));
                // nothing of this transaction was committed
                accepted.truncate(mark);
                rec.line(format!("truncate {mark}"), "ok");
            }
        }
    }
    // stored state after every committed merge command
    let committed = r.committed().unwrap_or_default();
    let og = oracle::OGraph::new(&accepted);
    for c in &committed {
        let bigg = committed.len() > 100;
        let pick = if matches!(c.parent, Prior::Merge(..)) { !bigg || rng.chance(1, 16) } else { rng.chance(1, if bigg { 64 } else { 4 }) };
        if pick {
            let real = r.facts_at(c.address()).map(|f| show_facts(&f)).unwrap_or_else(|e| format!("err {e}"));
            rec.line(format!("state {}", id_hex(c.id)), real.clone());
            if let Some(Ok(f)) = og.states.get(&c.id) {
                if oracle::show(f) != real {
                    rec.oracle_fail(format!("{label}: stored state at {} is {} but reference {}", short(c.id), real, oracle::show(f)));
                }
            }
        }
    }
    rec.count_n("multi_head_commits", multi_commits);
    rec.count_n("merge_cmds", merges);
    rec.count_n("cmds", cmds.len() as u64);
    if multi_commits + merges > 0 {
        rec.nontrivial(fnv(&cmds.iter().map(cmd_line).collect::<Vec<_>>().join("\n")));
    }
}

fn guarded(rec: &mut Recorder, rng: &mut Rng, sched: &Schedule, label: &str, case: usize) {
    let mut crng = rng.fork();
    match vh::catch(std::panic::AssertUnwindSafe(|| run_case(rec, &mut crng, sched, label))) {
        Ok(()) => {}
        Err(p) => rec.panics.push(format!("case {case}: {p}")),
    }
}

fn main() {
    let args = Args::parse();
    vh::quiet_panics();
    let mut rec = Recorder::new(&args.out);
    let mut rng = Rng::new(args.seed);

    if let Some(p) = &args.replay {
        // replay: the recorded delivery schedule, then other batchings of the same commands
        let lines = vh::read_replay_input(p);
        for (k, sched) in parse_schedules(&lines).iter().enumerate() {
            let cmds = flatten(sched);
            let n = cmds.len() as u64;
            let mut scheds = vec![sched.clone()];
            for (per_cmd, mb, fixed) in [(true, 1, true), (false, 6, false), (false, n, true)] {
                scheds.push(make_schedule(&mut rng, &cmds, per_cmd, mb, fixed));
            }
            for sc in &scheds {
                rec.begin_case();
                guarded(&mut rec, &mut rng, sc, &format!("replay{k}"), k);
            }
        }
        rec.finish(args.seed, &args.tier);
        return;
    }

    let cases = args.budget(150, 3000);
    for case in 0..cases {
        let big = (args.thorough() || args.search) && rng.chance(1, 10);
        let p = DagParams {
            max_nodes: if big { 60 } else { rng.range(3, 16) as usize },
            prios: rng.range(1, 3) as u32,
            finalize_pct: *rng.pick(&[0, 5, 15]),
            check_pct: *rng.pick(&[0, 0, 20]),
            allow_parallel_finalize: rng.chance(1, 8),
            merge_pct: *rng.pick(&[10, 25, 40]),
            branch_pct: *rng.pick(&[20, 40, 60]),
            ..DagParams::default()
        };
        let d = gen_dag(&mut rng, &p);
        let cmds = realize(&d, args.seed.wrapping_mul(1_000_003).wrapping_add(case as u64));
        rec.begin_case();
        // (F1 is repaired: rejected commands no longer poison a transaction, so bodies with
        // state-dependent checks are delivered in batches too)
        let per_cmd = rng.chance(1, 3);
        rec.count(if per_cmd { "mode:per-command-trx" } else { "mode:batched-trx" });
        if rec.cases() <= 2 {
            rec.sample(cmds.iter().map(cmd_line).collect::<Vec<_>>().join(" | "));
        }
        // the same DAG under different batchings: segment boundaries / skip lists differ
        let mb = *rng.pick(&[6, 6, 3, 20]);
        let sched = make_schedule(&mut rng, &cmds, per_cmd, mb, false);
        guarded(&mut rec, &mut rng, &sched, "c03", case);
        if !per_cmd && rng.chance(1, 4) {
            rec.begin_case();
            rec.count("mode:rebatched-same-dag");
            let sched2 = make_schedule(&mut rng, &cmds, false, 12, false);
            guarded(&mut rec, &mut rng, &sched2, "c03", case);
        }
    }
    // a few spill-sized graphs (sparse log fact; stored state checked at the merges that are sampled)
    if args.thorough() || args.search {
        for (name, d) in [
            ("ladder-1x120", ladders_dag(&mut rng, 1, 120, 2, 3, 10, 5)),
            ("chains-270+280", chains_dag(&mut rng, 2, &[270, 280], 5)),
        ] {
            let cmds = realize(&d, args.seed.wrapping_mul(1_000_003).wrapping_add(name.len() as u64));
            rec.begin_case();
            rec.count(&format!("shape:{name}"));
            let sched = make_schedule(&mut rng, &cmds, false, (cmds.len() as u64 / 5).max(8), false);
            guarded(&mut rec, &mut rng, &sched, "c03-big", 100_000);
        }
    }
    rec.finish(args.seed, &args.tier);
}
