//! C21 — TraversalQueue: real `aranya_runtime::storage::TraversalQueue` vs the Lean model,
//! plus the S-level oracle (multiset reference) evaluated on the real outputs.
//! After every operation a `dbg` request compares the EXACT internal state (entries in index
//! order + partition, from the derived `Debug`) with the index-level Lean model.

use aranya_runtime::storage::{Location, MaxCut, SegmentIndex, TraversalQueue};
use vh::{fnv, Args, Recorder, Rng};

fn loc(seg: u64, mc: u64) -> Location {
    Location::new(SegmentIndex::new(seg), MaxCut::new(mc))
}
fn seg_of(l: Location) -> u64 {
    // SegmentIndex / MaxCut display as plain integers
    l.segment.to_string().parse().unwrap()
}
fn mc_of(l: Location) -> u64 {
    l.max_cut.to_string().parse().unwrap()
}
fn show(l: Location) -> String {
    format!("{}:{}", seg_of(l), mc_of(l))
}
fn show_set(mut v: Vec<Location>) -> String {
    v.sort();
    if v.is_empty() {
        "[]".into()
    } else {
        format!("[{}]", v.iter().map(|l| show(*l)).collect::<Vec<_>>().join(","))
    }
}

/// Exact internal state of the real queue, read off its derived `Debug`
/// (`TraversalQueue { entries: [Location { max_cut: .., segment: .. }, ..], partition: N }`):
/// `(entries as (mc, seg) in index order, partition)`.  Numbers that are part of an identifier
/// (`u64_le`, ..) are skipped; an unexpected layout yields `Err` (reported as a mismatch).
fn dbg_state(q: &TraversalQueue) -> Result<(Vec<(u64, u64)>, usize), String> {
    let s = format!("{:?}", q);
    let (pe, pp) = match (s.find("entries"), s.find("partition")) {
        (Some(a), Some(b)) if a < b => (a, b),
        _ => return Err(format!("dbg-parse-error {s}")),
    };
    let nums = |t: &str| -> Vec<u64> {
        let b = t.as_bytes();
        let mut v = vec![];
        let mut i = 0;
        while i < b.len() {
            if b[i].is_ascii_digit() && (i == 0 || !(b[i - 1].is_ascii_alphanumeric() || b[i - 1] == b'_')) {
                let st = i;
                while i < b.len() && b[i].is_ascii_digit() {
                    i += 1;
                }
                v.push(t[st..i].parse::<u64>().unwrap_or(u64::MAX));
            } else {
                i += 1;
            }
        }
        v
    };
    let en = nums(&s[pe..pp]);
    let pn = nums(&s[pp..]);
    let ent = &s[pe..pp];
    let order_ok = match (ent.find("max_cut"), ent.find("segment")) {
        (Some(a), Some(b)) => a < b,
        (None, None) => en.is_empty(),
        _ => false,
    };
    if pn.len() != 1 || en.len() % 2 != 0 || !order_ok {
        return Err(format!("dbg-parse-error {s}"));
    }
    Ok((en.chunks(2).map(|c| (c[0], c[1])).collect(), pn[0] as usize))
}

/// `dbg` request: answer `p=<partition> [seg:mc,...]` (index order) + S-level oracle on the
/// internal layout: partition within bounds, entries below it = the reference's uncovered
/// multiset, entries at/above it = the covered multiset.
fn do_dbg(rec: &mut Recorder, q: &TraversalQueue, r: &Ref) {
    match dbg_state(q) {
        Err(e) => {
            rec.line("dbg", e.clone());
            rec.oracle_fail(e);
        }
        Ok((ent, p)) => {
            let body = ent.iter().map(|(m, s)| format!("{s}:{m}")).collect::<Vec<_>>().join(",");
            rec.line("dbg", format!("p={p} [{body}]"));
            if p > ent.len() {
                rec.oracle_fail(format!("partition {p} beyond len {}", ent.len()));
                return;
            }
            let mut unc: Vec<(u64, u64)> = ent[..p].to_vec();
            let mut cov: Vec<(u64, u64)> = ent[p..].to_vec();
            let mut wu: Vec<(u64, u64)> = r.e.iter().filter(|x| !x.2).map(|x| (x.0, x.1)).collect();
            let mut wc: Vec<(u64, u64)> = r.e.iter().filter(|x| x.2).map(|x| (x.0, x.1)).collect();
            unc.sort();
            cov.sort();
            wu.sort();
            wc.sort();
            if unc != wu || cov != wc {
                rec.oracle_fail(format!(
                    "internal layout: uncovered {:?} covered {:?}, reference uncovered {:?} covered {:?}",
                    unc, cov, wu, wc
                ));
            }
            if q.all_covered() != (p == 0) || q.is_empty() != ent.is_empty() {
                rec.oracle_fail("all_covered/is_empty disagree with the internal layout");
            }
        }
    }
}

/// S-level reference: multiset of (mc, seg, covered).
#[derive(Default, Clone)]
struct Ref {
    e: Vec<(u64, u64, bool)>,
}

impl Ref {
    fn max(&self) -> Option<(u64, u64)> {
        self.e.iter().map(|x| (x.0, x.1)).max()
    }
}

fn run_case(rec: &mut Recorder, ops: &[String]) {
    let mut q = TraversalQueue::new();
    let mut r = Ref::default();
    rec.line("new", "ok");
    let mut mixed_dup = false;
    for op in ops {
        let t: Vec<&str> = op.split(' ').collect();
        let n = |i: usize| t[i].parse::<u64>().unwrap();
        match t[0] {
            "push" | "pushc" => {
                let (s, m) = (n(1), n(2));
                let c = t[0] == "pushc" && n(3) == 1;
                let res = if t[0] == "push" { q.push(loc(s, m)) } else { q.push_covered(loc(s, m), c) };
                rec.line(op.clone(), if res.is_ok() { "ok" } else { "err" });
                // reference (valid when at most one entry per segment)
                if let Some(x) = r.e.iter_mut().find(|x| x.1 == s) {
                    if m > x.0 {
                        x.0 = m;
                        x.2 = c;
                    } else if m == x.0 {
                        x.2 = x.2 || c;
                    }
                } else {
                    r.e.push((m, s, c));
                }
            }
            "pushdup" => {
                let (s, m) = (n(1), n(2));
                let res = q.push_duplicate(loc(s, m));
                rec.line(op.clone(), if res.is_ok() { "ok" } else { "err" });
                r.e.push((m, s, false));
                mixed_dup = true;
            }
            "pop" | "popc" | "peek" => {
                let want = r.max();
                let (got, flag) = match t[0] {
                    "pop" => (q.pop().ok().flatten(), None),
                    "popc" => match q.pop_covered().ok().flatten() {
                        Some((l, c)) => (Some(l), Some(c)),
                        None => (None, None),
                    },
                    _ => (q.peek().copied(), None),
                };
                let ans = match (got, flag) {
                    (None, _) => "none".to_string(),
                    (Some(l), None) => show(l),
                    (Some(l), Some(c)) => format!("{} {}", show(l), c as u8),
                };
                rec.line(op.clone(), ans);
                // oracle: a maximum under (max_cut, segment)
                let got_key = got.map(|l| (mc_of(l), seg_of(l)));
                if got_key != want {
                    rec.oracle_fail(format!("{}: returned {:?}, maximum is {:?}", t[0], got_key, want));
                }
                if t[0] != "peek" {
                    if let Some((m, s)) = want {
                        // remove one copy; covered copy first (documented flag when unique)
                        let idx = r
                            .e
                            .iter()
                            .position(|x| (x.0, x.1) == (m, s) && x.2)
                            .or_else(|| r.e.iter().position(|x| (x.0, x.1) == (m, s)))
                            .unwrap();
                        let removed = r.e.remove(idx);
                        if let Some(c) = flag {
                            if c != removed.2 {
                                rec.oracle_fail(format!("popc: flag {c} but entry was covered={}", removed.2));
                            }
                        }
                    }
                }
            }
            "popdups" => {
                let want = r.max();
                let got = q.pop_duplicates().ok().flatten();
                rec.line(
                    op.clone(),
                    match got {
                        None => "none".to_string(),
                        Some((l, c)) => format!("{} {}", show(l), c),
                    },
                );
                let cnt = want.map(|w| r.e.iter().filter(|x| (x.0, x.1) == w).count());
                let gk = got.map(|(l, c)| ((mc_of(l), seg_of(l)), c));
                if gk != want.zip(cnt) {
                    rec.oracle_fail(format!("popdups: got {:?}, want {:?} x{:?}", gk, want, cnt));
                }
                if let Some(w) = want {
                    r.e.retain(|x| (x.0, x.1) != w);
                }
            }
            "allcov" => {
                let got = q.all_covered();
                rec.line(op.clone(), (got as u8).to_string());
                let want = r.e.iter().all(|x| x.2);
                if got != want {
                    rec.oracle_fail(format!("all_covered {got} want {want}"));
                }
            }
            "isempty" => {
                let got = q.is_empty();
                rec.line(op.clone(), (got as u8).to_string());
                if got != r.e.is_empty() {
                    rec.oracle_fail("is_empty wrong");
                }
            }
            "drainabove" | "drainall" => {
                let mut em = vec![];
                let thr = if t[0] == "drainabove" {
                    let thr = n(1);
                    let res = q.drain_above(MaxCut::new(thr), |l| em.push(l));
                    if res.is_err() {
                        rec.oracle_fail("drain_above returned a bug error");
                    }
                    Some(thr)
                } else {
                    q.drain_all(|l| em.push(l));
                    None
                };
                rec.line(op.clone(), show_set(em.clone()));
                let above = |x: &(u64, u64, bool)| thr.map_or(true, |t| x.0 > t);
                let mut want: Vec<(u64, u64)> =
                    r.e.iter().filter(|x| above(x) && !x.2).map(|x| (x.0, x.1)).collect();
                want.sort();
                let mut got: Vec<(u64, u64)> = em.iter().map(|l| (mc_of(*l), seg_of(*l))).collect();
                got.sort();
                if got != want {
                    rec.oracle_fail(format!("{}: emitted {:?} want {:?}", t[0], got, want));
                }
                r.e.retain(|x| !above(x));
            }
            "coverupto" => {
                let (s, c, l) = (n(1), n(2), n(3));
                let res = q.cover_up_to(SegmentIndex::new(s), MaxCut::new(c), MaxCut::new(l));
                rec.line(op.clone(), if res.is_ok() { "ok" } else { "err" });
                if let Some(x) = r.e.iter_mut().find(|x| x.1 == s) {
                    if !x.2 {
                        if c >= l {
                            x.2 = true;
                        } else if c >= x.0 {
                            x.0 = c + 1;
                        }
                    }
                }
            }
            "clear" => {
                q.clear();
                r.e.clear();
                rec.line(op.clone(), "ok");
            }
            _ => panic!("bad op {op}"),
        }
        // exact internal state after every operation (entries order + partition)
        do_dbg(rec, &q, &r);
        // oracle: at most one entry per segment when push_duplicate is not in play
        if !mixed_dup {
            let mut segs: Vec<u64> = r.e.iter().map(|x| x.1).collect();
            segs.sort();
            let n0 = segs.len();
            segs.dedup();
            assert_eq!(n0, segs.len(), "reference broke its own invariant");
        }
    }
    // final drain: everything left must match the reference (entries, flags)
    let mut em = vec![];
    let before_allcov = q.all_covered();
    q.drain_all(|l| em.push(l));
    rec.line("drainall", show_set(em.clone()));
    let mut want: Vec<(u64, u64)> = r.e.iter().filter(|x| !x.2).map(|x| (x.0, x.1)).collect();
    want.sort();
    let mut got: Vec<(u64, u64)> = em.iter().map(|l| (mc_of(*l), seg_of(*l))).collect();
    got.sort();
    if got != want || before_allcov != want.is_empty() {
        rec.oracle_fail(format!("final drain_all: emitted {:?} want {:?}", got, want));
    }
}

/// Mode 0: dedup pushes only (call-site style 1: searches and sync).
/// Mode 1: push_duplicate/pop_duplicates only (convergence pre-pass).
/// Mode 2: both, on disjoint segment ranges.
fn gen_case(rng: &mut Rng, thorough: bool) -> (u8, Vec<String>) {
    let mode = match rng.below(10) {
        0..=5 => 0,
        6..=7 => 1,
        _ => 2,
    };
    let nseg = rng.range(1, if thorough { 12 } else { 6 });
    let nmc = rng.range(1, 8);
    let len = rng.range(1, if thorough { 120 } else { 40 });
    let mut ops = vec![];
    for _ in 0..len {
        let s = rng.below(nseg);
        let m = rng.below(nmc + 1);
        let k = rng.below(100);
        let op = match mode {
            0 => match k {
                0..=24 => format!("push {s} {m}"),
                25..=49 => format!("pushc {s} {m} {}", rng.below(2)),
                50..=59 => "pop".into(),
                60..=69 => "popc".into(),
                70..=74 => "peek".into(),
                75..=79 => "allcov".into(),
                80..=86 => format!("drainabove {}", rng.below(nmc + 1)),
                87..=96 => format!("coverupto {s} {} {}", rng.below(nmc + 2), rng.below(nmc + 2)),
                97 => "drainall".into(),
                98 => "isempty".into(),
                _ => "clear".into(),
            },
            1 => match k {
                0..=59 => format!("pushdup {s} {m}"),
                60..=84 => "popdups".into(),
                85..=89 => "peek".into(),
                90..=94 => "pop".into(),
                _ => "isempty".into(),
            },
            _ => match k {
                0..=19 => format!("push {s} {m}"),
                20..=34 => format!("pushc {s} {m} {}", rng.below(2)),
                35..=59 => format!("pushdup {} {m}", 1000 + s),
                60..=69 => "popdups".into(),
                70..=79 => "popc".into(),
                80..=84 => "peek".into(),
                85..=89 => format!("drainabove {}", rng.below(nmc + 1)),
                90..=94 => format!("coverupto {s} {} {}", rng.below(nmc + 2), rng.below(nmc + 2)),
                _ => "allcov".into(),
            },
        };
        ops.push(op);
    }
    (mode, ops)
}

/// a panic inside the real queue (e.g. a `Bug` from a failed `assume`, which panics in debug
/// builds, or an index out of bounds) is a violation with the case's op list as replay
fn guarded_case(rec: &mut Recorder, ops: &[String]) {
    let r = vh::catch(std::panic::AssertUnwindSafe(|| run_case(rec, ops)));
    if let Err(msg) = r {
        let mut input = vec!["new".to_string()];
        input.extend(ops.iter().cloned());
        rec.oracle_fail_with(format!("the real TraversalQueue panicked: {msg}"), input);
    }
}

fn main() {
    vh::quiet_panics();
    let args = Args::parse();
    let mut rec = Recorder::new(&args.out);
    if let Some(p) = &args.replay {
        let ops: Vec<String> = vh::read_replay_input(p)
            .into_iter()
            .filter(|l| l != "new" && l != "dbg")
            .collect();
        rec.begin_case();
        guarded_case(&mut rec, &ops);
        rec.finish(args.seed, &args.tier);
        return;
    }
    let mut rng = Rng::new(args.seed);
    let cases = args.budget(600, 20000);
    for _ in 0..cases {
        let (mode, ops) = gen_case(&mut rng, args.thorough() || args.search);
        rec.begin_case();
        rec.count(&format!("mode{mode}"));
        rec.count_n("ops", ops.len() as u64);
        for o in &ops {
            rec.count(&format!("op:{}", o.split(' ').next().unwrap()));
        }
        if ops.len() >= 3 {
            rec.nontrivial(fnv(&ops.join(";")));
        }
        if rec.cases() <= 2 {
            rec.sample(ops.join("; "));
        }
        guarded_case(&mut rec, &ops);
    }
    rec.finish(args.seed, &args.tier);
}
