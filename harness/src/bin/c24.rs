//! C24 — see `vh::langkit` (shared kit of the policy-language properties C22/C23/C24) and
//! `langkit::case` for the request protocol and the S-level oracles.
fn main() {
    vh::langkit::case::main_for(vh::langkit::case::Prop::C24);
}
