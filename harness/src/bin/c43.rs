//! C43 — the shared-memory futex mutex (`aranya_fast_channels::mutex::Mutex`, reached through
//! the cfg-gated `verif::VMutex` wrapper) under a cooperative scheduler.
//!
//! 2–4 REAL threads run `lock(); <critical section>; drop(guard)` loops on one real mutex.  The
//! verification hooks park every thread before each operation on the futex word (`fast` CAS,
//! spin `load`, spin `cas`, `swap`(SLEEPING), `fwait`, `unlock` swap, `wake`), and the two
//! futex calls are routed to this scheduler (wait: compare the word, then sleep; wake(1): the
//! scheduler releases one sleeper of its choice).  The scheduler decides every step:
//!   * exhaustive enumeration of all schedules up to a decision depth (2 and 3 threads),
//!   * long random schedules (2–4 threads, several lock rounds, sticky/uniform thread choice,
//!     injected spurious wake-ups, random choice of the sleeper a wake releases).
//! Every step is written as one request line for the Lean transition system (`drv_c43`),
//! together with what the real thread did: the label of its next yield point and the value of
//! the futex word after the step.  The Lean side must accept the step (trace inclusion) and
//! predict the same label and word.
//!
//! S-level oracle (independent of the Lean model):
//!   * mutual exclusion: an occupancy counter incremented when `lock` returns and decremented
//!     immediately before the `swap(UNLOCKED)`; a non-atomic read-yield-write of the protected
//!     `u64` (lost updates show up in the final count);
//!   * no deadlock / no lost wake-up: whenever some thread has not finished, some thread is
//!     runnable without a spurious wake-up;
//!   * progress: every run terminates within a step bound under the (fair after the prefix)
//!     scheduler; final word = UNLOCKED; final count = threads × rounds.

use std::sync::{
    atomic::{AtomicI64, AtomicU32, Ordering},
    Arc, Mutex as StdMutex,
};

use aranya_fast_channels::verif as fv;
use vh::{
    coop::{self, Chooser, Dfs, Sched, St},
    fnv, Args, Recorder, Rng,
};

static OCC: AtomicI64 = AtomicI64::new(0);
static VIOL: StdMutex<Vec<String>> = StdMutex::new(Vec::new());

fn viol(s: String) {
    VIOL.lock().unwrap().push(s);
}

fn hook(label: &'static str) {
    coop::yield_point(label);
    if label == "unlock" && coop::current().is_some() {
        // granted: the swap(UNLOCKED) is the next thing this thread does
        let o = OCC.fetch_sub(1, Ordering::SeqCst);
        if o != 1 {
            viol(format!("mutual exclusion: occupancy {o} when a holder releases"));
        }
    }
}

fn futex_wait(addr: &AtomicU32, val: u32) -> bool {
    if coop::current().is_none() {
        return false;
    }
    // the yield point "fwait" has been passed: this is the atomic compare-and-enqueue
    if addr.load(Ordering::SeqCst) != val {
        return true;
    }
    coop::sleep();
    true
}

fn futex_wake(_addr: &AtomicU32, _cnt: u32) -> bool {
    // the scheduler released the sleeper (if any) when it granted the "wake" step
    coop::current().is_some()
}

#[derive(Clone, Debug, PartialEq)]
enum Act {
    Run(usize, &'static str),
    Wake(usize, usize),
    Spur(usize),
}

impl Act {
    fn line(&self) -> String {
        match self {
            Act::Run(t, l) => format!("r {t} {l}"),
            Act::Wake(t, w) => format!("w {t} {w}"),
            Act::Spur(w) => format!("p {w}"),
        }
    }
}

/// how the next action is picked among the enabled ones
enum Mode<'a> {
    Dfs(&'a mut Dfs),
    Random { rng: &'a mut Rng, sticky: u64, spur_pct: u64 },
    Replay { acts: Vec<String>, pos: usize },
}

struct Outcome {
    steps: usize,
    slept: usize,
    wakes: usize,
    spurs: usize,
    contended: usize,
    sig: u64,
}

const STEP_CAP: usize = 4_000;

/// Fair continuation beyond an enumerated / replayed prefix: the next thread after `last`
/// (cyclically) that has an enabled action.  Fairness makes a run terminate even if the lock
/// degenerates into a spin lock.
fn round_robin(opts: &[Act], last: Option<usize>, n: usize) -> Act {
    let thr = |a: &Act| match a {
        Act::Run(t, _) | Act::Wake(t, _) => *t,
        Act::Spur(w) => *w,
    };
    let start = last.map_or(0, |l| l + 1);
    (0..n)
        .map(|k| (start + k) % n)
        .find_map(|t| opts.iter().find(|a| thr(a) == t))
        .cloned()
        .unwrap_or_else(|| opts[0].clone())
}

fn run_case(rec: &mut Recorder, n: usize, iters: usize, mode: &mut Mode) -> Outcome {
    OCC.store(0, Ordering::SeqCst);
    VIOL.lock().unwrap().clear();
    let m = Arc::new(fv::VMutex::new(0));
    let sched = Sched::new(n);
    let mut handles = vec![];
    for t in 0..n {
        let (m, sched) = (m.clone(), sched.clone());
        handles.push(std::thread::spawn(move || {
            let _g = coop::enter(&sched, t);
            for _ in 0..iters {
                coop::yield_point("idle");
                let mut g = m.lock();
                let o = OCC.fetch_add(1, Ordering::SeqCst);
                if o != 0 {
                    viol(format!("mutual exclusion: lock() returned while {o} other thread(s) hold the mutex"));
                }
                let v = *g;
                coop::yield_point("cs");
                *g = v + 1;
                drop(g);
            }
        }));
    }
    rec.line(format!("new {n} {iters}"), "ok");
    let mut out = Outcome { steps: 0, slept: 0, wakes: 0, spurs: 0, contended: 0, sig: 0 };
    let mut last: Option<usize> = None;
    let mut fails: Vec<String> = vec![];
    let mut sig = String::new();
    let mut abandoned = false;
    loop {
        let st = match sched.quiesce() {
            Ok(s) => s,
            Err(e) => {
                fails.push(e);
                abandoned = true;
                break;
            }
        };
        if let Some(p) = st.iter().position(|s| *s == St::Panicked) {
            fails.push(format!("thread {p} panicked"));
        }
        if st.iter().all(|s| matches!(s, St::Done | St::Panicked)) {
            break;
        }
        let sleepers: Vec<usize> = (0..n).filter(|&t| st[t] == St::Asleep).collect();
        // enabled progress actions
        let mut opts: Vec<Act> = vec![];
        for t in 0..n {
            if let St::AtYield(l) = st[t] {
                if l == "wake" && !sleepers.is_empty() {
                    for &w in &sleepers {
                        opts.push(Act::Wake(t, w));
                    }
                } else {
                    opts.push(Act::Run(t, l));
                }
            }
        }
        if opts.is_empty() {
            // every unfinished thread is asleep in the futex and nobody will wake it
            fails.push(format!(
                "deadlock (lost wake-up): threads {:?} asleep in the futex, word = {}, no runnable thread",
                sleepers,
                m.key()
            ));
            // let the threads finish: release everybody spuriously
            for &w in &sleepers {
                sched.release(w);
                rec.line(format!("p {w}"), format!("woken {}", m.key()));
            }
            continue;
        }
        if out.steps >= STEP_CAP {
            fails.push(format!("no termination within {STEP_CAP} steps (livelock?)"));
            abandoned = true;
            break;
        }
        let act = match mode {
            Mode::Dfs(d) => {
                if d.past_depth() {
                    round_robin(&opts, last, n)
                } else {
                    opts[d.choose(opts.len())].clone()
                }
            }
            Mode::Random { rng, sticky, spur_pct } => {
                if !sleepers.is_empty() && rng.below(100) < *spur_pct {
                    Act::Spur(*rng.pick(&sleepers))
                } else {
                    let same: Vec<&Act> = opts
                        .iter()
                        .filter(|a| matches!(a, Act::Run(t, _) | Act::Wake(t, _) if Some(*t) == last))
                        .collect();
                    if !same.is_empty() && rng.below(100) < *sticky {
                        (*rng.pick(&same)).clone()
                    } else {
                        rng.pick(&opts).clone()
                    }
                }
            }
            Mode::Replay { acts, pos } => {
                let mut pick = None;
                while *pos < acts.len() && pick.is_none() {
                    let l = &acts[*pos];
                    *pos += 1;
                    pick = opts.iter().find(|a| a.line() == *l).cloned();
                    if pick.is_none() {
                        let tk: Vec<&str> = l.split(' ').collect();
                        if tk.len() == 2 && tk[0] == "p" {
                            if let Ok(w) = tk[1].parse::<usize>() {
                                if sleepers.contains(&w) {
                                    pick = Some(Act::Spur(w));
                                }
                            }
                        }
                    }
                }
                pick.unwrap_or_else(|| round_robin(&opts, last, n))
            }
        };
        out.steps += 1;
        sig.push_str(&act.line());
        sig.push(';');
        match &act {
            Act::Run(t, _) => {
                last = Some(*t);
                let new = sched.grant(*t).unwrap_or(St::Panicked);
                let lbl = match new {
                    St::Done => "idle",
                    s => s.label(),
                };
                if new == St::Asleep {
                    out.slept += 1;
                }
                if let Act::Run(_, "fast") = act {
                    if lbl == "load" || lbl == "swap" {
                        out.contended += 1;
                    }
                }
                rec.line(act.line(), format!("{lbl} {}", m.key()));
            }
            Act::Wake(t, w) => {
                last = Some(*t);
                out.wakes += 1;
                sched.release(*w);
                let new = sched.grant(*t).unwrap_or(St::Panicked);
                let lbl = match new {
                    St::Done => "idle",
                    s => s.label(),
                };
                rec.line(act.line(), format!("{lbl} {}", m.key()));
            }
            Act::Spur(w) => {
                out.spurs += 1;
                sched.release(*w);
                rec.line(act.line(), format!("woken {}", m.key()));
            }
        }
    }
    if !abandoned {
        for h in handles {
            let _ = h.join();
        }
        let key = m.key();
        let total = *m.lock();
        let labels = vec!["idle"; n].join(",");
        rec.line("end", format!("end {key} {labels}"));
        if key != 0 {
            fails.push(format!("final futex word {key}, expected 0 (unlocked)"));
        }
        if total != (n * iters) as u64 {
            fails.push(format!("lost update: protected counter {total}, expected {}", n * iters));
        }
        if OCC.load(Ordering::SeqCst) != 0 {
            fails.push("occupancy counter not back to 0".into());
        }
    }
    fails.extend(VIOL.lock().unwrap().drain(..));
    fails.dedup();
    for f in fails {
        rec.oracle_fail(f);
    }
    out.sig = fnv(&sig);
    out
}

fn account(rec: &mut Recorder, kind: &str, n: usize, o: &Outcome) {
    rec.count(&format!("runs:{kind}"));
    rec.count(&format!("threads:{n}"));
    rec.count_n("steps", o.steps as u64);
    rec.count_n("futex-sleeps", o.slept as u64);
    rec.count_n("futex-wakes", o.wakes as u64);
    rec.count_n("spurious-wakeups", o.spurs as u64);
    rec.count_n("contended-locks", o.contended as u64);
    if o.slept > 0 {
        rec.count("runs-with-sleeper");
    }
    if o.contended > 0 {
        rec.nontrivial(o.sig);
    }
}

fn main() {
    let args = Args::parse();
    let mut rec = Recorder::new(&args.out);
    fv::set_hook(hook);
    fv::set_futex_hooks(futex_wait, futex_wake);

    if let Some(p) = &args.replay {
        let lines = vh::read_replay_input(p);
        let mut i = 0;
        while i < lines.len() {
            let tk: Vec<&str> = lines[i].split(' ').collect();
            if tk.len() == 3 && tk[0] == "new" {
                let n: usize = tk[1].parse().unwrap_or(2).clamp(1, 8);
                let iters: usize = tk[2].parse().unwrap_or(1).clamp(1, 8);
                let mut j = i + 1;
                while j < lines.len() && !lines[j].starts_with("new ") {
                    j += 1;
                }
                let acts: Vec<String> = lines[i + 1..j].iter().filter(|l| *l != "end").cloned().collect();
                rec.begin_case();
                let o = run_case(&mut rec, n, iters, &mut Mode::Replay { acts, pos: 0 });
                account(&mut rec, "replay", n, &o);
                i = j;
            } else {
                i += 1;
            }
        }
        rec.finish(args.seed, &args.tier);
        return;
    }

    let big = args.thorough() || args.search;
    // exhaustive: (threads, rounds, decision depth)
    let exh: &[(usize, usize, usize)] =
        if big { &[(2, 1, 15), (2, 2, 11), (3, 1, 8)] } else { &[(2, 1, 12), (2, 2, 9), (3, 1, 6)] };
    for &(n, iters, depth) in exh {
        let mut dfs = Dfs::new(depth);
        let mut runs = 0u64;
        loop {
            rec.begin_case();
            let o = run_case(&mut rec, n, iters, &mut Mode::Dfs(&mut dfs));
            account(&mut rec, "exhaustive", n, &o);
            runs += 1;
            if !dfs.advance() {
                break;
            }
        }
        rec.notes.push(format!("exhaustive: {n} threads x {iters} rounds, all schedules to decision depth {depth}: {runs} runs"));
    }
    // random long schedules
    let mut rng = Rng::new(args.seed);
    let cases = args.budget(400, 3000);
    for c in 0..cases {
        let n = rng.range(2, 4) as usize;
        let iters = rng.range(1, 3) as usize;
        let sticky = *rng.pick(&[0u64, 50, 80, 90, 96]);
        let spur_pct = *rng.pick(&[0u64, 0, 5, 15]);
        rec.begin_case();
        let o = run_case(&mut rec, n, iters, &mut Mode::Random { rng: &mut rng, sticky, spur_pct });
        account(&mut rec, "random", n, &o);
        if c < 2 {
            rec.sample(rec.current_case_lines().join("; "));
        }
    }
    rec.finish(args.seed, &args.tier);
}
