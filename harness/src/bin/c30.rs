//! C30 — facts and effects change only inside finish blocks.
//!
//! Generated command policies (checks, matches, ifs, pure-function calls, finish-function calls,
//! finish blocks, recall blocks in any arrangement) as an AST that is rendered twice: as policy
//! SOURCE TEXT for the real parser + compiler, and as a token line for the Lean model
//! (`Model/Finish.lean`: context rules `accept`, emitted region tree, `run`).
//!
//! * valid programs must be accepted, programs with one misplaced statement (finish-only
//!   statement outside finish, non-finish statement inside finish, finish not last, wrong call
//!   colour, recall outside `policy`, …) must be REJECTED by the real compiler — and the model's
//!   `accept` must agree;
//! * static oracle on the real module: every `Create/Update/Delete/Emit` instruction lies in a
//!   finish region (`Meta(Finish(true))` … `Exit`) or in the body of a finish function;
//! * dynamic oracle: each accepted command is run on several input vectors through a real
//!   `VmPolicy` (`call_action` on a kept perspective + logging sink): `Panic` ⇒ facts unchanged and
//!   no effects; `Check` ⇒ everything that happened carries the recalled marker and the recall
//!   sentinel effect is present (otherwise nothing happened); `Normal` ⇒ no recalled marker.
//!   The Lean model is run on the decision list of the same path and must give the same outcome,
//!   marker sequence and write counts.

use std::collections::{BTreeMap, BTreeSet};
use std::fmt::Write as _;

use aranya_policy_module::{ExitReason, Instruction, LabelType, Meta, Module, ModuleData, Target};
use aranya_policy_vm::Value;
use aranya_runtime::policy::PolicyError;
use vh::{
    fnv,
    policykit::{self as pk, RawFact},
    Args, Recorder, Rng,
};

// ------------------------------------------------------------------ AST

#[derive(Clone, Debug)]
enum E {
    Simple,
    Compute,
    /// `this.oN or test_fail()` (data dependent) / `test_fail()` (forced)
    MayPanic { id: usize, forced: bool },
    Call { f: usize, id: usize },
    Recall(usize),
    Ret,
}

#[derive(Clone, Debug)]
enum S {
    Let(E),
    Chk { id: usize, els: E },
    Mat { id: usize, arms: Vec<Vec<S>> },
    If { ids: Vec<usize>, arms: Vec<Vec<S>>, has_else: bool },
    Fin(Vec<S>),
    /// kind c/u/d/e; `fail`: the instruction will raise a machine error (update of a missing fact);
    /// `compute`: operand is not a finish-legal expression (only in misplaced programs)
    Eff { kind: char, id: usize, fail: bool, compute: bool },
    Call { f: usize, id: usize },
    Rec(usize),
    Dbg { id: usize },
    Ret,
    Map(Vec<S>),
}

#[derive(Clone, Debug)]
struct FnDef {
    finish: bool,
    body: Vec<S>,
}

#[derive(Clone, Debug)]
struct Prog {
    fns: Vec<FnDef>,
    recalls: Vec<Vec<S>>,
    policy: Vec<S>,
}

// ------------------------------------------------------------------ tokens for the model

fn etok(e: &E) -> String {
    match e {
        E::Simple => "s".into(),
        E::Compute => "c".into(),
        E::MayPanic { .. } => "p".into(),
        E::Call { f, .. } => format!("f{f}"),
        E::Recall(r) => format!("r{r}"),
        E::Ret => "t".into(),
    }
}

fn btok(b: &[S], out: &mut Vec<String>) {
    out.push("{".into());
    for s in b {
        stok(s, out);
    }
    out.push("}".into());
}

fn stok(s: &S, out: &mut Vec<String>) {
    match s {
        S::Let(e) => out.extend(["let".into(), etok(e)]),
        S::Chk { els, .. } => out.extend(["chk".into(), "s".into(), etok(els)]),
        S::Mat { arms, .. } => {
            out.extend(["mat".into(), "s".into(), arms.len().to_string(), "1".into()]);
            for a in arms {
                btok(a, out);
            }
        }
        S::If { arms, has_else, .. } => {
            out.extend(["if".into(), "s".into(), arms.len().to_string(), (*has_else as u8).to_string()]);
            for a in arms {
                btok(a, out);
            }
        }
        S::Fin(b) => {
            out.push("fin".into());
            btok(b, out);
        }
        S::Eff { kind, compute, .. } => out.extend(["eff".into(), kind.to_string(), if *compute { "c".into() } else { "s".into() }]),
        S::Call { f, .. } => out.extend(["call".into(), f.to_string()]),
        S::Rec(r) => out.extend(["rec".into(), r.to_string()]),
        S::Dbg { .. } => out.extend(["dbg".into(), "s".into()]),
        S::Ret => out.extend(["ret".into(), "s".into()]),
        S::Map(b) => {
            out.push("map".into());
            btok(b, out);
        }
    }
}

fn prog_line(p: &Prog, strict: bool) -> String {
    let mut out: Vec<String> = vec!["prog".into(), "1".into(), (strict as u8).to_string(), "fns".into(), p.fns.len().to_string()];
    for f in &p.fns {
        out.extend(["fn".into(), (f.finish as u8).to_string()]);
        btok(&f.body, &mut out);
    }
    out.extend(["recalls".into(), p.recalls.len().to_string()]);
    for r in &p.recalls {
        btok(r, &mut out);
    }
    out.push("policy".into());
    btok(&p.policy, &mut out);
    out.join(" ")
}

// ------------------------------------------------------------------ source text

const NFAM: usize = 21;
const SENTINEL: usize = 424242;
const CMD_BOILER: &str = "    seal { return envelope::do_seal(payload) }\n    open { return envelope::do_open(payload, envelope) }\n";

/// where a statement list is rendered: command level (sites read `this.<field>`), pure function
/// (sites read the parameters `b`, `o`), finish function `f` (effects keyed by the parameter `n`)
#[derive(Clone, Copy, PartialEq)]
enum Where {
    Cmd,
    Pure,
    FinFn(usize),
}

struct Render {
    /// command fields used: name -> type
    fields: BTreeMap<String, &'static str>,
    /// pre-populated facts needed: (family name, key)
    pool: BTreeSet<(String, i64)>,
    var: usize,
}

impl Render {
    fn field(&mut self, name: String, ty: &'static str) -> String {
        self.fields.insert(name.clone(), ty);
        format!("this.{name}")
    }
    fn cond(&mut self, w: Where, id: usize) -> String {
        if w == Where::Cmd { self.field(format!("c{id}"), "bool") } else { "b".into() }
    }
    fn expr(&mut self, w: Where, e: &E) -> String {
        match e {
            E::Simple => "1".into(),
            E::Compute => "1 > 0".into(),
            E::MayPanic { forced: true, .. } => "test_fail()".into(),
            E::MayPanic { id, .. } => {
                let o = if w == Where::Cmd { self.field(format!("o{id}"), "optional int") } else { "o".into() };
                format!("{o} or test_fail()")
            }
            E::Call { f, id } => match w {
                Where::Cmd => {
                    let c = self.field(format!("c{id}"), "bool");
                    let o = self.field(format!("o{id}"), "optional int");
                    format!("fn{f}({c}, {o})")
                }
                Where::Pure => format!("fn{f}(b, o)"),
                // finish function used as / inside an expression: only in misplaced programs
                Where::FinFn(_) => format!("fn{f}(true, None)"),
            },
            E::Recall(r) => format!("recall r{r}()"),
            E::Ret => "return 0".into(),
        }
    }
    fn block(&mut self, w: Where, stmts: &[S], ind: usize, out: &mut String) {
        let pad = "    ".repeat(ind);
        let mut eff_idx = 0usize;
        for s in stmts {
            match s {
                S::Let(e) => {
                    self.var += 1;
                    let v = self.var;
                    let ex = self.expr(w, e);
                    writeln!(out, "{pad}let x{v} = {ex}").unwrap();
                }
                S::Chk { id, els } => {
                    let c = self.cond(w, *id);
                    let ex = self.expr(w, els);
                    writeln!(out, "{pad}check {c} else {ex}").unwrap();
                }
                S::Mat { id, arms } => {
                    if w == Where::Cmd {
                        let m = self.field(format!("m{id}"), "int");
                        writeln!(out, "{pad}match {m} {{").unwrap();
                        for (i, a) in arms.iter().enumerate() {
                            let pat = if i + 1 == arms.len() { "_".to_string() } else { i.to_string() };
                            writeln!(out, "{pad}    {pat} => {{").unwrap();
                            self.block(w, a, ind + 2, out);
                            writeln!(out, "{pad}    }}").unwrap();
                        }
                    } else {
                        writeln!(out, "{pad}match b {{").unwrap();
                        for (i, a) in arms.iter().enumerate() {
                            writeln!(out, "{pad}    {} => {{", if i == 0 { "true" } else { "false" }).unwrap();
                            self.block(w, a, ind + 2, out);
                            writeln!(out, "{pad}    }}").unwrap();
                        }
                    }
                    writeln!(out, "{pad}}}").unwrap();
                }
                S::If { ids, arms, has_else } => {
                    let nb = if *has_else { arms.len() - 1 } else { arms.len() };
                    for (i, a) in arms.iter().enumerate() {
                        if i < nb {
                            let c = self.cond(w, ids[i]);
                            let kw = if i == 0 { format!("{pad}if") } else { " else if".to_string() };
                            write!(out, "{kw} {c} {{\n").unwrap();
                        } else {
                            write!(out, " else {{\n").unwrap();
                        }
                        self.block(w, a, ind + 1, out);
                        write!(out, "{pad}}}").unwrap();
                    }
                    out.push('\n');
                }
                S::Fin(b) => {
                    writeln!(out, "{pad}finish {{").unwrap();
                    self.block(w, b, ind + 1, out);
                    writeln!(out, "{pad}}}").unwrap();
                }
                S::Eff { kind, id, fail, compute } => {
                    // inside a finish function the key is the parameter `n` and each effect statement
                    // has its own fact family; at command level keys are per-site constants
                    let (fam, key): (usize, String) = match w {
                        Where::FinFn(f) => {
                            let fam = (f * 4 + eff_idx) % NFAM;
                            (fam, if *fail { "9999".into() } else { "n".into() })
                        }
                        _ => {
                            let fam = NFAM - 1;
                            if *fail {
                                (fam, (9000 + id).to_string())
                            } else {
                                if matches!(kind, 'u' | 'd') {
                                    self.pool.insert((format!("P{fam}"), *id as i64));
                                }
                                (fam, id.to_string())
                            }
                        }
                    };
                    eff_idx += 1;
                    let key = if *compute { format!("saturating_add({key}, 1)") } else { key };
                    match kind {
                        'c' => writeln!(out, "{pad}create C{fam}[k: {key}]=>{{v: 1}}").unwrap(),
                        'u' => writeln!(out, "{pad}update P{fam}[k: {key}]=>{{v: ?}} to {{v: 7}}").unwrap(),
                        'd' => writeln!(out, "{pad}delete P{fam}[k: {key}]").unwrap(),
                        _ if *id == SENTINEL => writeln!(out, "{pad}emit RecallRan {{ }}").unwrap(),
                        _ => writeln!(out, "{pad}emit Eff {{ n: {key} }}").unwrap(),
                    }
                }
                S::Call { f, id } => {
                    let arg = match w {
                        Where::Cmd => self.field(format!("k{id}"), "int"),
                        Where::FinFn(_) => "n".into(),
                        Where::Pure => "1".into(),
                    };
                    writeln!(out, "{pad}fn{f}({arg})").unwrap();
                }
                S::Rec(r) => writeln!(out, "{pad}recall r{r}()").unwrap(),
                S::Dbg { id } => {
                    let c = if let Where::FinFn(_) = w { (id % 2 == 0).to_string() } else { self.cond(w, *id) };
                    writeln!(out, "{pad}debug_assert({c})").unwrap();
                }
                S::Ret => writeln!(out, "{pad}return 0").unwrap(),
                S::Map(b) => {
                    writeln!(out, "{pad}map C0[k: ?] as f {{").unwrap();
                    self.block(w, b, ind + 1, out);
                    writeln!(out, "{pad}}}").unwrap();
                }
            }
        }
    }
}

/// (source, command field names+types, pool of facts to pre-populate)
fn render(p: &Prog) -> (String, Vec<(String, &'static str)>, BTreeSet<(String, i64)>) {
    let mut r = Render { fields: BTreeMap::new(), pool: BTreeSet::new(), var: 0 };
    let mut fns = String::new();
    for (i, f) in p.fns.iter().enumerate() {
        if f.finish {
            writeln!(fns, "finish function fn{i}(n int) {{").unwrap();
            r.block(Where::FinFn(i), &f.body, 1, &mut fns);
            writeln!(fns, "}}\n").unwrap();
        } else {
            writeln!(fns, "function fn{i}(b bool, o optional int) int {{").unwrap();
            r.block(Where::Pure, &f.body, 1, &mut fns);
            writeln!(fns, "}}\n").unwrap();
        }
    }
    let mut policy = String::new();
    r.block(Where::Cmd, &p.policy, 2, &mut policy);
    let mut recalls = String::new();
    for (i, b) in p.recalls.iter().enumerate() {
        writeln!(recalls, "    recall r{i}() {{").unwrap();
        r.block(Where::Cmd, b, 2, &mut recalls);
        writeln!(recalls, "    }}").unwrap();
    }
    // finish-function calls at command level pass pool keys: every family may be touched
    let fields: Vec<(String, &'static str)> = r.fields.iter().map(|(n, t)| (n.clone(), *t)).collect();
    let decl = fields.iter().map(|(n, t)| format!("{n} {t}")).collect::<Vec<_>>().join(", ");
    let pass = fields.iter().map(|(n, _)| format!("{n}: {n}")).collect::<Vec<_>>().join(", ");
    let mut s = String::new();
    s.push_str("use envelope\n\n");
    for i in 0..NFAM {
        writeln!(s, "fact C{i}[k int]=>{{v int}}\nfact P{i}[k int]=>{{v int}}").unwrap();
    }
    s.push_str("effect Eff { n int }\neffect RecallRan { }\n\n");
    write!(
        s,
        "command Init {{\n    attributes {{ init: true }}\n    fields {{ nonce int }}\n{CMD_BOILER}    policy {{ finish {{}} }}\n}}\naction init(nonce int) {{ publish Init {{ nonce: nonce }} }}\n\n"
    )
    .unwrap();
    // pre-population: one command creating P<fam>[k] for a (fam, k) given as fields
    write!(s, "command Pre {{\n    attributes {{ priority: 0 }}\n    fields {{ fam int, k int }}\n{CMD_BOILER}    policy {{\n        match this.fam {{\n").unwrap();
    for i in 0..NFAM {
        let pat = if i + 1 == NFAM { "_".to_string() } else { i.to_string() };
        writeln!(s, "            {pat} => {{ finish {{ create P{i}[k: this.k]=>{{v: 3}} }} }}").unwrap();
    }
    s.push_str("        }\n    }\n}\naction pre(fam int, k int) { publish Pre { fam: fam, k: k } }\n\n");
    s.push_str(&fns);
    write!(s, "command T {{\n    attributes {{ priority: 0 }}\n    fields {{ {decl} }}\n{CMD_BOILER}    policy {{\n{policy}    }}\n{recalls}}}\naction t({decl}) {{ publish T {{ {pass} }} }}\n").unwrap();
    (s, fields, r.pool)
}

// ------------------------------------------------------------------ path walk (decisions + inputs)

#[derive(PartialEq)]
enum Flow {
    Fall,
    Ret,
    Exit,
}

struct Walk<'a> {
    p: &'a Prog,
    rng: &'a mut Rng,
    ds: Vec<u64>,
    vals: BTreeMap<String, Value>,
    /// next free pool key for finish-function calls
    next_n: i64,
    pool: BTreeSet<(String, i64)>,
    depth: usize,
}

#[derive(Clone, Copy)]
struct Frame {
    /// `Some((b, o_is_some))` inside a pure function
    args: Option<(bool, bool)>,
    /// inside a finish function: its index and the value of `n`
    fin: Option<(usize, i64)>,
}

impl Walk<'_> {
    fn cond(&mut self, fr: Frame, id: usize) -> bool {
        match fr.args {
            Some((b, _)) => b,
            None => {
                let b = self.rng.chance(3, 4);
                self.vals.insert(format!("c{id}"), Value::Bool(b));
                b
            }
        }
    }
    fn opt(&mut self, fr: Frame, id: usize) -> bool {
        match fr.args {
            Some((_, o)) => o,
            None => {
                let some = self.rng.chance(5, 6);
                self.vals.insert(format!("o{id}"), if some { Value::Option(Some(Box::new(Value::Int(1)))) } else { Value::Option(None) });
                some
            }
        }
    }
    fn expr(&mut self, fr: Frame, e: &E) -> Flow {
        match e {
            E::Simple | E::Compute => Flow::Fall,
            E::MayPanic { forced: true, .. } => {
                self.ds.push(1);
                Flow::Exit
            }
            E::MayPanic { id, .. } => {
                if self.opt(fr, *id) {
                    self.ds.push(0);
                    Flow::Fall
                } else {
                    self.ds.push(1);
                    Flow::Exit
                }
            }
            E::Call { f, id } => {
                let args = match fr.args {
                    Some(a) => a,
                    None => (self.cond(fr, *id), self.opt(fr, *id)),
                };
                let body = self.p.fns[*f].body.clone();
                match self.block(Frame { args: Some(args), fin: None }, &body, false) {
                    Flow::Ret => Flow::Fall,
                    Flow::Fall => Flow::Exit, // falling off a function's end is `Exit(Panic)`
                    Flow::Exit => Flow::Exit,
                }
            }
            E::Recall(r) => {
                let body = self.p.recalls[*r].clone();
                let _ = self.block(Frame { args: None, fin: None }, &body, false);
                Flow::Exit
            }
            E::Ret => Flow::Ret,
        }
    }
    fn block(&mut self, fr: Frame, stmts: &[S], in_finish: bool) -> Flow {
        self.depth += 1;
        assert!(self.depth < 64);
        let mut eff_idx = 0usize;
        let mut res = Flow::Fall;
        for s in stmts {
            let fl = match s {
                S::Let(e) => self.expr(fr, e),
                S::Chk { id, els } => {
                    if self.cond(fr, *id) {
                        self.ds.push(0);
                        Flow::Fall
                    } else {
                        self.ds.push(1);
                        self.expr(fr, els)
                    }
                }
                S::Mat { id, arms } => {
                    let k = if fr.args.is_some() {
                        if self.cond(fr, *id) { 0 } else { 1 }
                    } else {
                        let k = self.rng.below(arms.len() as u64) as usize;
                        self.vals.insert(format!("m{id}"), Value::Int(if k + 1 == arms.len() { 77 } else { k as i64 }));
                        k
                    };
                    self.ds.push(k as u64);
                    self.block(fr, &arms[k].clone(), in_finish)
                }
                S::If { ids, arms, has_else } => {
                    let nb = if *has_else { arms.len() - 1 } else { arms.len() };
                    let mut taken = arms.len(); // "no branch"
                    for i in 0..nb {
                        if self.cond(fr, ids[i]) {
                            taken = i;
                            break;
                        }
                    }
                    if taken == arms.len() && *has_else {
                        taken = arms.len() - 1;
                    }
                    self.ds.push(taken as u64);
                    if taken < arms.len() { self.block(fr, &arms[taken].clone(), in_finish) } else { Flow::Fall }
                }
                S::Fin(b) => {
                    let _ = self.block(fr, &b.clone(), true);
                    Flow::Exit
                }
                S::Eff { kind, fail, .. } => {
                    if let Some((f, n)) = fr.fin {
                        if !*fail && matches!(kind, 'u' | 'd') {
                            self.pool.insert((format!("P{}", (f * 4 + eff_idx) % NFAM), n));
                        }
                    }
                    eff_idx += 1;
                    self.ds.push(*fail as u64);
                    if *fail { Flow::Exit } else { Flow::Fall }
                }
                S::Call { f, id } => {
                    let n = match fr.fin {
                        Some((_, n)) => n,
                        None => {
                            let n = self.next_n;
                            self.next_n += 1;
                            self.vals.insert(format!("k{id}"), Value::Int(n));
                            n
                        }
                    };
                    let body = self.p.fns[*f].body.clone();
                    match self.block(Frame { args: None, fin: Some((*f, n)) }, &body, true) {
                        Flow::Exit => Flow::Exit,
                        _ => Flow::Fall,
                    }
                }
                S::Rec(r) => {
                    let body = self.p.recalls[*r].clone();
                    let _ = self.block(Frame { args: None, fin: None }, &body, false);
                    Flow::Exit
                }
                S::Dbg { id } => {
                    let pass = if fr.fin.is_some() { id % 2 == 0 } else { self.cond(fr, *id) };
                    if pass {
                        self.ds.push(0);
                        Flow::Fall
                    } else {
                        self.ds.push(1);
                        Flow::Exit
                    }
                }
                S::Ret => Flow::Ret,
                S::Map(_) => Flow::Fall,
            };
            if fl != Flow::Fall {
                res = fl;
                break;
            }
        }
        self.depth -= 1;
        res
    }
}

// ------------------------------------------------------------------ generators

struct Gen<'a> {
    rng: &'a mut Rng,
    id: usize,
    nrecalls: usize,
    pure_fns: Vec<usize>,
    fin_fns: Vec<usize>,
    dbg_in_finish: bool,
}

impl Gen<'_> {
    fn id(&mut self) -> usize {
        self.id += 1;
        self.id
    }
    fn finish_body(&mut self, callable: &[usize], max: usize) -> Vec<S> {
        let n = self.rng.range(0, max as u64) as usize;
        let mut out = vec![];
        let mut called = BTreeSet::new();
        for _ in 0..n {
            let r = self.rng.below(20);
            let s = match r {
                0..=5 => S::Eff { kind: 'e', id: self.id(), fail: false, compute: false },
                6..=10 => S::Eff { kind: 'c', id: self.id(), fail: false, compute: false },
                11..=12 => S::Eff { kind: 'u', id: self.id(), fail: self.rng.chance(1, 4), compute: false },
                13..=14 => S::Eff { kind: 'd', id: self.id(), fail: false, compute: false },
                15..=17 if !callable.is_empty() => {
                    let f = *self.rng.pick(callable);
                    if !called.insert(f) {
                        continue;
                    }
                    S::Call { f, id: self.id() }
                }
                18 if self.dbg_in_finish => S::Dbg { id: self.id() },
                _ => S::Eff { kind: 'e', id: self.id(), fail: false, compute: false },
            };
            out.push(s);
        }
        out
    }
    fn pure_expr(&mut self, callable: &[usize]) -> E {
        match self.rng.below(10) {
            0..=3 => E::Simple,
            4..=5 => E::Compute,
            6..=7 => E::MayPanic { id: self.id(), forced: false },
            _ if !callable.is_empty() => E::Call { f: *self.rng.pick(callable), id: self.id() },
            _ => E::Compute,
        }
    }
    /// a block of a plain context; `ctx`: 0 = policy, 1 = recall block, 2 = pure function
    fn plain_block(&mut self, ctx: u8, depth: usize, callable: &[usize]) -> Vec<S> {
        let mut out = vec![];
        let n = self.rng.range(0, 3) as usize;
        for _ in 0..n {
            let r = self.rng.below(16);
            let s = match r {
                0..=3 => S::Let(self.pure_expr(callable)),
                4..=7 => {
                    let els = match ctx {
                        0 if self.nrecalls > 0 && self.rng.chance(3, 4) => E::Recall(self.rng.below(self.nrecalls as u64) as usize),
                        2 if self.rng.chance(1, 2) => E::Ret,
                        _ => E::MayPanic { id: self.id(), forced: true },
                    };
                    S::Chk { id: self.id(), els }
                }
                8..=9 if depth > 0 => {
                    let na = if ctx == 2 { 2 } else { self.rng.range(2, 3) as usize };
                    let arms = (0..na).map(|_| self.tail_block(ctx, depth - 1, callable)).collect();
                    S::Mat { id: self.id(), arms }
                }
                10..=11 if depth > 0 => {
                    let has_else = self.rng.chance(1, 2) || ctx == 2;
                    let nb = if ctx == 2 { 1 } else { self.rng.range(1, 2) as usize };
                    let na = nb + has_else as usize;
                    let ids = (0..nb).map(|_| self.id()).collect();
                    let arms = (0..na).map(|_| self.tail_block(ctx, depth - 1, callable)).collect();
                    S::If { ids, arms, has_else }
                }
                12 => S::Dbg { id: self.id() },
                13 if ctx == 0 && self.nrecalls > 0 => {
                    out.push(S::Rec(self.rng.below(self.nrecalls as u64) as usize));
                    break;
                }
                _ => S::Let(E::Simple),
            };
            out.push(s);
        }
        out
    }
    /// a plain block that may end in a finish block (policy / recall contexts)
    fn tail_block(&mut self, ctx: u8, depth: usize, callable: &[usize]) -> Vec<S> {
        let mut b = self.plain_block(ctx, depth, callable);
        if ctx == 2 && b.is_empty() {
            // `if b { }` does not parse (`b { }` is read as a struct literal): keep branches non-empty
            b.push(S::Let(E::Simple));
        }
        if ctx != 2 && !matches!(b.last(), Some(S::Rec(_))) && self.rng.chance(if depth == 0 { 9 } else { 6 }, 10) {
            let fins = self.fin_fns.clone();
            let mut body = self.finish_body(&fins, 4);
            if ctx == 1 {
                // recall sentinel
                body.insert(0, S::Eff { kind: 'e', id: SENTINEL, fail: false, compute: false });
            }
            b.push(S::Fin(body));
        }
        b
    }
}

fn gen_prog(rng: &mut Rng, dbg_in_finish: bool) -> Prog {
    let nf = rng.below(5) as usize;
    let nrecalls = rng.below(3) as usize;
    let mut g = Gen { rng, id: 0, nrecalls, pure_fns: vec![], fin_fns: vec![], dbg_in_finish };
    let mut fns = vec![];
    for i in 0..nf {
        if g.rng.chance(1, 2) {
            // a finish function may call only the previous finish function (no diamonds: a
            // function is never entered twice with the same key argument)
            let callable: Vec<usize> = g.fin_fns.last().copied().into_iter().collect();
            let body = g.finish_body(&callable, 4);
            fns.push(FnDef { finish: true, body });
            g.fin_fns.push(i);
        } else {
            let callable = g.pure_fns.clone();
            let mut body = g.plain_block(2, 1, &callable);
            body.push(S::Ret);
            fns.push(FnDef { finish: false, body });
            g.pure_fns.push(i);
        }
    }
    let pure = g.pure_fns.clone();
    let recalls = (0..nrecalls).map(|_| g.tail_block(1, 1, &pure)).collect();
    let policy = g.tail_block(0, 2, &pure);
    Prog { fns, recalls, policy }
}

/// one misplaced statement; returns a description
fn mutate(rng: &mut Rng, p: &mut Prog) -> &'static str {
    fn first_fin(b: &mut Vec<S>) -> Option<&mut Vec<S>> {
        for s in b.iter_mut() {
            match s {
                S::Fin(body) => return Some(body),
                S::Mat { arms, .. } | S::If { arms, .. } => {
                    for a in arms.iter_mut() {
                        if let Some(x) = first_fin(a) {
                            return Some(x);
                        }
                    }
                }
                _ => {}
            }
        }
        None
    }
    let fin_fn = p.fns.iter().position(|f| f.finish);
    let pure_fn = p.fns.iter().position(|f| !f.finish);
    for _ in 0..20 {
        match rng.below(16) {
            0 => {
                p.policy.insert(0, S::Eff { kind: ['c', 'u', 'd', 'e'][rng.below(4) as usize], id: 900, fail: false, compute: false });
                return "effect statement in policy body";
            }
            1 if !p.recalls.is_empty() => {
                p.recalls[0].insert(0, S::Eff { kind: 'e', id: 901, fail: false, compute: false });
                return "emit in recall body outside finish";
            }
            2 => {
                if let Some(i) = pure_fn {
                    p.fns[i].body.insert(0, S::Eff { kind: 'c', id: 902, fail: false, compute: false });
                    return "create in pure function";
                }
            }
            3 => {
                if let Some(f) = first_fin(&mut p.policy) {
                    f.push(S::Let(E::Simple));
                    return "let inside finish";
                }
            }
            4 => {
                if let Some(f) = first_fin(&mut p.policy) {
                    f.push(S::Chk { id: 903, els: E::MayPanic { id: 904, forced: true } });
                    return "check inside finish";
                }
            }
            5 => {
                if let Some(f) = first_fin(&mut p.policy) {
                    f.push(S::Fin(vec![]));
                    return "finish inside finish";
                }
            }
            6 => {
                if let Some(pos) = p.policy.iter().position(|s| matches!(s, S::Fin(_))) {
                    p.policy.insert(pos + 1, S::Let(E::Simple));
                    return "finish not last";
                }
            }
            7 => {
                if let Some(i) = pure_fn {
                    p.fns[i].body.push(S::Fin(vec![]));
                    return "finish in pure function";
                }
            }
            8 => {
                if let (Some(i), Some(f)) = (pure_fn, first_fin(&mut p.policy)) {
                    f.push(S::Call { f: i, id: 905 });
                    return "pure function called as a statement in finish";
                }
            }
            9 => {
                if let Some(i) = fin_fn {
                    p.policy.insert(0, S::Call { f: i, id: 906 });
                    return "finish function called outside finish";
                }
            }
            10 => {
                if let Some(i) = fin_fn {
                    p.policy.insert(0, S::Let(E::Call { f: i, id: 907 }));
                    return "finish function used in an expression";
                }
            }
            11 if !p.recalls.is_empty() => {
                p.recalls[0].insert(0, S::Rec(0));
                return "recall statement inside a recall block";
            }
            12 if !p.recalls.is_empty() => {
                if let Some(i) = pure_fn {
                    p.fns[i].body.insert(0, S::Chk { id: 908, els: E::Recall(0) });
                    return "recall expression in a pure function";
                }
            }
            13 => {
                if let Some(f) = first_fin(&mut p.policy) {
                    f.push(S::Eff { kind: 'e', id: 909, fail: false, compute: true });
                    return "computed operand in finish";
                }
            }
            14 => {
                p.policy.insert(0, S::Ret);
                return "return in policy body";
            }
            15 => {
                p.policy.insert(0, S::Map(vec![]));
                return "map in policy body";
            }
            _ => {}
        }
    }
    p.policy.insert(0, S::Eff { kind: 'e', id: 910, fail: false, compute: false });
    "effect statement in policy body"
}

// ------------------------------------------------------------------ static oracle on the module

fn finish_only_violations(m: &Module, p: &Prog) -> Vec<String> {
    let ModuleData::V0(m) = &m.data;
    // instruction ranges of finish functions
    let mut starts: Vec<usize> = m.labels.values().copied().collect();
    starts.sort();
    let mut fin_ranges = vec![];
    for (l, addr) in &m.labels {
        if l.ltype == LabelType::Function {
            if let Some(i) = l.name.as_str().strip_prefix("fn").and_then(|s| s.parse::<usize>().ok()) {
                if p.fns.get(i).map(|f| f.finish).unwrap_or(false) {
                    let end = starts.iter().copied().find(|s| *s > *addr).unwrap_or(m.progmem.len());
                    fin_ranges.push(*addr..end);
                }
            }
        }
    }
    let mut bad = vec![];
    let mut in_finish = false;
    for (i, ins) in m.progmem.iter().enumerate() {
        match ins {
            Instruction::Meta(Meta::Finish(true)) => in_finish = true,
            Instruction::Exit(r) => {
                // `debug_assert` compiles to `Branch(i+1); Exit(Panic)`: not the end of a region
                let dbg = *r == ExitReason::Panic
                    && i > 0
                    && matches!(&m.progmem[i - 1], Instruction::Branch(Target::Resolved(t)) if *t == i + 1);
                if !dbg {
                    in_finish = false;
                }
            }
            Instruction::Create | Instruction::Update | Instruction::Delete | Instruction::Emit => {
                if !in_finish && !fin_ranges.iter().any(|r| r.contains(&i)) {
                    bad.push(format!("{ins} at {i} outside any finish region"));
                }
            }
            _ => {}
        }
    }
    bad
}

/// does the program contain a `debug_assert` inside a finish block or a finish function?
fn dbg_in_finish(p: &Prog) -> bool {
    fn has_dbg(b: &[S]) -> bool {
        b.iter().any(|s| matches!(s, S::Dbg { .. }))
    }
    fn scan(b: &[S]) -> bool {
        b.iter().any(|s| match s {
            S::Fin(body) => has_dbg(body),
            S::Mat { arms, .. } | S::If { arms, .. } => arms.iter().any(|a| scan(a)),
            _ => false,
        })
    }
    p.fns.iter().any(|f| f.finish && has_dbg(&f.body)) || scan(&p.policy) || p.recalls.iter().any(|r| scan(r))
}

// ------------------------------------------------------------------ running

fn default_value(ty: &str) -> Value {
    match ty {
        "bool" => Value::Bool(true),
        "int" => Value::Int(0),
        _ => Value::Option(Some(Box::new(Value::Int(1)))),
    }
}

fn diff(before: &[Vec<RawFact>], after: &[Vec<RawFact>]) -> (usize, usize, usize) {
    let (mut added, mut removed, mut changed) = (0, 0, 0);
    for (b, a) in before.iter().zip(after) {
        let bm: BTreeMap<_, _> = b.iter().cloned().collect();
        let am: BTreeMap<_, _> = a.iter().cloned().collect();
        for (k, v) in &am {
            match bm.get(k) {
                None => added += 1,
                Some(w) if w != v => changed += 1,
                _ => {}
            }
        }
        removed += bm.keys().filter(|k| !am.contains_key(*k)).count();
    }
    (added, removed, changed)
}

fn run_program(rec: &mut Recorder, p: &Prog, expect_reject: Option<&'static str>, rng: &mut Rng, runs: usize) {
    let (src, fields, static_pool) = render(p);
    let compiled = pk::compile(&src, true);
    let real_accept = matches!(compiled, pk::Compiled::Ok(_));
    rec.line(prog_line(p, false), if real_accept { "accept" } else { "reject" });
    match (&compiled, expect_reject) {
        (pk::Compiled::Ok(_), Some(why)) => {
            rec.oracle_fail(format!("compiler ACCEPTED a policy with a misplaced statement ({why})"));
            rec.sample(src.clone());
        }
        (pk::Compiled::ParseError(e), _) => {
            rec.oracle_fail(format!("generated policy does not parse: {}", e.lines().take(5).collect::<Vec<_>>().join(" | ")));
            rec.sample(src.clone());
            return;
        }
        (pk::Compiled::Rejected(e), None) => {
            rec.oracle_fail(format!("compiler rejected a valid policy: {}", e.lines().take(6).collect::<Vec<_>>().join(" | ")));
            rec.sample(src.clone());
            return;
        }
        (pk::Compiled::Rejected(e), Some(why)) => {
            rec.count(&format!("rejected:{why}"));
            let first = e.lines().next().unwrap_or("").to_string();
            rec.count(&format!("reject-msg:{}", first.chars().take(60).collect::<String>()));
            return;
        }
        _ => {}
    }
    let pk::Compiled::Ok(module) = compiled else { return };
    if expect_reject.is_some() {
        return;
    }
    for v in finish_only_violations(&module, p) {
        rec.oracle_fail(format!("finish_only: {v}"));
    }
    if rec.cases() <= 2 {
        rec.sample(src.clone());
    }
    let mut w = match pk::World::new(module) {
        Ok(w) => w,
        Err(e) => {
            rec.oracle_fail(format!("world: {e}"));
            return;
        }
    };
    // walks first (they determine which pool facts must exist)
    let mut walks = vec![];
    let mut pool = static_pool.clone();
    for _ in 0..runs {
        let mut wk = Walk { p, rng, ds: vec![], vals: BTreeMap::new(), next_n: 0, pool: BTreeSet::new(), depth: 0 };
        let _ = wk.block(Frame { args: None, fin: None }, &p.policy, false);
        pool.extend(wk.pool.iter().cloned());
        walks.push((wk.ds, wk.vals));
    }
    for (fam, k) in &pool {
        let f: i64 = fam[1..].parse().unwrap();
        let (r, _) = w.act("pre", &[Value::Int(f), Value::Int(*k)]);
        if let Err(e) = r {
            rec.oracle_fail(format!("setup pre({fam},{k}) failed: {e}"));
            return;
        }
    }
    let names: Vec<String> = (0..NFAM).flat_map(|i| [format!("C{i}"), format!("P{i}")]).collect();
    let before: Vec<Vec<RawFact>> = names.iter().map(|n| w.facts(n)).collect();
    for (ds, vals) in walks {
        let args: Vec<Value> = fields.iter().map(|(n, t)| vals.get(n).cloned().unwrap_or_else(|| default_value(t))).collect();
        let req = format!("run 100000 {}", ds.iter().map(|d| d.to_string()).collect::<Vec<_>>().join(" "));
        let req = req.trim_end().to_string();
        let out = vh::catch(std::panic::AssertUnwindSafe(|| w.act_direct("t", &args, &names)));
        let (res, sink, after) = match out {
            Ok(x) => x,
            Err(pmsg) => {
                rec.panics.push(format!("{req}: {pmsg}"));
                rec.line(req, "host-panic");
                continue;
            }
        };
        let outcome = match &res {
            Ok(()) => "normal",
            Err(PolicyError::Rejected) => "check",
            Err(PolicyError::Panic) => "panic",
            Err(_) => "err",
        };
        let effects = sink.effects();
        let flags: String = effects.iter().map(|e| if e.recalled { '1' } else { '0' }).collect();
        let (added, removed, changed) = diff(&before, &after);
        rec.line(req.clone(), format!("{outcome} eff={flags} c={added} u={changed} d={removed}"));
        rec.count(&format!("outcome:{outcome}"));
        if !effects.is_empty() || added + removed + changed > 0 {
            rec.count(&format!("with-side-effects:{outcome}"));
        }
        // ---- S-level oracle: the property
        let touched = added + removed + changed > 0 || !effects.is_empty();
        let sentinel = effects.iter().any(|e| e.name.as_str() == "RecallRan");
        match outcome {
            "panic" => {
                if touched {
                    // known finding (known_findings.json, key `debug_assert-in-finish`): in debug mode
                    // `debug_assert` is legal inside finish code and can panic after writes/effects
                    let marker = if dbg_in_finish(p) { "debug_assert-in-finish: " } else { "" };
                    rec.oracle_fail(format!(
                        "{marker}policy ended in Panic but changed facts (+{added} ~{changed} -{removed}) / emitted {} effect(s)",
                        effects.len()
                    ));
                }
            }
            "check" => {
                if !sentinel && touched {
                    rec.oracle_fail(format!(
                        "policy ended in Check without running a recall finish block but changed facts (+{added} ~{changed} -{removed}) / emitted {} effect(s)",
                        effects.len()
                    ));
                }
                if effects.iter().any(|e| !e.recalled) {
                    rec.oracle_fail("an effect emitted during recall handling is not marked recalled");
                }
            }
            "normal" => {
                if effects.iter().any(|e| e.recalled) {
                    rec.oracle_fail("an effect of an accepted command is marked recalled");
                }
            }
            _ => {}
        }
    }
}

fn main() {
    if let Ok(f) = std::env::var("C30_SRC") {
        let src = std::fs::read_to_string(f).unwrap();
        match pk::compile(&src, true) {
            pk::Compiled::Ok(_) => println!("OK"),
            pk::Compiled::ParseError(e) => println!("PARSE {e}"),
            pk::Compiled::Rejected(e) => println!("REJECT {e}"),
        }
        return;
    }
    let args = Args::parse();
    vh::quiet_panics();
    let mut rec = Recorder::new(&args.out);
    if args.replay.is_some() {
        // programs are regenerated from (seed, case index); a replay file stores `seed <n> case <k>`
        let lines = vh::read_replay_input(args.replay.as_ref().unwrap());
        let mut it = lines.iter().filter(|l| l.starts_with("gen "));
        if let Some(l) = it.next() {
            let t: Vec<u64> = l.split(' ').skip(1).filter_map(|x| x.parse().ok()).collect();
            if t.len() == 3 {
                let mut rng = Rng::new(t[0]);
                for _ in 0..t[1] {
                    let _ = rng.fork();
                }
                let mut crng = rng.fork();
                rec.begin_case();
                one_case(&mut rec, &mut crng, t[2] != 0, t[0], t[1]);
            }
        }
        rec.finish(args.seed, &args.tier);
        return;
    }
    let mut rng = Rng::new(args.seed);
    let cases = args.budget(250, 4000);
    let dbg = std::env::var("C30_DBG_IN_FINISH").map(|v| v != "0").unwrap_or(true);
    for k in 0..cases {
        let mut crng = rng.fork();
        rec.begin_case();
        one_case(&mut rec, &mut crng, dbg, args.seed, k as u64);
    }
    rec.finish(args.seed, &args.tier);
}

fn one_case(rec: &mut Recorder, rng: &mut Rng, dbg: bool, seed: u64, k: u64) {
    // replay handle: the case is a pure function of (seed, k, dbg)
    rec.line(format!("gen {seed} {k} {}", dbg as u8), "bad-op");
    let dbg_in_finish = dbg && rng.chance(1, 6);
    let mut p = gen_prog(rng, dbg_in_finish);
    let misplaced = rng.chance(1, 3);
    let why = if misplaced { Some(mutate(rng, &mut p)) } else { None };
    rec.count(if misplaced { "case:misplaced" } else { "case:valid" });
    let line = prog_line(&p, false);
    if line.len() > 60 {
        rec.nontrivial(fnv(&line));
    }
    run_program(rec, &p, why, rng, 6);
}
