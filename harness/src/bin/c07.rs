//! C07 — actions are atomic.
//! Audit-policy actions publishing k = 0..3 commands and then succeeding or failing (the failing
//! command writes facts and emits effects first), on single- and multi-head graphs, interleaved
//! with transactions; before/after snapshots of heads, facts, stamp, committed set and the sink.

#[path = "../tk.rs"]
mod tk;

use vh::gk::DagParams;

fn main() {
    tk::harness_main("c07", 160, 2500, |rng, big| tk::Profile {
        dag: DagParams {
            max_nodes: if big && rng.chance(1, 8) { 30 } else { rng.range(2, 12) as usize },
            prios: rng.range(1, 3) as u32,
            finalize_pct: *rng.pick(&[0, 0, 8]),
            check_pct: 0,
            // few merges, many branches: commits leave multi-head graphs for the actions to collapse
            merge_pct: *rng.pick(&[0, 5, 15]),
            branch_pct: *rng.pick(&[30, 50, 70]),
            allow_parallel_finalize: rng.chance(1, 10),
            ..DagParams::default()
        },
        reject_pct: *rng.pick(&[0, 5]),
        slots: *rng.pick(&[1, 2]),
        batch_max: *rng.pick(&[2, 4]),
        flush_pct: 5,
        commit_pct: *rng.pick(&[30, 60]),
        dup_pct: 0,
        dup_near_pct: 5,
        noncausal_pct: 0,
        action_pct: *rng.pick(&[30, 60]),
        action_fail_pct: *rng.pick(&[30, 50]),
        tips_pct: 10,
        ..tk::Profile::default()
    });
}
