//! C31 — The policy compiler CLI honours validation.
//!
//! Builds the REAL `policy-compiler` binary from `$VERIF_REPO` (default /repo), runs it on
//! generated policy documents (valid, failing validation, uncompilable, unparsable, mutated)
//! x {default, --no-validate} (+ --stub-ffi, explicit --out, unwritable output, missing input),
//! and compares (exit status, output file presence) with the Lean model `cli` fed the library's
//! own in-process verdicts (`parse_policy_document`, `Compiler::compile`, `validate`).
//!
//! Request lines (one case = one document):
//!   `doc <hex>` | `nofile`                                   -> `ok`
//!   `cli <read> <parse> <compile> <vret> <noval> <stub> <create>` -> `exit=<code> wrote=<0|1>`
//!
//!   `vparts <b…>` (per-label verdicts of the current document's module)  -> `ret=<0|1>`
//!
//! S-level oracle (independent of the model; polarity of `validate` as asserted by the library's
//! own tests: `true` = a trace failed):
//!   O1  exit == 0 and a module was written  =>  parsed, compiled, and (--no-validate or passed)
//!   O2  parsed, compiled, failed validation, no --no-validate  =>  exit == FAILURE, nothing written
//!   O3  the real `validate` returns true iff some label of the module fails: checked on "anchor"
//!       documents (functions from the library's own tests, the failing one first / in the middle /
//!       last in label order, or none) and on "composed" documents (generated independent functions,
//!       each one's verdict = the real `validate` on it alone); the real CLI runs on them as well

use std::{
    fs,
    path::{Path, PathBuf},
    process::Command,
};

use aranya_policy_compiler::{validate::validate, Compiler};
use aranya_policy_lang::lang::parse_policy_document;
use vh::{fnv, Args, Recorder, Rng};

// ------------------------------------------------------------------ the real binary

fn build_cli() -> PathBuf {
    let repo = std::env::var("VERIF_REPO").unwrap_or_else(|_| "/repo".into());
    let base = std::env::var("CARGO_TARGET_DIR").unwrap_or_else(|_| "/verif/.cache/target".into());
    let tdir = Path::new(&base).join("c31-cli");
    let out = Command::new("cargo")
        .args(["build", "--offline", "-p", "aranya-policy-compiler", "--bin", "policy-compiler"])
        .current_dir(&repo)
        .env("CARGO_TARGET_DIR", &tdir)
        .env_remove("RUSTFLAGS")
        .env_remove("CARGO_ENCODED_RUSTFLAGS")
        .output()
        .expect("spawn cargo");
    if !out.status.success() {
        eprintln!(
            "c31: cannot build policy-compiler from {repo}:\n{}",
            String::from_utf8_lossy(&out.stderr)
        );
        std::process::exit(3);
    }
    let bin = tdir.join("debug").join("policy-compiler");
    assert!(bin.exists(), "policy-compiler binary missing at {}", bin.display());
    bin
}

// ------------------------------------------------------------------ document generator

#[derive(Clone, Copy, PartialEq)]
enum Ctx {
    Function,
    Action,
    Policy,
}

struct DocGen<'a> {
    rng: &'a mut Rng,
    var: u32,
}

impl<'a> DocGen<'a> {
    fn int_expr(&mut self, vars: &[String]) -> String {
        if !vars.is_empty() && self.rng.chance(1, 2) {
            self.rng.pick(vars).clone()
        } else {
            self.rng.below(20).to_string()
        }
    }
    fn bool_expr(&mut self, vars: &[String]) -> String {
        match self.rng.below(5) {
            0 => "true".into(),
            1 => "false".into(),
            2 => format!("{} > {}", self.int_expr(vars), self.rng.below(9)),
            3 => format!("{} == {}", self.int_expr(vars), self.rng.below(9)),
            _ => format!("!({} > {})", self.int_expr(vars), self.rng.below(9)),
        }
    }
    fn terminal(&mut self, ctx: Ctx, vars: &[String], ind: &str) -> String {
        match ctx {
            Ctx::Function => format!("{ind}return {}\n", self.int_expr(vars)),
            Ctx::Action => format!("{ind}publish Foo {{ a: {} }}\n", self.int_expr(vars)),
            Ctx::Policy => format!("{ind}finish {{}}\n"),
        }
    }
    /// A random statement block.  `p_term`: chance (in 1/8) that a leaf ends with the context's
    /// terminal statement (return / publish / finish) — the generator does not track whether
    /// every path has one; the library's verdicts are the reference.
    fn block(&mut self, ctx: Ctx, depth: u32, vars: &mut Vec<String>, ind: &str, p_term: u64) -> String {
        let mut s = String::new();
        let n = self.rng.below(3);
        let scope_mark = vars.len();
        for _ in 0..n {
            match self.rng.below(6) {
                0 | 1 => {
                    self.var += 1;
                    let v = format!("v{}", self.var);
                    s.push_str(&format!("{ind}let {v} = {}\n", self.int_expr(vars)));
                    vars.push(v);
                }
                2 => s.push_str(&format!("{ind}check {} else todo()\n", self.bool_expr(vars))),
                3 | 4 if depth > 0 => {
                    let ind2 = format!("{ind}    ");
                    s.push_str(&format!("{ind}if {} {{\n", self.bool_expr(vars)));
                    s.push_str(&self.block(ctx, depth - 1, vars, &ind2, p_term));
                    s.push_str(&format!("{ind}}}\n"));
                    if self.rng.chance(2, 3) {
                        if self.rng.chance(1, 4) {
                            s.push_str(&format!("{ind}else if {} {{\n", self.bool_expr(vars)));
                            s.push_str(&self.block(ctx, depth - 1, vars, &ind2, p_term));
                            s.push_str(&format!("{ind}}}\n"));
                        }
                        s.push_str(&format!("{ind}else {{\n"));
                        s.push_str(&self.block(ctx, depth - 1, vars, &ind2, p_term));
                        s.push_str(&format!("{ind}}}\n"));
                    }
                }
                5 if depth > 0 => {
                    let ind2 = format!("{ind}        ");
                    let scrut = self.int_expr(vars);
                    s.push_str(&format!("{ind}match {scrut} {{\n"));
                    let arms = self.rng.range(1, 2);
                    for k in 0..arms {
                        s.push_str(&format!("{ind}    {k} => {{\n"));
                        s.push_str(&self.block(ctx, depth - 1, vars, &ind2, p_term));
                        s.push_str(&format!("{ind}    }}\n"));
                    }
                    s.push_str(&format!("{ind}    _ => {{\n"));
                    s.push_str(&self.block(ctx, depth - 1, vars, &ind2, p_term));
                    s.push_str(&format!("{ind}    }}\n{ind}}}\n"));
                }
                _ => {}
            }
        }
        if self.rng.below(8) < p_term {
            s.push_str(&self.terminal(ctx, vars, ind));
        }
        vars.truncate(scope_mark);
        s
    }

    fn function(&mut self, name: &str, p_term: u64, force_final: bool) -> String {
        let mut vars = vec!["n".to_string()];
        let mut s = format!("function {name}(n int) int {{\n");
        s.push_str(&self.block(Ctx::Function, 2, &mut vars, "    ", p_term));
        if force_final {
            let mut vars = vec!["n".to_string()];
            s.push_str(&self.terminal(Ctx::Function, &mut vars, "    "));
        }
        s.push_str("}\n");
        s
    }
    fn action(&mut self, name: &str, p_term: u64, force_final: bool) -> String {
        let mut vars = vec!["n".to_string()];
        let mut s = format!("action {name}(n int) {{\n");
        s.push_str(&self.block(Ctx::Action, 2, &mut vars, "    ", p_term));
        if force_final {
            s.push_str("    publish Foo { a: n }\n");
        }
        s.push_str("}\n");
        s
    }
    fn command(&mut self, name: &str, p_term: u64, force_final: bool) -> String {
        let mut s = format!(
            "command {name} {{\n    fields {{\n        a int\n    }}\n    seal {{ return todo() }}\n    open {{ return todo() }}\n    policy {{\n"
        );
        if force_final {
            // straight-line policy block: always reaches finish
            let mut vars: Vec<String> = vec![];
            if self.rng.chance(1, 2) {
                s.push_str(&format!("        check {} else todo()\n", self.bool_expr(&vars)));
            }
            s.push_str(&self.terminal(Ctx::Policy, &mut vars, "        "));
        } else {
            let mut vars: Vec<String> = vec![];
            s.push_str(&self.block(Ctx::Policy, 2, &mut vars, "        ", p_term));
        }
        s.push_str("    }\n");
        if self.rng.chance(1, 2) {
            s.push_str("    recall default() {\n        finish {}\n    }\n");
        }
        s.push_str("}\n");
        s
    }

    /// policy source text; `sloppy` = leaves often lack a terminal (likely to fail validation)
    fn policy(&mut self, sloppy: bool) -> String {
        let mut chunks = vec![];
        let want_cmd = self.rng.chance(2, 3);
        if want_cmd {
            let force = !sloppy || self.rng.chance(1, 2);
            chunks.push(self.command("Foo", 6, force));
        }
        let nf = self.rng.range(if want_cmd { 0 } else { 1 }, 3);
        for k in 0..nf {
            let (p, force) = if sloppy { (self.rng.range(2, 7), self.rng.chance(1, 3)) } else { (7, true) };
            chunks.push(self.function(&format!("f{k}"), p, force));
        }
        if want_cmd {
            let na = self.rng.range(0, 2);
            for k in 0..na {
                let (p, force) = if sloppy { (self.rng.range(2, 7), self.rng.chance(1, 3)) } else { (7, true) };
                chunks.push(self.action(&format!("act{k}"), p, force));
            }
        }
        chunks.join("\n")
    }
}

fn wrap_doc(rng: &mut Rng, src: &str) -> String {
    // split the source over one or two ```policy blocks with prose in between
    let mut d = String::from("---\npolicy-version: 2\n---\n\n# Generated policy\n\nSome prose.\n\n");
    let parts: Vec<&str> = src.split("\n\n").collect();
    if parts.len() > 1 && rng.chance(1, 2) {
        let k = rng.range(1, parts.len() as u64 - 1) as usize;
        d.push_str(&format!("```policy\n{}\n```\n\nMore prose, and a non-policy block:\n\n```rust\nfn x() {{}}\n```\n\n```policy\n{}\n```\n",
            parts[..k].join("\n\n"), parts[k..].join("\n\n")));
    } else {
        d.push_str(&format!("```policy\n{src}\n```\n"));
    }
    d
}

/// make a (probably) uncompilable document out of a good source
fn break_compile(rng: &mut Rng, src: &str) -> String {
    match rng.below(7) {
        0 => format!("{src}\nfunction bad_ret(n int) int {{\n    return true\n}}\n"),
        1 => format!("{src}\nfunction undef_var(n int) int {{\n    return zz9\n}}\n"),
        2 => format!("{src}\nfunction undef_fn(n int) int {{\n    return nope(n)\n}}\n"),
        3 => format!("{src}\nfunction dup(n int) int {{\n    return 1\n}}\nfunction dup(n int) int {{\n    return 2\n}}\n"),
        4 => format!("{src}\naction pub_unknown() {{\n    publish Bar {{ a: 1 }}\n}}\n"),
        5 => format!("{src}\nfunction bad_let(n int) int {{\n    let n = 3\n    return n\n}}\n"),
        _ => format!("{src}\nfunction bad_check(n int) int {{\n    check n else todo()\n    return n\n}}\n"),
    }
}

/// make a (probably) unparsable document
fn break_parse(rng: &mut Rng, doc: &str) -> String {
    match rng.below(9) {
        0 => doc.replacen("---\npolicy-version: 2\n---\n", "", 1),
        1 => doc.replacen("policy-version: 2", "policy-version: 3", 1),
        2 => doc.replace("```policy", "```text"),
        3 => String::new(),
        4 => {
            // drop one closing brace
            match doc.rfind('}') {
                Some(i) => format!("{}{}", &doc[..i], &doc[i + 1..]),
                None => doc.to_string(),
            }
        }
        5 => doc.replacen("function", "functoin", 1).replacen("command", "comand", 1),
        6 => doc.replacen("{\n", "{ @@ \n", 1),
        7 => doc.replacen("policy-version: 2", "policy-version: [", 1),
        _ => {
            let cut = rng.below(doc.len() as u64 + 1) as usize;
            let mut c = cut;
            while !doc.is_char_boundary(c) {
                c -= 1;
            }
            doc[..c].to_string()
        }
    }
}

/// token-level mutation of a good document (delete / duplicate / swap / replace a token)
fn mutate(rng: &mut Rng, doc: &str) -> String {
    let mut toks: Vec<String> = doc.split_inclusive(|c: char| c == ' ' || c == '\n').map(|s| s.to_string()).collect();
    let n = rng.range(1, 3);
    for _ in 0..n {
        if toks.is_empty() {
            break;
        }
        let i = rng.below(toks.len() as u64) as usize;
        match rng.below(4) {
            0 => {
                toks.remove(i);
            }
            1 => {
                let t = toks[i].clone();
                toks.insert(i, t);
            }
            2 => {
                let j = rng.below(toks.len() as u64) as usize;
                toks.swap(i, j);
            }
            _ => {
                let rep = *rng.pick(&["int ", "bool ", "{ ", "} ", "return ", "true ", "0 ", "finish ", "publish ", "n ", "=> "]);
                toks[i] = rep.to_string();
            }
        }
    }
    toks.concat()
}

// ------------------------------------------------------------------ running one case

#[derive(Clone, Copy)]
struct Flags {
    /// input file exists
    read: bool,
    noval: bool,
    stub: bool,
    /// output path is creatable
    create: bool,
    /// pass the output path with --out (else: default `<input>.pmod`)
    explicit_out: bool,
}

struct Verdict {
    parse: bool,
    compile: bool,
    vret: bool,
}

fn library_verdict(doc: &str, stub: bool) -> Result<Verdict, String> {
    let doc = doc.to_string();
    vh::catch(move || {
        let ast = match parse_policy_document(&doc) {
            Ok(a) => a,
            Err(_) => return Verdict { parse: false, compile: false, vret: false },
        };
        let module = match Compiler::new(&ast).stub_ffi(stub).compile() {
            Ok(m) => m,
            Err(_) => return Verdict { parse: true, compile: false, vret: false },
        };
        Verdict { parse: true, compile: true, vret: validate(&module) }
    })
}

struct Env {
    bin: PathBuf,
    dir: PathBuf,
}

/// returns (exit code as text, wrote)
fn run_binary(env: &Env, id: usize, doc: Option<&str>, f: Flags) -> (String, bool) {
    let d = env.dir.join(format!("r{id}"));
    let _ = fs::remove_dir_all(&d);
    fs::create_dir_all(&d).unwrap();
    let input = d.join("policy.md");
    if let (Some(doc), true) = (doc, f.read) {
        fs::write(&input, doc).unwrap();
    }
    let out_path = if !f.create {
        d.join("no-such-dir").join("out.pmod")
    } else if f.explicit_out {
        d.join("explicit.bin")
    } else {
        d.join("policy.pmod")
    };
    let mut cmd = Command::new(&env.bin);
    cmd.arg(&input);
    if f.explicit_out || !f.create {
        cmd.arg("--out").arg(&out_path);
    }
    if f.noval {
        cmd.arg("--no-validate");
    }
    if f.stub {
        cmd.arg("--stub-ffi");
    }
    let o = cmd.output().expect("run policy-compiler");
    let code = match o.status.code() {
        Some(c) => c.to_string(),
        None => "signal".into(),
    };
    // any regular non-empty file other than the input counts as "a module was written"
    let mut wrote = false;
    if let Ok(rd) = fs::read_dir(&d) {
        for e in rd.flatten() {
            let p = e.path();
            if p != input && p.is_file() && fs::metadata(&p).map(|m| m.len() > 0).unwrap_or(false) {
                wrote = true;
            }
        }
    }
    let _ = fs::remove_dir_all(&d);
    (code, wrote)
}

fn b(x: bool) -> u8 {
    x as u8
}

struct Case {
    doc: Option<String>,
    flags: Vec<Flags>,
    class: &'static str,
    /// per-label verdicts (in label order, `true` = that label fails validation) of the module the
    /// document compiles to: the `vparts` request
    vparts: Option<Vec<bool>>,
    /// where `vparts` come from: "anchor" = fixed by construction from the library's own test
    /// policies, "composed" = the real `validate` on each definition compiled alone
    vsource: &'static str,
}

/// what one invocation produced: the library's in-process verdict (Err = it panicked) and the
/// real binary's (exit code, wrote)
struct RunResult {
    verdict: Result<Verdict, String>,
    code: String,
    wrote: bool,
}

fn compute_one(env: &Env, id: usize, doc: Option<&str>, f: Flags) -> RunResult {
    let verdict = match doc {
        Some(d) if f.read => library_verdict(d, f.stub),
        _ => Ok(Verdict { parse: false, compile: false, vret: false }),
    };
    let (code, wrote) = run_binary(env, id, doc, f);
    RunResult { verdict, code, wrote }
}

/// run all invocations of all cases on a few worker threads (process spawns dominate)
fn compute_all(env: &Env, cases: &[Case]) -> Vec<Vec<RunResult>> {
    let jobs: Vec<(usize, usize)> = cases.iter().enumerate().flat_map(|(i, c)| (0..c.flags.len()).map(move |j| (i, j))).collect();
    let next = std::sync::atomic::AtomicUsize::new(0);
    let results: Vec<std::sync::Mutex<Option<RunResult>>> = jobs.iter().map(|_| std::sync::Mutex::new(None)).collect();
    let workers = std::thread::available_parallelism().map(|n| n.get()).unwrap_or(4).clamp(2, 8);
    std::thread::scope(|s| {
        for _ in 0..workers {
            s.spawn(|| loop {
                let k = next.fetch_add(1, std::sync::atomic::Ordering::SeqCst);
                if k >= jobs.len() {
                    break;
                }
                let (i, j) = jobs[k];
                let r = compute_one(env, k, cases[i].doc.as_deref(), cases[i].flags[j]);
                *results[k].lock().unwrap() = Some(r);
            });
        }
    });
    let mut out: Vec<Vec<RunResult>> = cases.iter().map(|_| vec![]).collect();
    for (k, (i, _)) in jobs.iter().enumerate() {
        out[*i].push(results[k].lock().unwrap().take().expect("job result"));
    }
    out
}

fn record_one(rec: &mut Recorder, doc: Option<&str>, f: Flags, class: &str, r: RunResult) {
    let RunResult { verdict, code, wrote } = r;
    let v = match verdict {
        Ok(v) => v,
        Err(msg) => {
            // a front-end panic is C27's business (not applicable); the binary cannot exit 0 then
            rec.count("library-front-end-panic");
            rec.notes.push(format!("library panicked in-process on a generated document: {msg}"));
            if code == "0" {
                rec.oracle_fail(format!("library panics in-process ({msg}) but the binary exits 0 (wrote={wrote})"));
            }
            return;
        }
    };
    let req = format!(
        "cli {} {} {} {} {} {} {}",
        b(f.read), b(v.parse), b(v.compile), b(v.vret), b(f.noval), b(f.stub), b(f.create)
    );
    rec.line(req.clone(), format!("exit={code} wrote={}", b(wrote)));

    // ---- distribution
    let stage = if !f.read {
        "unreadable"
    } else if !v.parse {
        "parse-error"
    } else if !v.compile {
        "compile-error"
    } else if v.vret {
        "validation-failed"
    } else {
        "valid"
    };
    rec.count(&format!("verdict:{stage}"));
    rec.count(&format!("class:{class}->{stage}"));
    rec.count(&format!("flags:noval={} stub={} create={} explicit_out={}", b(f.noval), b(f.stub), b(f.create), b(f.explicit_out)));
    rec.count(&format!("real:exit={code} wrote={}", b(wrote)));
    if v.parse {
        rec.nontrivial(fnv(&format!("{}|{req}", doc.unwrap_or(""))));
    }

    // ---- S-level oracle (polarity from the library's tests: validate() == true <=> failed)
    let failed = v.vret;
    if code == "0" && wrote && !(v.parse && v.compile && (f.noval || !failed)) {
        rec.oracle_fail(format!(
            "O1: exit 0 and a module was written although parse={} compile={} validation_failed={} no_validate={}",
            v.parse, v.compile, failed, f.noval
        ));
    }
    if f.read && v.parse && v.compile && failed && !f.noval && (code != "1" || wrote) {
        rec.oracle_fail(format!(
            "O2: policy fails validation (validate() returned true) and --no-validate was not given, but exit={code} wrote={}",
            b(wrote)
        ));
    }
    // not part of the property text (a tool that rejects everything satisfies it); recorded only
    if f.read && f.create && !f.stub && v.parse && v.compile && (f.noval || !failed) && !(code == "0" && wrote) {
        rec.count("note:acceptable-policy-rejected");
        if rec.notes.len() < 3 {
            rec.notes.push(format!("acceptable policy rejected: exit={code} wrote={} (no_validate={})", b(wrote), f.noval));
        }
    }
    if wrote && code != "0" {
        rec.count("note:wrote-but-nonzero-exit");
    }
}

fn record_case(rec: &mut Recorder, c: &Case, results: Vec<RunResult>) {
    rec.begin_case();
    match &c.doc {
        Some(d) => rec.line(format!("doc {}", vh::hex(d.as_bytes())), "ok"),
        None => rec.line("nofile", "ok"),
    }
    if let (Some(parts), Some(d)) = (&c.vparts, &c.doc) {
        record_vparts(rec, d, parts, c.vsource);
    }
    for (f, r) in c.flags.iter().zip(results) {
        record_one(rec, c.doc.as_deref(), *f, c.class, r);
    }
}

/// The real `validate` on a module whose labels are known to pass / fail individually.  S-level
/// oracle (library contract, independent of the model): `validate` returns true exactly when some
/// label fails — whether that label is the first, a middle or the last one in label order.
fn record_vparts(rec: &mut Recorder, doc: &str, parts: &[bool], source: &str) {
    let bits: Vec<String> = parts.iter().map(|b| (*b as u8).to_string()).collect();
    let req = format!("vparts {}", bits.join(" ")).trim_end().to_string();
    let real = match library_verdict(doc, false) {
        Ok(v) if v.parse && v.compile => format!("ret={}", v.vret as u8),
        Ok(v) => format!("ret=none(parse={} compile={})", v.parse, v.compile),
        Err(msg) => format!("ret=panic({})", msg.replace(' ', "_")),
    };
    let want = parts.iter().any(|b| *b);
    let pos = match parts.iter().position(|b| *b) {
        None => "none".to_string(),
        Some(0) if parts.len() > 1 && parts.iter().filter(|b| **b).count() == 1 => "first".to_string(),
        Some(i) if i + 1 == parts.len() && parts.iter().filter(|b| **b).count() == 1 => "last".to_string(),
        Some(_) if parts.iter().filter(|b| **b).count() == 1 => "middle".to_string(),
        Some(_) => "several".to_string(),
    };
    rec.count(&format!("vparts:{source}:failing={pos}:labels={}", parts.len().min(5)));
    if real != format!("ret={}", want as u8) {
        rec.oracle_fail(format!(
            "validate() gave `{real}` for a module with {} labels whose failing label(s): {pos} (per-label verdicts {}; source: {source}); the library contract is true iff some label fails",
            parts.len(),
            bits.join("")
        ));
    }
    rec.nontrivial(fnv(&format!("vparts|{doc}")));
    rec.line(req, real);
}

/// functions taken from the library's own `test_validate_return` (valid / invalid bodies), renamed
const GOOD_BODIES: [&str; 3] = [
    "    return 0\n",
    "    if true {\n    }\n    return 6\n",
    "    if true {\n        return 1\n    }\n    else {\n        return 0\n    }\n",
];
const BAD_BODIES: [&str; 2] = [
    "    if false {\n        return 0\n    }\n",
    "    let n = 0\n    if n > 0 {\n    }\n    else {\n        return 0\n    }\n",
];

/// a document of `n` independent functions whose names sort in the order given; `bad[i]` says
/// whether the i-th label (in label = name order) fails validation
fn anchor_doc(rng: &mut Rng, bad: &[bool]) -> String {
    let mut fns = vec![];
    for (i, b) in bad.iter().enumerate() {
        // names sort by the leading letters: aa…, bb…, …
        let c = (b'a' + i as u8) as char;
        let body = if *b { *rng.pick(&BAD_BODIES) } else { *rng.pick(&GOOD_BODIES) };
        fns.push(format!("function {c}{c}_fn{i}() int {{\n{body}}}\n"));
    }
    // textual order is independent of label order
    rng.shuffle(&mut fns);
    wrap_doc(rng, &fns.join("\n"))
}

fn anchor_cases(rng: &mut Rng, cases: &mut Vec<Case>) {
    let base = Flags { read: true, noval: false, stub: false, create: true, explicit_out: false };
    let mut pats: Vec<Vec<bool>> = vec![
        vec![false],
        vec![true],
        vec![true, false],
        vec![false, true],
        vec![true, false, false],
        vec![false, true, false],
        vec![false, false, true],
        vec![false, false, false],
        vec![true, true, true],
        vec![false, true, false, false, false],
        vec![true, false, false, false],
    ];
    for _ in 0..6 {
        let n = rng.range(2, 6) as usize;
        let k = rng.below(n as u64) as usize;
        pats.push((0..n).map(|i| i == k).collect());
    }
    for p in pats {
        let doc = anchor_doc(rng, &p);
        cases.push(Case { doc: Some(doc), flags: vec![base, Flags { noval: true, ..base }], class: "anchor", vparts: Some(p), vsource: "anchor" });
    }
}

/// generated independent functions; each one's verdict is the real `validate` on it alone
fn composed_case(rng: &mut Rng) -> Option<Case> {
    let base = Flags { read: true, noval: false, stub: false, create: true, explicit_out: false };
    let n = rng.range(2, 4) as usize;
    let mut named: Vec<(String, String)> = vec![];
    for i in 0..n {
        let c = (b'a' + rng.below(26) as u8) as char;
        let name = format!("{c}_g{i}");
        let (p, force) = if rng.chance(1, 2) { (7, true) } else { (rng.range(2, 7), rng.chance(1, 3)) };
        let src = DocGen { rng, var: (i as u32) * 100 }.function(&name, p, force);
        named.push((name, src));
    }
    // label order = name order
    named.sort_by(|a, b| a.0.cmp(&b.0));
    let mut parts = vec![];
    for (_, src) in &named {
        let d = format!("---\npolicy-version: 2\n---\n\n```policy\n{src}\n```\n");
        match library_verdict(&d, false) {
            Ok(v) if v.parse && v.compile => parts.push(v.vret),
            _ => return None,
        }
    }
    let mut srcs: Vec<String> = named.into_iter().map(|x| x.1).collect();
    rng.shuffle(&mut srcs);
    let doc = wrap_doc(rng, &srcs.join("\n"));
    Some(Case { doc: Some(doc), flags: vec![base], class: "composed", vparts: Some(parts), vsource: "composed" })
}

fn flag_set(rng: &mut Rng) -> Vec<Flags> {
    let base = Flags { read: true, noval: false, stub: false, create: true, explicit_out: false };
    let mut v = vec![base, Flags { noval: true, ..base }];
    if rng.chance(1, 4) {
        v.push(Flags { stub: true, noval: rng.chance(1, 2), ..base });
    }
    if rng.chance(1, 4) {
        v.push(Flags { explicit_out: true, noval: rng.chance(1, 2), ..base });
    }
    if rng.chance(1, 8) {
        v.push(Flags { create: false, noval: rng.chance(1, 2), ..base });
    }
    if rng.chance(1, 16) {
        v.push(Flags { read: false, noval: rng.chance(1, 2), ..base });
    }
    v
}

fn main() {
    let args = Args::parse();
    let mut rec = Recorder::new(&args.out);
    let scratch = std::env::var("VERIF_SCRATCH").map(PathBuf::from).unwrap_or_else(|_| std::env::temp_dir());
    let dir = scratch.join(format!("c31-{}", std::process::id()));
    let _ = fs::remove_dir_all(&dir);
    fs::create_dir_all(&dir).unwrap();
    let env = Env { bin: build_cli(), dir: dir.clone() };
    let mut cases: Vec<Case> = vec![];

    if let Some(rp) = &args.replay {
        // request lines: `doc <hex>` / `nofile` start a case; `cli …` lines carry the flags
        // (verdict bits are recomputed from the document).
        for l in vh::read_replay_input(rp) {
            let t: Vec<&str> = l.split(' ').collect();
            match t[0] {
                "doc" if t.len() == 2 => {
                    let bytes = vh::unhex(t[1]).expect("replay: bad hex");
                    let doc = String::from_utf8(bytes).expect("replay: document is not UTF-8");
                    cases.push(Case { doc: Some(doc), flags: vec![], class: "replay", vparts: None, vsource: "replay" });
                }
                "nofile" => cases.push(Case { doc: None, flags: vec![], class: "replay", vparts: None, vsource: "replay" }),
                "vparts" if !cases.is_empty() => {
                    cases.last_mut().unwrap().vparts = Some(t[1..].iter().map(|b| *b == "1").collect());
                }
                "cli" if t.len() == 8 && !cases.is_empty() => {
                    let bit = |i: usize| t[i] == "1";
                    let c = cases.last_mut().unwrap();
                    c.flags.push(Flags { read: bit(1) && c.doc.is_some(), noval: bit(5), stub: bit(6), create: bit(7), explicit_out: false });
                }
                _ => rec.notes.push(format!("replay: ignored line `{}`", &l[..l.len().min(40)])),
            }
        }
    } else {
        let mut rng = Rng::new(args.seed);
        let n = args.budget(200, 2500);
        for _ in 0..n {
            let mut r = rng.fork();
            let class = match r.below(10) {
                0 | 1 | 2 => "valid",
                3 | 4 | 5 => "sloppy",
                6 => "uncompilable",
                7 => "unparsable",
                8 => "mutated",
                _ => "special",
            };
            let sloppy = class == "sloppy" || (class != "valid" && r.chance(1, 3));
            let src = DocGen { rng: &mut r, var: 0 }.policy(sloppy);
            let flags = flag_set(&mut r);
            let doc: Option<String> = match class {
                "valid" | "sloppy" => Some(wrap_doc(&mut r, &src)),
                "uncompilable" => {
                    let s = break_compile(&mut r, &src);
                    Some(wrap_doc(&mut r, &s))
                }
                "unparsable" => {
                    let d = wrap_doc(&mut r, &src);
                    Some(break_parse(&mut r, &d))
                }
                "mutated" => {
                    let d = wrap_doc(&mut r, &src);
                    Some(mutate(&mut r, &d))
                }
                _ => match r.below(4) {
                    0 => None,
                    1 => Some(String::from_utf8_lossy(&r.bytes(64)).into_owned()),
                    2 => Some("---\npolicy-version: 2\n---\n\n```policy\n```\n".to_string()),
                    _ => Some("---\npolicy-version: 2\n---\n\nno code at all\n".to_string()),
                },
            };
            let flags: Vec<Flags> = if doc.is_none() { flags.into_iter().map(|f| Flags { read: false, ..f }).collect() } else { flags };
            cases.push(Case { doc, flags, class, vparts: None, vsource: "" });
        }
        anchor_cases(&mut rng, &mut cases);
        let nc = args.budget(40, 400);
        for _ in 0..nc {
            let mut r = rng.fork();
            if let Some(c) = composed_case(&mut r) {
                cases.push(c);
            }
        }
    }

    let results = compute_all(&env, &cases);
    for (i, (c, r)) in cases.iter().zip(results).enumerate() {
        record_case(&mut rec, c, r);
        if i < 3 && args.replay.is_none() {
            if let Some(d) = &c.doc {
                rec.sample(format!("[{}] {}", c.class, d.replace('\n', "\\n")));
            }
        }
    }
    let _ = fs::remove_dir_all(&dir);
    rec.finish(args.seed, &args.tier);
}
