//! C10 — a graph is bound to its init command.
//! All first-command shapes (well-formed, policy-less, foreign id, parented, empty batch, rejecting
//! init) and init-like commands (the graph's own init again, a foreign parentless command) at
//! every later batch position; graphs created by a `new_graph` action publishing the init command
//! plus 0–3 more commands (shapes 6/7), and every stored graph synced to a second replica;
//! observes `InitError`, `get_storage`, `list_graph_ids`, the returned `GraphId`.

#[path = "../tk.rs"]
mod tk;

use vh::gk::DagParams;

fn main() {
    tk::harness_main("c10", 200, 3000, |rng, _big| tk::Profile {
        dag: DagParams {
            max_nodes: rng.range(2, 9) as usize,
            prios: 2,
            finalize_pct: 0,
            check_pct: 0,
            merge_pct: 10,
            branch_pct: 30,
            ..DagParams::default()
        },
        reject_pct: *rng.pick(&[0, 10]),
        slots: *rng.pick(&[1, 2]),
        batch_max: *rng.pick(&[1, 3, 6]),
        flush_pct: 5,
        commit_pct: 25,
        dup_pct: 10,
        noncausal_pct: *rng.pick(&[0, 10]),
        init_shape: *rng.pick(&[0, 0, 1, 2, 3, 4, 5, 6, 6, 6, 7]),
        foreign_pct: *rng.pick(&[10, 25]),
        tips_pct: 10,
        ..tk::Profile::default()
    });
}
