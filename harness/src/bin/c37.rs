//! C37 — encryption round-trips and is bound to its context.
//!
//! REAL code driven (default cipher suite): `GroupKey::seal/open`,
//! `EncryptionPublicKey::seal_group_key` / `EncryptionKey::open_group_key`,
//! `EncryptionKey::seal_psk_seed/open_psk_seed`, `ReceiverPublicKey::seal_topic_key` /
//! `ReceiverSecretKey::open_topic_key`, `TopicKey::seal_message/open_message`.
//!
//! Tie of `Model.FramingSeal` (no hooks): the harness frames every context like the Lean model
//! and confirms the bytes at PRIMITIVE level: raw secrets are recovered by wrapping the key with
//! the real engine and opening the wrapped form with raw AES-GCM; then
//!   * group keys: HKDF-SHA512 (labeled framing) with `info = sha256(framed bytes)` must give the
//!     AES key that opens the real ciphertext with `AD = info`;
//!   * sealed group keys / PSK seeds / topic keys: the raw spideroak `Hpke::setup_recv` with
//!     `info = framed record ‖ encoded OIDs` must open the real ciphertext with `AD = framed record`;
//!   * topic-key messages: the topic key's AEAD key re-derived from the recovered seed must open the
//!     real message with `AD = sha256(framed bytes)`.
//! Tie of `Spec.SymSeal` + S-level oracle: every open (honest and with each context component and
//! each ciphertext part modified, single- and multi-point, spliced from other sealings) is sent to
//! the symbolic model and judged by the oracle: it must succeed iff key, context and ciphertext are
//! exactly those of one honest sealing, and then return its plaintext.

#[path = "../cry.rs"]
mod cry;

use aranya_crypto::{
    apq::{EncryptedTopicKey, ReceiverSecretKey, Sender, SenderSecretKey, SenderSigningKey, Topic, TopicKey, Version},
    dangerous::spideroak_crypto::{
        hpke::{Hpke, Mode},
        import::Import as _,
        kem::Kem,
        rust::{Aes256Gcm, HkdfSha512},
    },
    id::IdExt as _,
    policy::{CmdId, GroupId},
    tls::{EncryptedPskSeed, PskSeed},
    CipherSuite, Context, Encap, EncryptedGroupKey, EncryptionKey, GroupKey, Identified as _, SigningKey,
};
use cry::{aes_open, encoded_oids, flip, labeled_expand, labeled_extract, pre_answer_ok, raw_secret, sha256,
    suite_line, suite_oids, suite_tuple_preimage, Eng, SeedRng, CS};
use vh::{fnv, hex, Args, Recorder, Rng};

type K = <CS as CipherSuite>::Kem;
type H = Hpke<K, HkdfSha512, Aes256Gcm>;

fn tokb(b: &[u8]) -> String {
    format!("b{}", hex(b))
}

/// one honest sealing (any primitive); events share one numbering with the model driver
#[derive(Clone, Default)]
struct Ev {
    kind: &'static str,
    enc: Vec<u8>,
    nonce: Vec<u8>,
    body: Vec<u8>,
    tag: Vec<u8>,
    /// canonical description of (keys, context) the sealing is bound to
    binding: String,
    /// what an honest open returns (plaintext hex or secret index)
    result: String,
}

struct World {
    evs: Vec<Ev>,
}
impl World {
    fn tok(&self, pre: char, b: &[u8], f: fn(&Ev) -> &Vec<u8>) -> String {
        match self.evs.iter().position(|e| !f(e).is_empty() && f(e)[..] == *b) {
            Some(j) => format!("{pre}{j}"),
            None => tokb(b),
        }
    }
    /// body token; an empty body (empty plaintext) is identified through the tag / nonce it travels with
    fn body_ctx(&self, b: &[u8], nonce: &[u8], tag: &[u8]) -> String {
        if b.is_empty() {
            let cand = |e: &Ev| e.body.is_empty() && (e.kind == "gk" || e.kind == "msg");
            let j = self.evs.iter().position(|e| cand(e) && e.tag[..] == *tag)
                .or_else(|| self.evs.iter().position(|e| cand(e) && e.nonce[..] == *nonce))
                .or_else(|| self.evs.iter().position(cand));
            return match j {
                Some(j) => format!("B{j}"),
                None => tokb(b),
            };
        }
        self.tok('B', b, |e| &e.body)
    }
    fn body(&self, b: &[u8]) -> String {
        self.tok('B', b, |e| &e.body)
    }
    fn tag(&self, b: &[u8]) -> String {
        self.tok('T', b, |e| &e.tag)
    }
    fn enc(&self, b: &[u8]) -> String {
        self.tok('E', b, |e| &e.enc)
    }
    /// S-level oracle: the honest event with exactly this binding and these ciphertext parts
    fn honest(&self, kind: &str, binding: &str, enc: &[u8], nonce: &[u8], body: &[u8], tag: &[u8]) -> Option<&Ev> {
        self.evs.iter().find(|e| {
            e.kind == kind && e.binding == binding && e.enc == enc && e.nonce == nonce && e.body == body && e.tag == tag
        })
    }
}

fn judge(rec: &mut Recorder, kind: &str, req: &str, want: Option<&Ev>, real: &Option<String>) {
    match (want, real) {
        (None, None) => {}
        (Some(e), Some(r)) if e.result == *r => {}
        (Some(e), Some(r)) => rec.oracle_fail(format!("[{kind}] open returned `{r}` but the sealed plaintext/secret is `{}`: `{req}`", e.result)),
        (Some(_), None) => rec.oracle_fail(format!("[{kind}] honest ciphertext rejected with the same key and context: `{req}`")),
        (None, Some(_)) => rec.oracle_fail(format!("[{kind}] open ACCEPTED a ciphertext/context that is not an honest sealing: `{req}`")),
    }
}

fn ans(real: &Option<String>) -> String {
    match real {
        Some(r) => format!("ok {r}"),
        None => "fail".into(),
    }
}

fn pt_len(rng: &mut Rng, big: bool) -> usize {
    const L: &[usize] = &[0, 1, 2, 15, 16, 17, 31, 32, 33, 63, 64, 65, 127, 128, 255, 256, 257];
    if big && rng.chance(1, 5) {
        *rng.pick(&[1023usize, 1024, 4095, 4096, 4097])
    } else if rng.chance(2, 3) {
        *rng.pick(L)
    } else {
        rng.below(200) as usize
    }
}

/// variants of a fixed-size byte string: (kind suffix, bytes)
fn variants(rng: &mut Rng, orig: &[u8], other: Option<&[u8]>) -> Vec<(&'static str, Vec<u8>)> {
    let mut v = vec![];
    if !orig.is_empty() {
        v.push(("flip", flip(orig, rng.below(orig.len() as u64) as usize, rng.below(8) as u8)));
        v.push(("flip-first", flip(orig, 0, 0)));
        v.push(("flip-last", flip(orig, orig.len() - 1, 7)));
        v.push(("zero", vec![0; orig.len()]));
        let mut r = orig.to_vec();
        r.reverse();
        v.push(("reversed", r));
    }
    if let Some(o) = other {
        v.push(("of-other-sealing", o.to_vec()));
    }
    v.retain(|(_, b)| b[..] != *orig);
    v
}

fn pk_raw(postcard_pk: &[u8]) -> Vec<u8> {
    // ExportedData { oids, name, data }: the raw P-256 point is the trailing 65 bytes
    postcard_pk[postcard_pk.len() - 65..].to_vec()
}

struct Ids {
    next: u64,
}
impl Ids {
    fn fresh(&mut self) -> u64 {
        self.next += 1;
        self.next - 1
    }
}

#[allow(clippy::too_many_lines)]
fn run_case(rec: &mut Recorder, cseed: u64, big: bool) {
    let mut rng = Rng::new(cseed);
    let krng = SeedRng::new(rng.next_u64());
    rec.begin_case();
    rec.line(format!("case {cseed} {}", big as u8), "ok");
    rec.line(suite_line(), "ok");
    let (eng, ekey) = Eng::from_entropy(SeedRng::new(rng.next_u64()));
    let kem_oid = suite_oids()[3].clone();
    let mut ids = Ids { next: 0 };
    let mut w = World { evs: vec![] };
    let mut fpr = String::new();

    // =============================================================== A. group keys
    {
        let gks: Vec<(GroupKey<CS>, u64, Vec<u8>)> = (0..2)
            .map(|_| {
                let g = GroupKey::<CS>::new(&krng);
                let seed = raw_secret(&eng, &ekey, g.clone(), b"64 byte Seed");
                (g, ids.fresh(), seed)
            })
            .collect();
        let authors: Vec<_> = (0..2).map(|_| SigningKey::<CS>::new(&krng).public().expect("pk")).collect();
        let author_ids: Vec<Vec<u8>> = authors.iter().map(|a| a.id().expect("id").as_bytes().to_vec()).collect();
        const LABELS: &[&str] = &["telemetry", "a", "", "label with spaces", "L2", "ünï"];
        let nseal = rng.range(1, 3) as usize;
        let mut sealed: Vec<(usize, String, [u8; 32], usize, Vec<u8>)> = vec![]; // (gk, label, parent, author, ciphertext)
        for _ in 0..nseal {
            let g = rng.below(2) as usize;
            let label = (*rng.pick(LABELS)).to_string();
            let mut parent = [0u8; 32];
            if rng.chance(4, 5) { parent.copy_from_slice(&rng.bytes(32)); }
            let a = rng.below(2) as usize;
            let pl = pt_len(&mut rng, big);
            let pt = rng.bytes(pl);
            let mut dst = vec![0u8; pt.len() + GroupKey::<CS>::OVERHEAD];
            gks[g].0
                .seal(&krng, &mut dst, &pt, Context { label: &label, parent: CmdId::from_bytes(parent), author_sign_pk: &authors[a] })
                .expect("seal");
            let (nonce, rest) = dst.split_at(12);
            let (body, tag) = rest.split_at(rest.len() - 16);
            rec.count("gk-seal");
            rec.count(&format!("ptlen:{}", match pt.len() { 0 => "0", 1..=16 => "1-16", 17..=255 => "17-255", _ => "256+" }));
            fpr.push_str(&format!("gk|{label}|{}|{};", a, pt.len()));
            // ---- framing tie (primitive level)
            let pre = suite_tuple_preimage(b"GroupKey", &[label.as_bytes().to_vec(), parent.to_vec(), author_ids[a].clone()]);
            let info = sha256(&pre);
            let prk = labeled_extract(b"kdf-ext-v1", b"EventKey_prk", &gks[g].2);
            let mut key = [0u8; 32];
            labeled_expand(b"kdr-exp-v1", &prk, b"EventKey_key", &info, &mut key);
            let ok = aes_open(&key, nonce, body, tag, &info).as_deref() == Some(&pt[..]);
            rec.line(
                format!("gkinfo {} {} {}", hex(label.as_bytes()), hex(&parent), hex(&author_ids[a])),
                pre_answer_ok(&pre, ok, "the real group-key ciphertext does not open under key = KDF(seed, info), AD = info with info = sha256(model-framed bytes)"),
            );
            let binding = format!("{}|{label}|{}|{}", gks[g].1, hex(&parent), a);
            rec.line(
                format!("gkseal {} {} {} {} {} {}", gks[g].1, tokb(label.as_bytes()), tokb(&parent), tokb(&author_ids[a]), tokb(nonce), tokb(&pt)),
                format!("ok {}", w.evs.len()),
            );
            w.evs.push(Ev { kind: "gk", enc: vec![], nonce: nonce.to_vec(), body: body.to_vec(), tag: tag.to_vec(), binding, result: hex(&pt) });
            sealed.push((g, label, parent, a, dst));
        }
        // ---- opens
        let mut open = |rec: &mut Recorder, w: &World, kind: &str, g: usize, label: &str, parent: &[u8; 32], a: usize, ct: &[u8]| {
            rec.count(&format!("gkopen:{kind}"));
            let mut dst = vec![0u8; ct.len().saturating_sub(GroupKey::<CS>::OVERHEAD)];
            let real = match vh::catch(std::panic::AssertUnwindSafe(|| {
                gks[g].0.open(&mut dst, ct, Context { label, parent: CmdId::from_bytes(*parent), author_sign_pk: &authors[a] })
            })) {
                Ok(Ok(())) => Some(hex(&dst)),
                Ok(Err(_)) => None,
                Err(p) => { rec.panics.push(format!("GroupKey::open panicked: {p}")); None }
            };
            let binding = format!("{}|{label}|{}|{}", gks[g].1, hex(parent), a);
            if ct.len() >= 28 {
                let (nonce, rest) = ct.split_at(12);
                let (body, tag) = rest.split_at(rest.len() - 16);
                let req = format!("gkopen {} {} {} {} {} {} {}", gks[g].1, tokb(label.as_bytes()), tokb(parent), tokb(&author_ids[a]), tokb(nonce), w.body_ctx(body, nonce, tag), w.tag(tag));
                rec.line(req.clone(), ans(&real));
                judge(rec, kind, &req, w.honest("gk", &binding, &[], nonce, body, tag), &real);
            } else if real.is_some() {
                rec.oracle_fail(format!("[{kind}] GroupKey::open accepted a ciphertext shorter than nonce+tag"));
            }
        };
        for (i, (g, label, parent, a, ct)) in sealed.iter().enumerate() {
            let (g, a) = (*g, *a);
            open(rec, &w, "honest", g, label, parent, a, ct);
            open(rec, &w, "wrong-group-key", 1 - g, label, parent, a, ct);
            open(rec, &w, "wrong-author-key", g, label, parent, 1 - a, ct);
            // label
            let mut labels: Vec<(&'static str, String)> = vec![("label-append", format!("{label}x")), ("label-append-nul", format!("{label}\0"))];
            if !label.is_empty() {
                let mut l = label.clone(); l.pop(); labels.push(("label-truncate", l));
                labels.push(("label-empty", String::new()));
                if label.is_ascii() {
                    let mut b = label.clone().into_bytes(); b[0] ^= 1;
                    labels.push(("label-flip", String::from_utf8(b).unwrap()));
                    labels.push(("label-case", label.to_ascii_uppercase()));
                }
            }
            for (k, l) in &labels {
                if l != label { open(rec, &w, k, g, l, parent, a, ct); }
            }
            // parent
            for (k, p) in variants(&mut rng, parent, None) {
                let mut q = [0u8; 32]; q.copy_from_slice(&p);
                open(rec, &w, &format!("parent-{k}"), g, label, &q, a, ct);
            }
            // boundary shift label|parent: first parent byte moves to the label when it is ascii
            if parent[0].is_ascii() && parent[0] != 0 {
                let l2 = format!("{label}{}", parent[0] as char);
                let mut q = *parent; q.rotate_left(1);
                open(rec, &w, "shift-label-parent", g, &l2, &q, a, ct);
            }
            // multi-point context
            { let mut q = *parent; q[31] ^= 1; open(rec, &w, "multi-label+parent", g, &format!("{label}_"), &q, a, ct); }
            { let mut q = *parent; q[0] ^= 0x80; open(rec, &w, "multi-parent+author+key", 1 - g, label, &q, 1 - a, ct); }
            // ciphertext parts
            let other = sealed.get((i + 1) % sealed.len()).filter(|_| sealed.len() > 1).map(|x| x.4.clone());
            let (nonce, rest) = ct.split_at(12);
            let (body, tag) = rest.split_at(rest.len() - 16);
            let join = |n: &[u8], b: &[u8], t: &[u8]| { let mut v = n.to_vec(); v.extend_from_slice(b); v.extend_from_slice(t); v };
            for (k, n) in variants(&mut rng, nonce, other.as_deref().map(|o| &o[..12])) {
                open(rec, &w, &format!("nonce-{k}"), g, label, parent, a, &join(&n, body, tag));
            }
            for (k, b) in variants(&mut rng, body, None) {
                open(rec, &w, &format!("body-{k}"), g, label, parent, a, &join(nonce, &b, tag));
            }
            for (k, t) in variants(&mut rng, tag, other.as_deref().map(|o| &o[o.len() - 16..])) {
                open(rec, &w, &format!("tag-{k}"), g, label, parent, a, &join(nonce, body, &t));
            }
            if let Some(o) = &other {
                let (on, orest) = o.split_at(12);
                let (ob, ot) = orest.split_at(orest.len() - 16);
                open(rec, &w, "splice-body-of-other", g, label, parent, a, &join(nonce, ob, tag));
                open(rec, &w, "splice-nonce+tag-of-other", g, label, parent, a, &join(on, body, ot));
                open(rec, &w, "other-sealing-this-context", g, label, parent, a, o);
            }
            open(rec, &w, "ct-truncate-1", g, label, parent, a, &ct[..ct.len() - 1]);
            open(rec, &w, "ct-drop-first", g, label, parent, a, &ct[1..]);
            { let mut c = ct.clone(); c.push(0); open(rec, &w, "ct-extend-1", g, label, parent, a, &c); }
            open(rec, &w, "ct-too-short", g, label, parent, a, &ct[..rng.below(28) as usize]);
            { let mut c = join(nonce, body, tag); if !body.is_empty() { let b = c.remove(12); c.insert(c.len() - 16, b); if c != *ct { open(rec, &w, "body-rotate", g, label, parent, a, &c); } } }
            for _ in 0..(if big { 6 } else { 2 }) {
                let c = flip(ct, rng.below(ct.len() as u64) as usize, rng.below(8) as u8);
                open(rec, &w, "ct-any-flip", g, label, parent, a, &c);
            }
        }
    }

    // =============================================================== B/C/D. HPKE-sealed secrets
    // encryption keys (device keys) and apq sender / receiver keys
    let eks: Vec<(EncryptionKey<CS>, u64, Vec<u8>, Vec<u8>)> = (0..3)
        .map(|_| {
            let k = EncryptionKey::<CS>::new(&krng);
            let raw = raw_secret(&eng, &ekey, k.clone(), &kem_oid);
            let pk = pk_raw(&postcard::to_allocvec(&k.public().expect("pk")).expect("pk bytes"));
            (k, ids.fresh(), raw, pk)
        })
        .collect();
    let groups: Vec<[u8; 32]> = (0..2).map(|_| { let mut g = [0u8; 32]; g.copy_from_slice(&rng.bytes(32)); g }).collect();

    // ---- generic HPKE primitive confirmation
    let prim_open = |auth_pk: Option<&[u8]>, enc: &[u8], sk_raw: &[u8], info_full: &[u8], ad: &[u8], ct_and_tag: &[u8]| -> Option<Vec<u8>> {
        let sk = <K as Kem>::DecapKey::import(sk_raw).ok()?;
        let encap = <K as Kem>::Encap::import(enc).ok()?;
        let pks = match auth_pk { Some(p) => Some(<K as Kem>::EncapKey::import(p).ok()?), None => None };
        let mode = match &pks { Some(p) => Mode::Auth(p), None => Mode::Base };
        let mut ctx = H::setup_recv(mode, &encap, &sk, [info_full]).ok()?;
        let mut out = vec![0u8; ct_and_tag.len().checked_sub(16)?];
        ctx.open(&mut out, ct_and_tag, ad).ok()?;
        Some(out)
    };
    let full = |rec_bytes: &[u8]| { let mut v = rec_bytes.to_vec(); v.extend(encoded_oids()); v };

    // ----------------------------------------------------------- B. sealed group keys (HPKE base)
    {
        let gk = GroupKey::<CS>::new(&krng);
        let gk_idx = ids.fresh();
        let gk_id = gk.id().expect("id");
        let n = rng.range(1, 2) as usize;
        let mut sealed = vec![];
        for _ in 0..n {
            let r = rng.below(3) as usize;
            let gi = rng.below(2) as usize;
            let (enc, egk) = eks[r].0.public().expect("pk").seal_group_key(&krng, &gk, GroupId::from_bytes(groups[gi])).expect("seal_group_key");
            let ser = postcard::to_allocvec(&egk).expect("ser");
            if ser.len() != 80 { rec.oracle_fail("EncryptedGroupKey no longer serializes as 64+16 bytes"); return; }
            let encb = enc.as_bytes().to_vec();
            rec.count("sgk-seal");
            fpr.push_str(&format!("sgk|{r}|{gi};"));
            let mut rb = b"GroupKey-v1".to_vec(); rb.extend_from_slice(&groups[gi]);
            let ok = prim_open(None, &encb, &eks[r].2, &full(&rb), &rb, &ser).is_some();
            let why = "the raw HPKE primitive does not open the sealed group key under info = model-framed record ‖ OIDs, AD = record";
            rec.line(format!("sgkad {}", hex(&groups[gi])), pre_answer_ok(&rb, ok, why));
            rec.line(format!("sgkinfo {}", hex(&groups[gi])), pre_answer_ok(&full(&rb), ok, why));
            rec.line(format!("sgkseal {} {} {gk_idx}", eks[r].1, tokb(&groups[gi])), format!("ok {}", w.evs.len()));
            w.evs.push(Ev { kind: "sgk", enc: encb.clone(), nonce: vec![], body: ser[..64].to_vec(), tag: ser[64..].to_vec(),
                binding: format!("{}|{}", eks[r].1, hex(&groups[gi])), result: gk_idx.to_string() });
            sealed.push((r, gi, encb, ser));
        }
        let open = |rec: &mut Recorder, w: &World, kind: &str, r: usize, enc: &[u8], body: &[u8], tag: &[u8], group: &[u8; 32]| {
            rec.count(&format!("sgkopen:{kind}"));
            let req = format!("sgkopen {} {} {} {} {}", eks[r].1, w.enc(enc), w.body(body), w.tag(tag), tokb(group));
            let mut ser = body.to_vec(); ser.extend_from_slice(tag);
            let real = (|| {
                let e = Encap::<CS>::from_bytes(enc).ok()?;
                let c: EncryptedGroupKey<CS> = postcard::from_bytes(&ser).ok()?;
                let g = eks[r].0.open_group_key(&e, c, GroupId::from_bytes(*group)).ok()?;
                Some(if g.id().ok()? == gk_id { gk_idx.to_string() } else { "?".into() })
            })();
            rec.line(req.clone(), ans(&real));
            judge(rec, kind, &req, w.honest("sgk", &format!("{}|{}", eks[r].1, hex(group)), enc, &[], body, tag), &real);
        };
        for (i, (r, gi, enc, ser)) in sealed.iter().enumerate() {
            let (r, gi) = (*r, *gi);
            let (body, tag) = ser.split_at(64);
            let o = sealed.get((i + 1) % sealed.len()).filter(|_| sealed.len() > 1);
            open(rec, &w, "honest", r, enc, body, tag, &groups[gi]);
            open(rec, &w, "wrong-recipient-key", (r + 1) % 3, enc, body, tag, &groups[gi]);
            open(rec, &w, "other-group", r, enc, body, tag, &groups[1 - gi]);
            for (k, g) in variants(&mut rng, &groups[gi], None) {
                let mut q = [0u8; 32]; q.copy_from_slice(&g);
                open(rec, &w, &format!("group-{k}"), r, enc, body, tag, &q);
            }
            for (k, e) in variants(&mut rng, enc, o.map(|x| &x.2[..])) { open(rec, &w, &format!("enc-{k}"), r, &e, body, tag, &groups[gi]); }
            for (k, b) in variants(&mut rng, body, o.map(|x| &x.3[..64])) { open(rec, &w, &format!("body-{k}"), r, enc, &b, tag, &groups[gi]); }
            for (k, t) in variants(&mut rng, tag, o.map(|x| &x.3[64..])) { open(rec, &w, &format!("tag-{k}"), r, enc, body, &t, &groups[gi]); }
            open(rec, &w, "enc-is-recipient-pk", r, &eks[r].3, body, tag, &groups[gi]);
            { let mut q = groups[gi]; q[5] ^= 4; open(rec, &w, "multi-group+tag", r, enc, body, &flip(tag, 3, 3), &q); }
            if let Some(x) = o { open(rec, &w, "splice-enc-of-other", r, &x.2, body, tag, &groups[gi]); }
        }
    }

    // ----------------------------------------------------------- C. PSK seeds (HPKE auth)
    {
        let n = rng.range(1, 2) as usize;
        let mut sealed = vec![];
        for _ in 0..n {
            let s = rng.below(3) as usize;
            let r = (s + 1 + rng.below(2) as usize) % 3;
            let gi = rng.below(2) as usize;
            let gid = GroupId::from_bytes(groups[gi]);
            let seed = PskSeed::<CS>::new(&krng, &gid);
            let seed_idx = ids.fresh();
            let seed_id = seed.id().expect("id");
            let (enc, eps) = eks[s].0.seal_psk_seed(&krng, &seed, &eks[r].0.public().expect("pk"), &gid).expect("seal_psk_seed");
            let ser = postcard::to_allocvec(&eps).expect("ser");
            if ser.len() != 80 { rec.oracle_fail("EncryptedPskSeed no longer serializes as 64+16 bytes"); return; }
            let encb = enc.as_bytes().to_vec();
            rec.count("psk-seal");
            fpr.push_str(&format!("psk|{s}|{r}|{gi};"));
            let mut rb = b"PskSeed-v1".to_vec(); rb.extend_from_slice(&groups[gi]);
            let ok = prim_open(Some(&eks[s].3), &encb, &eks[r].2, &full(&rb), &rb, &ser).is_some();
            let why = "the raw HPKE primitive does not open the sealed PSK seed under info = model-framed record ‖ OIDs, AD = record";
            rec.line(format!("pskad {}", hex(&groups[gi])), pre_answer_ok(&rb, ok, why));
            rec.line(format!("pskinfo {}", hex(&groups[gi])), pre_answer_ok(&full(&rb), ok, why));
            rec.line(format!("pskseal {} {} {} {seed_idx}", eks[s].1, eks[r].1, tokb(&groups[gi])), format!("ok {}", w.evs.len()));
            w.evs.push(Ev { kind: "psk", enc: encb.clone(), nonce: vec![], body: ser[..64].to_vec(), tag: ser[64..].to_vec(),
                binding: format!("{}|{}|{}", eks[r].1, eks[s].1, hex(&groups[gi])), result: seed_idx.to_string() });
            sealed.push((s, r, gi, encb, ser, seed_idx, seed_id));
            // sealing to one's own key is refused
            rec.count("psk-seal-self");
            let selfr = eks[s].0.seal_psk_seed(&krng, &seed, &eks[s].0.public().expect("pk"), &gid);
            rec.line(format!("pskseal {} {} {} {seed_idx}", eks[s].1, eks[s].1, tokb(&groups[gi])), if selfr.is_ok() { format!("ok {}", w.evs.len()) } else { "fail".into() });
            if selfr.is_ok() {
                rec.oracle_fail("seal_psk_seed accepted the sender's own key as peer key");
                return;
            }
        }
        let open = |rec: &mut Recorder, w: &World, kind: &str, r: usize, enc: &[u8], body: &[u8], tag: &[u8], peer: usize, group: &[u8; 32]| {
            rec.count(&format!("pskopen:{kind}"));
            let req = format!("pskopen {} {} {} {} k{} {}", eks[r].1, w.enc(enc), w.body(body), w.tag(tag), eks[peer].1, tokb(group));
            let mut ser = body.to_vec(); ser.extend_from_slice(tag);
            let real = (|| {
                let e = Encap::<CS>::from_bytes(enc).ok()?;
                let c: EncryptedPskSeed<CS> = postcard::from_bytes(&ser).ok()?;
                let sd = eks[r].0.open_psk_seed(&e, c, &eks[peer].0.public().ok()?, &GroupId::from_bytes(*group)).ok()?;
                let id = sd.id().ok()?;
                Some(sealed.iter().find(|x| x.6 == id).map(|x| x.5.to_string()).unwrap_or("?".into()))
            })();
            rec.line(req.clone(), ans(&real));
            judge(rec, kind, &req, w.honest("psk", &format!("{}|{}|{}", eks[r].1, eks[peer].1, hex(group)), enc, &[], body, tag), &real);
        };
        for (i, (s, r, gi, enc, ser, _, _)) in sealed.iter().enumerate() {
            let (s, r, gi) = (*s, *r, *gi);
            let third = 3 - s - r;
            let (body, tag) = ser.split_at(64);
            let o = sealed.get((i + 1) % sealed.len()).filter(|_| sealed.len() > 1);
            open(rec, &w, "honest", r, enc, body, tag, s, &groups[gi]);
            open(rec, &w, "wrong-recipient-key", third, enc, body, tag, s, &groups[gi]);
            open(rec, &w, "wrong-sender-key", r, enc, body, tag, third, &groups[gi]);
            open(rec, &w, "sender-is-recipient", r, enc, body, tag, r, &groups[gi]);
            open(rec, &w, "roles-swapped", s, enc, body, tag, r, &groups[gi]);
            open(rec, &w, "other-group", r, enc, body, tag, s, &groups[1 - gi]);
            for (k, g) in variants(&mut rng, &groups[gi], None) {
                let mut q = [0u8; 32]; q.copy_from_slice(&g);
                open(rec, &w, &format!("group-{k}"), r, enc, body, tag, s, &q);
            }
            for (k, e) in variants(&mut rng, enc, o.map(|x| &x.3[..])) { open(rec, &w, &format!("enc-{k}"), r, &e, body, tag, s, &groups[gi]); }
            for (k, b) in variants(&mut rng, body, o.map(|x| &x.4[..64])) { open(rec, &w, &format!("body-{k}"), r, enc, &b, tag, s, &groups[gi]); }
            for (k, t) in variants(&mut rng, tag, o.map(|x| &x.4[64..])) { open(rec, &w, &format!("tag-{k}"), r, enc, body, &t, s, &groups[gi]); }
            { let mut q = groups[gi]; q[0] ^= 1; open(rec, &w, "multi-group+sender", r, enc, body, tag, third, &q); }
        }
    }

    // ----------------------------------------------------------- D/E. topic keys and topic-key messages
    {
        let senders: Vec<(SenderSecretKey<CS>, u64, Vec<u8>)> = (0..2).map(|_| {
            let k = SenderSecretKey::<CS>::new(&krng);
            let pk = pk_raw(&postcard::to_allocvec(&k.public().expect("pk")).expect("pk bytes"));
            (k, ids.fresh(), pk)
        }).collect();
        let receivers: Vec<(ReceiverSecretKey<CS>, u64, Vec<u8>)> = (0..2).map(|_| {
            let k = ReceiverSecretKey::<CS>::new(&krng);
            let raw = raw_secret(&eng, &ekey, k.clone(), &kem_oid);
            (k, ids.fresh(), raw)
        }).collect();
        let signers: Vec<_> = (0..2).map(|_| SenderSigningKey::<CS>::new(&krng).public().expect("pk")).collect();
        let versions = [1u32, 2, 0x0102_0304, u32::MAX];
        let topics: Vec<[u8; 16]> = (0..2).map(|_| { let mut t = [0u8; 16]; t.copy_from_slice(&rng.bytes(16)); t }).collect();
        let s = rng.below(2) as usize;
        let r = rng.below(2) as usize;
        let v = *rng.pick(&versions);
        let ti = rng.below(2) as usize;
        let topic = Topic::from(topics[ti]);
        let tk = TopicKey::<CS>::new(&krng, Version::new(v), &topic).expect("TopicKey::new");
        let tk_idx = ids.fresh();
        let tk_id = tk.id().expect("id");
        let (enc, etk) = receivers[r].0.public().expect("pk").seal_topic_key(&krng, Version::new(v), &topic, &senders[s].0, &tk).expect("seal_topic_key");
        let ser = etk.as_bytes().to_vec();
        if ser.len() != 80 { rec.oracle_fail("EncryptedTopicKey is no longer 64+16 bytes"); return; }
        let encb = enc.as_bytes().to_vec();
        rec.count("topic-seal");
        fpr.push_str(&format!("topic|{s}|{r}|{v}|{ti};"));
        let mut rb = b"TopicKeyRotation-v1".to_vec(); rb.extend_from_slice(&v.to_be_bytes()); rb.extend_from_slice(&topics[ti]);
        let seed = prim_open(Some(&senders[s].2), &encb, &receivers[r].2, &full(&rb), &rb, &ser);
        let why = "the raw HPKE primitive does not open the sealed topic key under info = model-framed record ‖ OIDs, AD = record";
        rec.line(format!("topicad {v} {}", hex(&topics[ti])), pre_answer_ok(&rb, seed.is_some(), why));
        rec.line(format!("topicinfo {v} {}", hex(&topics[ti])), pre_answer_ok(&full(&rb), seed.is_some(), why));
        rec.line(format!("topicseal {} {} {} {} {tk_idx}", senders[s].1, receivers[r].1, tokb(&v.to_be_bytes()), tokb(&topics[ti])), format!("ok {}", w.evs.len()));
        w.evs.push(Ev { kind: "topic", enc: encb.clone(), nonce: vec![], body: ser[..64].to_vec(), tag: ser[64..].to_vec(),
            binding: format!("{}|{}|{v}|{}", receivers[r].1, senders[s].1, hex(&topics[ti])), result: tk_idx.to_string() });
        let open = |rec: &mut Recorder, w: &World, kind: &str, r: usize, enc: &[u8], body: &[u8], tag: &[u8], s: usize, v: u32, t: &[u8; 16]| {
            rec.count(&format!("topicopen:{kind}"));
            let req = format!("topicopen {} {} {} {} k{} {} {}", receivers[r].1, w.enc(enc), w.body(body), w.tag(tag), senders[s].1, tokb(&v.to_be_bytes()), tokb(t));
            let mut ser = body.to_vec(); ser.extend_from_slice(tag);
            let real = (|| {
                let e = Encap::<CS>::from_bytes(enc).ok()?;
                let c = EncryptedTopicKey::<CS>::from_bytes(&ser).ok()?;
                let k = receivers[r].0.open_topic_key(Version::new(v), &Topic::from(*t), &senders[s].0.public().ok()?, &e, &c).ok()?;
                Some(if k.id().ok()? == tk_id { tk_idx.to_string() } else { "?".into() })
            })();
            rec.line(req.clone(), ans(&real));
            judge(rec, kind, &req, w.honest("topic", &format!("{}|{}|{v}|{}", receivers[r].1, senders[s].1, hex(t)), enc, &[], body, tag), &real);
        };
        {
            let (body, tag) = ser.split_at(64);
            open(rec, &w, "honest", r, &encb, body, tag, s, v, &topics[ti]);
            open(rec, &w, "wrong-receiver-key", 1 - r, &encb, body, tag, s, v, &topics[ti]);
            open(rec, &w, "wrong-sender-key", r, &encb, body, tag, 1 - s, v, &topics[ti]);
            open(rec, &w, "other-topic", r, &encb, body, tag, s, v, &topics[1 - ti]);
            for v2 in [v.wrapping_add(1), v ^ 0x0100_0000, v.swap_bytes(), 0] {
                if v2 != v { open(rec, &w, "version-changed", r, &encb, body, tag, s, v2, &topics[ti]); }
            }
            for (k, t) in variants(&mut rng, &topics[ti], None) {
                let mut q = [0u8; 16]; q.copy_from_slice(&t);
                open(rec, &w, &format!("topic-{k}"), r, &encb, body, tag, s, v, &q);
            }
            // boundary shift version|topic: rotate the 20 bytes by one
            { let mut vt = v.to_be_bytes().to_vec(); vt.extend_from_slice(&topics[ti]); vt.rotate_left(1);
              let v2 = u32::from_be_bytes([vt[0], vt[1], vt[2], vt[3]]); let mut q = [0u8; 16]; q.copy_from_slice(&vt[4..]);
              if v2 != v || q != topics[ti] { open(rec, &w, "shift-version-topic", r, &encb, body, tag, s, v2, &q); } }
            for (k, e) in variants(&mut rng, &encb, None) { open(rec, &w, &format!("enc-{k}"), r, &e, body, tag, s, v, &topics[ti]); }
            for (k, b) in variants(&mut rng, body, None) { open(rec, &w, &format!("body-{k}"), r, &encb, &b, tag, s, v, &topics[ti]); }
            for (k, t) in variants(&mut rng, tag, None) { open(rec, &w, &format!("tag-{k}"), r, &encb, body, &t, s, v, &topics[ti]); }
            open(rec, &w, "multi-version+sender", r, &encb, body, tag, 1 - s, v ^ 1, &topics[ti]);
        }
        // ---- E. messages under the topic key
        let sid = |e: usize, g: usize| (senders[e].0.public().expect("pk").id().expect("id").as_bytes().to_vec(), signers[g].id().expect("id").as_bytes().to_vec());
        let pl = pt_len(&mut rng, big);
        let pt = rng.bytes(pl);
        let (me, mg) = (rng.below(2) as usize, rng.below(2) as usize);
        let mut dst = vec![0u8; pt.len() + tk.overhead()];
        tk.seal_message(&krng, &mut dst, &pt, Version::new(v), &topic, &Sender { enc_key: &senders[me].0.public().expect("pk"), sign_key: &signers[mg] }).expect("seal_message");
        rec.count("msg-seal");
        let (nonce, rest) = dst.split_at(12);
        let (body, tag) = rest.split_at(rest.len() - 16);
        let (eid, gid) = sid(me, mg);
        let pre = suite_tuple_preimage(b"apq msg", &[v.to_be_bytes().to_vec(), topics[ti].to_vec(), eid.clone(), gid.clone()]);
        let ok = match &seed {
            Some(sd) => {
                let prk = labeled_extract(b"APQ-v1", b"topic_key_prk", sd);
                let mut key = [0u8; 32];
                let mut info = v.to_be_bytes().to_vec(); info.extend_from_slice(&topics[ti]);
                labeled_expand(b"APQ-v1", &prk, b"topic_key_key", &info, &mut key);
                aes_open(&key, nonce, body, tag, &sha256(&pre)).as_deref() == Some(&pt[..])
            }
            None => false,
        };
        rec.line(format!("msgad {v} {} {} {}", hex(&topics[ti]), hex(&eid), hex(&gid)),
            pre_answer_ok(&pre, ok, "the real topic-key message does not open under the re-derived topic key with AD = sha256(model-framed bytes)"));
        rec.line(format!("msgseal {tk_idx} {} {} {} {} {} {}", tokb(&v.to_be_bytes()), tokb(&topics[ti]), tokb(&eid), tokb(&gid), tokb(nonce), tokb(&pt)), format!("ok {}", w.evs.len()));
        w.evs.push(Ev { kind: "msg", enc: vec![], nonce: nonce.to_vec(), body: body.to_vec(), tag: tag.to_vec(),
            binding: format!("{tk_idx}|{v}|{}|{me}|{mg}", hex(&topics[ti])), result: hex(&pt) });
        let mopen = |rec: &mut Recorder, w: &World, kind: &str, v: u32, t: &[u8; 16], e: usize, g: usize, ct: &[u8]| {
            rec.count(&format!("msgopen:{kind}"));
            let mut out = vec![0u8; ct.len().saturating_sub(tk.overhead())];
            let real = match vh::catch(std::panic::AssertUnwindSafe(|| {
                tk.open_message(&mut out, ct, Version::new(v), &Topic::from(*t), &Sender { enc_key: &senders[e].0.public().expect("pk"), sign_key: &signers[g] })
            })) {
                Ok(Ok(())) => Some(hex(&out)),
                Ok(Err(_)) => None,
                Err(p) => { rec.panics.push(format!("open_message panicked: {p}")); None }
            };
            if ct.len() >= 28 {
                let (nonce, rest) = ct.split_at(12);
                let (body, tag) = rest.split_at(rest.len() - 16);
                let (eid, gid) = sid(e, g);
                let req = format!("msgopen {tk_idx} {} {} {} {} {} {} {}", tokb(&v.to_be_bytes()), tokb(t), tokb(&eid), tokb(&gid), tokb(nonce), w.body_ctx(body, nonce, tag), w.tag(tag));
                rec.line(req.clone(), ans(&real));
                judge(rec, kind, &req, w.honest("msg", &format!("{tk_idx}|{v}|{}|{e}|{g}", hex(t)), &[], nonce, body, tag), &real);
            } else if real.is_some() {
                rec.oracle_fail("open_message accepted a ciphertext shorter than nonce+tag");
            }
        };
        mopen(rec, &w, "honest", v, &topics[ti], me, mg, &dst);
        mopen(rec, &w, "version-changed", v ^ 1, &topics[ti], me, mg, &dst);
        mopen(rec, &w, "other-topic", v, &topics[1 - ti], me, mg, &dst);
        mopen(rec, &w, "wrong-sender-enc-key", v, &topics[ti], 1 - me, mg, &dst);
        mopen(rec, &w, "wrong-sender-sign-key", v, &topics[ti], me, 1 - mg, &dst);
        mopen(rec, &w, "multi-both-sender-keys", v, &topics[ti], 1 - me, 1 - mg, &dst);
        for _ in 0..(if big { 6 } else { 3 }) {
            mopen(rec, &w, "ct-any-flip", v, &topics[ti], me, mg, &flip(&dst, rng.below(dst.len() as u64) as usize, rng.below(8) as u8));
        }
        mopen(rec, &w, "ct-truncate-1", v, &topics[ti], me, mg, &dst[..dst.len() - 1]);
        { let mut c = dst.clone(); c.push(7); mopen(rec, &w, "ct-extend-1", v, &topics[ti], me, mg, &c); }
        mopen(rec, &w, "ct-too-short", v, &topics[ti], me, mg, &dst[..rng.below(28) as usize]);
    }

    rec.nontrivial(fnv(&fpr));
    if rec.samples.len() < 3 {
        rec.sample(format!("case {cseed}: {fpr}"));
    }
}

fn main() {
    let args = Args::parse();
    vh::quiet_panics();
    let mut rec = Recorder::new(&args.out);
    if let Some(p) = &args.replay {
        for l in vh::read_replay_input(p) {
            let t: Vec<&str> = l.split(' ').collect();
            if t.len() == 3 && t[0] == "case" {
                run_case(&mut rec, t[1].parse().expect("case seed"), t[2] == "1");
            }
        }
        rec.finish(args.seed, &args.tier);
        return;
    }
    let mut rng = Rng::new(args.seed);
    let big = args.thorough() || args.search;
    let cases = args.budget(150, 1500);
    for _ in 0..cases {
        let cs = rng.next_u64() >> 1;
        run_case(&mut rec, cs, big);
    }
    rec.finish(args.seed, &args.tier);
}
