//! C16 — repeated sync delivers everything; bidirectional sync to quiescence equalises.
//!
//! Pairs of REAL replicas (graphkit) with arbitrary overlap; complete real sessions
//! (`SyncRequester::poll` -> `SyncResponder::receive/poll`* -> `SyncRequester::receive` ->
//! `add_commands` -> `commit`) are repeated
//!   * one way (`A <- B`) until a session delivers nothing new, and
//!   * both ways alternately until neither side receives anything.
//! Oracles (S level, on what the real code did):
//!   * every session ends with `SyncEnd`, without errors; everything delivered is committed at
//!     the responder;
//!   * progress: a session delivers at least one command the requester lacked while it lacks any;
//!   * the number of sessions until `B ⊆ A` is at most `|B \ A|`;
//!   * after bidirectional quiescence both replicas hold the same commands, the same heads and
//!     the same facts.
//! Model tie: for every session the requester's sample (model `sample` on A's dumped segment
//! layout) and the responder's whole message sequence (model `start`/`poll` on B's layout).
//! Thorough tier: the *excluded point* of the design — a requester with several hundred lazy heads
//! (more than COMMAND_SAMPLE_MAX) — is run on the real code; sessions that stop making progress
//! there are reported under the key `C16-WIDE-FRONTIER`.

use std::collections::{BTreeMap, BTreeSet};

use aranya_runtime::{CmdId, PeerCache};
use vh::{
    fnv,
    gk::{self, KCmd, MemProvider, Replica},
    sk::{self, IdMap, SessionLog, Shape},
    Args, Recorder, Rng,
};

type R = Replica<MemProvider>;

fn case_rng(seed: u64, idx: u64) -> Rng {
    Rng::new(seed ^ idx.wrapping_mul(0xD6E8_FEB8_6659_FD93) ^ 0x16)
}

fn bucket(n: usize) -> &'static str {
    match n {
        0 => "0",
        1..=9 => "1-9",
        10..=99 => "10-99",
        100 => "100",
        101..=299 => "101-299",
        _ => "300+",
    }
}

fn committed(r: &mut R) -> BTreeMap<CmdId, KCmd> {
    if !r.exists() {
        return BTreeMap::new();
    }
    r.committed().map(|v| v.into_iter().map(|c| (c.id, c)).collect()).unwrap_or_default()
}

fn cache_arg(c: &PeerCache, ids: &mut IdMap) -> String {
    let v: Vec<aranya_runtime::Address> = c.heads().iter().map(|h| h.address()).collect();
    sk::addrs_arg(&v, ids)
}

struct Pair {
    a: R,
    b: R,
    /// A's cache about B, B's cache about A (requester side), and the responder-side caches
    a_req: PeerCache,
    b_req: PeerCache,
    a_resp: PeerCache,
    b_resp: PeerCache,
    keep_caches: bool,
}

/// One complete real session `req <- resp` with all oracles; returns the number of commands the
/// requester gained, or None if the session itself failed.
fn session(rec: &mut Recorder, ids: &mut IdMap, p: &mut Pair, a_requests: bool, label: &str) -> Option<(usize, usize, SessionLog)> {
    if !p.keep_caches {
        p.a_req = PeerCache::new();
        p.b_req = PeerCache::new();
        p.a_resp = PeerCache::new();
        p.b_resp = PeerCache::new();
    }
    let (req, resp, req_cache, resp_cache) = if a_requests {
        (&mut p.a, &mut p.b, &mut p.a_req, &mut p.b_resp)
    } else {
        (&mut p.b, &mut p.a, &mut p.b_req, &mut p.a_resp)
    };
    if !resp.exists() {
        // a responder without the graph has nothing to offer (outside the property: the graphs
        // share an init command); treat as a quiet session
        return Some((0, 0, SessionLog::default()));
    }
    let before = committed(req);
    let theirs = committed(resp);
    let missing: usize = theirs.keys().filter(|k| !before.contains_key(k)).count();

    // model tie, requester side: the sample on the requester's real segment layout
    let sample = if req.exists() {
        match sk::dump_store(req) {
            Ok(d) => {
                for l in sk::store_lines(&d, ids) {
                    rec.line(l, "ok");
                }
                match sk::requester_sample(req, req_cache) {
                    Ok(s) => {
                        rec.line(format!("sample {}", cache_arg(req_cache, ids)), format!("[{}]", sk::addrs_arg(&s, ids).replace('-', "")));
                        rec.count(&format!("sample.len:{}", bucket(s.len())));
                        rec.count(&format!("req.heads:{}", bucket(d.heads.len())));
                        s
                    }
                    Err(e) => {
                        rec.oracle_fail(format!("{label}: requester sample failed: {e}"));
                        return None;
                    }
                }
            }
            Err(e) => {
                rec.oracle_fail(format!("{label}: dump requester: {e}"));
                return None;
            }
        }
    } else {
        vec![]
    };
    // model tie, responder side
    let dump = match sk::dump_store(resp) {
        Ok(d) => d,
        Err(e) => {
            rec.oracle_fail(format!("{label}: dump responder: {e}"));
            return None;
        }
    };
    for l in sk::store_lines(&dump, ids) {
        rec.line(l, "ok");
    }
    rec.line(format!("start {}", sk::addrs_arg(&sample, ids)), "ok");

    let bound = theirs.len() + dump.segs.len() + 3;
    let log = sk::full_session(req, resp, req_cache, resp_cache, bound);
    for (i, batch) in &log.responses {
        let v: Vec<CmdId> = batch.iter().map(|c| c.id).collect();
        rec.line("poll 1", format!("resp {} {}", i, sk::ids_show(&v, ids)));
    }
    if let Some(m) = log.end_max_index {
        rec.line("poll 1", format!("end {m}"));
    }
    for e in &log.errors {
        rec.oracle_fail(format!("{label}: {e}"));
    }
    if log.end_max_index.is_none() {
        rec.oracle_fail(format!("{label}: session did not end with SyncEnd"));
    } else if log.end_max_index != Some(log.responses.len() as u64) {
        rec.oracle_fail(format!("{label}: SyncEnd.max_index {:?} after {} responses", log.end_max_index, log.responses.len()));
    }
    for (k, (i, _)) in log.responses.iter().enumerate() {
        if *i != k as u64 {
            rec.oracle_fail(format!("{label}: response #{k} has index {i}"));
        }
    }
    let stream = log.stream();
    for id in &stream {
        if !theirs.contains_key(id) {
            rec.oracle_fail(format!("{label}: delivered {} which the responder has not committed", gk::short(*id)));
        }
    }
    let after = committed(req);
    for k in before.keys() {
        if !after.contains_key(k) {
            rec.oracle_fail(format!("{label}: requester lost {}", gk::short(*k)));
        }
    }
    let gained = after.len() - before.len().min(after.len());
    let fresh_in_stream: BTreeSet<CmdId> = stream.iter().filter(|i| !before.contains_key(i)).copied().collect();
    if fresh_in_stream.len() != gained {
        rec.oracle_fail(format!(
            "{label}: {} new commands were delivered but the requester's graph grew by {gained}",
            fresh_in_stream.len()
        ));
    }
    if log.added != gained {
        rec.oracle_fail(format!("{label}: add_commands reported {} new commands, graph grew by {gained}", log.added));
    }
    rec.count_n("delivered", stream.len() as u64);
    rec.count_n("delivered_redundant", (stream.len() - fresh_in_stream.len()) as u64);
    rec.count(&format!("session.responses:{}", bucket(log.responses.len())));
    Some((missing, gained, log))
}

fn build_pair(rng: &mut Rng, cmds: &[KCmd], aset: &BTreeSet<usize>, bset: &BTreeSet<usize>, keep_caches: bool) -> Result<Pair, String> {
    let g = gk::graph_id_of(&cmds[0]);
    let a_batch = *rng.pick(&[1usize, 3, 12, 60, 400]);
    let b_batch = *rng.pick(&[1usize, 3, 12, 60, 400]);
    let a = if aset.is_empty() { gk::mem_replica(g) } else { sk::load(rng, cmds, aset, a_batch)? };
    let b = if bset.is_empty() { gk::mem_replica(g) } else { sk::load(rng, cmds, bset, b_batch)? };
    Ok(Pair {
        a,
        b,
        a_req: PeerCache::new(),
        b_req: PeerCache::new(),
        a_resp: PeerCache::new(),
        b_resp: PeerCache::new(),
        keep_caches,
    })
}

fn pick_shape(rng: &mut Rng, thorough: bool) -> Shape {
    let big = thorough && rng.chance(1, 4);
    match rng.below(10) {
        0..=3 => Shape::Random {
            nodes: if big { rng.range(150, 450) as usize } else { rng.range(8, 90) as usize },
            branch_pct: *rng.pick(&[5, 20, 35, 60]),
            merge_pct: *rng.pick(&[0, 10, 25]),
        },
        4..=5 => Shape::Comb {
            trunk: rng.range(0, 6) as usize,
            width: if big { rng.range(60, 99) as usize } else { rng.range(2, 40) as usize },
            len: if big { rng.range(1, 6) as usize } else { rng.range(1, 5) as usize },
        },
        6..=7 => Shape::Chain { len: if big { rng.range(250, 900) as usize } else { rng.range(5, 260) as usize } },
        _ => Shape::Ladder {
            len: if big { rng.range(100, 300) as usize } else { rng.range(8, 70) as usize },
            every: rng.range(2, 9) as usize,
            side: rng.range(1, 5) as usize,
        },
    }
}

fn shape_name(s: &Shape) -> &'static str {
    match s {
        Shape::Random { .. } => "random",
        Shape::Comb { .. } => "comb",
        Shape::Chain { .. } => "chain",
        Shape::Ladder { .. } => "ladder",
    }
}

/// one-way: repeat `A <- B` until nothing is missing
fn one_way(rec: &mut Recorder, ids: &mut IdMap, p: &mut Pair, tag: &str) -> bool {
    let a0 = committed(&mut p.a);
    let b0 = committed(&mut p.b);
    let missing0 = b0.keys().filter(|k| !a0.contains_key(k)).count();
    rec.count(&format!("missing0:{}", bucket(missing0)));
    let mut sessions = 0usize;
    loop {
        let label = format!("{tag} session {sessions}");
        let Some((missing, gained, _log)) = session(rec, ids, p, true, &label) else { return false };
        if missing == 0 {
            if gained != 0 {
                rec.oracle_fail(format!("{label}: nothing was missing but {gained} commands were gained"));
            }
            break;
        }
        sessions += 1;
        if gained == 0 {
            rec.oracle_fail(format!(
                "{tag}: NO PROGRESS: session {} delivered nothing new while the requester lacks {missing} of the responder's {} commands",
                sessions - 1,
                b0.len()
            ));
            return false;
        }
        if sessions > missing0 {
            rec.oracle_fail(format!("{tag}: {sessions} sessions, bound is |B \\ A| = {missing0}"));
            return false;
        }
    }
    rec.count(&format!("sessions:{}", bucket(sessions)));
    if sessions >= 2 {
        rec.count("multi_session_runs");
    }
    let a1 = committed(&mut p.a);
    for k in b0.keys() {
        if !a1.contains_key(k) {
            rec.oracle_fail(format!("{tag}: after the last session the requester still lacks {}", gk::short(*k)));
            return false;
        }
    }
    true
}

fn equal_state(rec: &mut Recorder, p: &mut Pair, tag: &str) {
    let (a, b) = (committed(&mut p.a), committed(&mut p.b));
    let (ka, kb): (Vec<_>, Vec<_>) = (a.keys().copied().collect(), b.keys().copied().collect());
    if ka != kb {
        rec.oracle_fail(format!("{tag}: after quiescence A holds {} commands, B holds {}", ka.len(), kb.len()));
    }
    let (ha, hb) = (p.a.heads(), p.b.heads());
    if ha != hb {
        rec.oracle_fail(format!("{tag}: after quiescence heads differ: {} vs {}", gk::show_ids(&ha), gk::show_ids(&hb)));
    }
    match (p.a.facts(), p.b.facts()) {
        (Ok(fa), Ok(fb)) => {
            if gk::show_facts(&fa) != gk::show_facts(&fb) {
                rec.oracle_fail(format!("{tag}: after quiescence facts differ: {} vs {}", gk::show_facts(&fa), gk::show_facts(&fb)));
            }
        }
        (x, y) => rec.oracle_fail(format!("{tag}: facts unreadable: {:?} {:?}", x.err(), y.err())),
    }
    rec.count(&format!("final.heads:{}", bucket(ha.len())));
}

/// both ways alternately until neither side receives anything
fn both_ways(rec: &mut Recorder, ids: &mut IdMap, p: &mut Pair, tag: &str) {
    let a0 = committed(&mut p.a);
    let b0 = committed(&mut p.b);
    let total0 = b0.keys().filter(|k| !a0.contains_key(k)).count() + a0.keys().filter(|k| !b0.contains_key(k)).count();
    let mut quiet = 0;
    let mut rounds = 0usize;
    let mut dir = true;
    while quiet < 2 {
        let label = format!("{tag} round {rounds} {}", if dir { "A<-B" } else { "B<-A" });
        let Some((missing, gained, _)) = session(rec, ids, p, dir, &label) else { return };
        if missing > 0 && gained == 0 {
            rec.oracle_fail(format!("{label}: NO PROGRESS: nothing new delivered while {missing} commands are missing"));
            return;
        }
        quiet = if gained == 0 { quiet + 1 } else { 0 };
        dir = !dir;
        rounds += 1;
        if rounds > 2 * total0 + 4 {
            rec.oracle_fail(format!("{tag}: no quiescence after {rounds} sessions (|B\\A|+|A\\B| = {total0})"));
            return;
        }
    }
    rec.count(&format!("bidir.sessions:{}", bucket(rounds)));
    equal_state(rec, p, tag);
}

fn run_case(rec: &mut Recorder, seed: u64, idx: u64, thorough: bool, scen: Option<&str>) {
    let mut rng = case_rng(seed, idx);
    rec.begin_case();
    match scen {
        Some(n) => rec.line(format!("case c16 scenario={n} seed={seed} idx={idx}"), "ok"),
        None => rec.line(format!("case c16 seed={seed} idx={idx} thorough={}", thorough as u8), "ok"),
    }
    let mut ids = IdMap::default();
    if let Some(name) = scen {
        wide_frontier(rec, &mut rng, &mut ids, name);
        return;
    }
    let shape = pick_shape(&mut rng, thorough);
    rec.count(&format!("shape:{}", shape_name(&shape)));
    let dag = sk::build(&mut rng, &shape);
    let cmds = gk::realize(&dag, rng.next_u64());
    let n = cmds.len();
    for c in &cmds {
        ids.of(c.id);
    }
    let all: BTreeSet<usize> = (0..n).collect();
    let mut subset = |rng: &mut Rng| -> BTreeSet<usize> {
        match rng.below(8) {
            0 => BTreeSet::new(),
            1 => [0usize].into_iter().collect(),
            2 | 3 => all.clone(),
            _ => {
                let lim = (n as u64 * rng.range(10, 100) / 100).max(1) as usize;
                let tips = rng.range(1, 12) as usize;
                sk::closed_subset(rng, &dag, tips, lim)
            }
        }
    };
    let aset = subset(&mut rng);
    let mut bset = subset(&mut rng);
    if aset.is_empty() && bset.is_empty() {
        bset = all.clone();
    }
    let keep = rng.chance(1, 2);
    rec.count(if keep { "caches:kept" } else { "caches:fresh" });
    let bidir = rng.chance(1, 2);
    let mut p = match build_pair(&mut rng, &cmds, &aset, &bset, keep) {
        Ok(p) => p,
        Err(e) => {
            rec.oracle_fail(format!("building the replicas failed: {e}"));
            return;
        }
    };
    let tag = format!("{}{}", shape_name(&shape), if keep { "/caches" } else { "" });
    let missing = bset.iter().filter(|i| !aset.contains(i)).count();
    if bidir {
        rec.count("mode:bidirectional");
        both_ways(rec, &mut ids, &mut p, &tag);
    } else {
        rec.count("mode:one-way");
        if bset.is_empty() {
            // nothing to request from an empty responder: the session must fail cleanly, not hang
            return;
        }
        one_way(rec, &mut ids, &mut p, &tag);
    }
    if missing > 0 {
        rec.nontrivial(fnv(&format!("{seed}/{idx}/{missing}")));
    }
    if rec.cases() <= 3 {
        rec.sample(format!("{tag} |A|={} |B|={} |B\\A|={missing} {}", aset.len(), bset.len(), if bidir { "bidirectional" } else { "one-way" }));
    }
}

/// The excluded point of the design, on the real code: the requester has several hundred lazy
/// heads (more than COMMAND_SAMPLE_MAX = 100), the responder has the same graph plus a few
/// commands.  Variants: where the extra commands hang (`hi`: on a branch tip, above every other
/// head; `lo`: directly on the trunk, below them), with/without persistent peer caches.
fn wide_frontier(rec: &mut Recorder, rng: &mut Rng, ids: &mut IdMap, name: &str) {
    let (width, hi, keep) = match name {
        "wide-hi" => (260usize, true, false),
        "wide-hi-caches" => (260, true, true),
        "wide-lo" => (260, false, false),
        "wide-150-hi" => (150, true, false),
        "wide-random" => (rng.range(110, 420) as usize, rng.chance(1, 2), rng.chance(1, 2)),
        _ => {
            rec.oracle_fail(format!("unknown scenario {name}"));
            return;
        }
    };
    let trunk = rng.range(0, 3) as usize;
    let len = rng.range(1, 2) as usize;
    let mut dag = sk::build(rng, &Shape::Comb { trunk, width, len });
    let n_a = dag.nodes.len();
    // extra commands only the responder has
    let extra = rng.range(1, 4) as usize;
    let mut parent = if hi { n_a - 1 } else { trunk.min(n_a - 1) };
    for _ in 0..extra {
        dag.nodes.push(gk::Node {
            parents: vec![parent],
            prio: aranya_runtime::Priority::Basic(1),
            body: vec![gk::Op::Set(9, 9), gk::Op::Append],
        });
        parent = dag.nodes.len() - 1;
    }
    let cmds = gk::realize(&dag, rng.next_u64());
    for c in &cmds {
        ids.of(c.id);
    }
    let aset: BTreeSet<usize> = (0..n_a).collect();
    let bset: BTreeSet<usize> = (0..cmds.len()).collect();
    rec.count(&format!("wide:{}", if hi { "hi" } else { "lo" }));
    let mut p = match build_pair(rng, &cmds, &aset, &bset, keep) {
        Ok(p) => p,
        Err(e) => {
            rec.oracle_fail(format!("building the wide replicas failed: {e}"));
            return;
        }
    };
    let heads = p.a.heads().len();
    rec.count(&format!("wide.req_heads:{}", bucket(heads)));
    let tag = format!(
        "C16-WIDE-FRONTIER[{name}: requester has {heads} heads, responder has {extra} more commands {} them{}]",
        if hi { "above" } else { "below" },
        if keep { ", peer caches kept" } else { "" }
    );
    if one_way(rec, ids, &mut p, &tag) {
        rec.count("wide:converged");
        // and the other direction must be quiet
        both_ways(rec, ids, &mut p, &tag);
    } else {
        rec.count("wide:stuck");
    }
    rec.nontrivial(fnv(&format!("wide/{name}/{width}")));
}

fn main() {
    let args = Args::parse();
    vh::quiet_panics();
    let mut rec = Recorder::new(&args.out);
    if let Some(p) = &args.replay {
        let lines = vh::read_replay_input(p);
        let mut ran = false;
        for l in &lines {
            if let Some(rest) = l.strip_prefix("case c16 ") {
                let mut seed = 1u64;
                let mut idx = 0u64;
                let mut th = false;
                let mut scen: Option<String> = None;
                for kv in rest.split(' ') {
                    match kv.split_once('=') {
                        Some(("seed", v)) => seed = v.parse().unwrap_or(1),
                        Some(("idx", v)) => idx = v.parse().unwrap_or(0),
                        Some(("thorough", v)) => th = v == "1",
                        Some(("scenario", v)) => scen = Some(v.to_string()),
                        _ => {}
                    }
                }
                run(&mut rec, seed, idx, th, scen.as_deref());
                ran = true;
            }
        }
        if !ran {
            rec.begin_case();
            rec.oracle_fail("replay file has no `case c16 …` header line");
        }
        rec.finish(args.seed, &args.tier);
        return;
    }
    let thorough = args.thorough() || args.search;
    let cases = args.budget(300, 3000);
    for idx in 0..cases as u64 {
        run(&mut rec, args.seed, idx, thorough, None);
    }
    if thorough {
        for (k, name) in ["wide-hi", "wide-hi-caches", "wide-lo", "wide-150-hi", "wide-random", "wide-random", "wide-random"].iter().enumerate() {
            run(&mut rec, args.seed, 1000 + k as u64, true, Some(name));
        }
    }
    rec.finish(args.seed, &args.tier);
}

fn run(rec: &mut Recorder, seed: u64, idx: u64, thorough: bool, scen: Option<&str>) {
    let r = std::panic::catch_unwind(std::panic::AssertUnwindSafe(|| run_case(rec, seed, idx, thorough, scen)));
    if let Err(e) = r {
        let msg = e
            .downcast_ref::<&str>()
            .map(|s| s.to_string())
            .or_else(|| e.downcast_ref::<String>().cloned())
            .unwrap_or_else(|| "panic".into());
        rec.panics.push(format!("case c16 seed={seed} idx={idx} thorough={} scenario={scen:?}: {msg}", thorough as u8));
    }
}
