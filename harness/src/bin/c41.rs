//! C41 — AFC channel removal takes effect for later operations.
//!
//! Same machinery as C42 (`vh::shmworld`: REAL `WriteState` + 1–3 REAL `ReadState` threads on a
//! POSIX shm object under the cooperative hook scheduler, every step replayed through the Lean
//! transition system `AranyaV.Shm` by `drv_c41`), with programs that concentrate on removals
//! racing readers that hold cached keys.
//!
//! S-level oracle (Rust, independent of the model; `removed` = ids taken out by a writer
//! operation that has RETURNED, per the global step order the scheduler imposed):
//!   * a reader operation that BEGINS after the removal of its channel has returned must give
//!     `NotFound` (`setup_*_ctx`, `seal`, `open`; `KeyExpired` for a seal context that a
//!     previous `NotFound` has cleared) or `false` (`exists`) — a sequence number, `opened`, a
//!     new context, or even a closure failure (= the key was handed out) is a violation;
//!   * a removed id is never again in either list, at any step;
//!   * an operation on a channel that is in every table from its begin to its return succeeds
//!     (or fails exactly as injected).
use vh::{
    shmworld::{self as sw, Pred, ROp, Spec, WOp},
    Args, Recorder,
};

const PROP: &str = "C41";

fn main() {
    let args = Args::parse();
    let mut rec = Recorder::new(&args.out);
    if std::env::var("VH_LOUD").is_err() {
        vh::quiet_panics();
    }
    if let Some(p) = &args.replay {
        let lines = vh::read_replay_input(p);
        sw::replay_cases(&mut rec, PROP, &lines);
        sw::replay_mem_cases(&mut rec, PROP, &lines);
        rec.finish(args.seed, &args.tier);
        return;
    }
    let big = args.thorough() || args.search;
    let seal = |f| ROp::Seal { kth: 0, fail: f };
    let d = |q: usize, t: usize| if big { t } else { q };
    let fixed: Vec<(Spec, usize)> = vec![
        // remove(x) racing seals on a cached key for x
        (
            Spec { cap: 2, keyseed: 11, warm: 1, wprog: vec![WOp::Add { dir: 1, par: 0 }, WOp::Rm(0)],
                   rprogs: vec![vec![ROp::Setup { seal: true, x: 0 }, seal(0), seal(0), seal(0), ROp::Ex(0)]] },
            d(10, 14),
        ),
        // remove_all racing opens on a cached key
        (
            Spec { cap: 2, keyseed: 12, warm: 1, wprog: vec![WOp::Add { dir: 2, par: 1 }, WOp::RmAll],
                   rprogs: vec![vec![ROp::Setup { seal: false, x: 0 }, ROp::Open { kth: 0, fail: false }, ROp::Open { kth: 0, fail: false }, ROp::Open { kth: 0, fail: false }]] },
            d(9, 13),
        ),
        // remove_if racing two readers, one on the removed and one on the surviving channel
        (
            Spec { cap: 3, keyseed: 13, warm: 2, wprog: vec![WOp::Add { dir: 1, par: 0 }, WOp::Add { dir: 1, par: 1 }, WOp::RmIf(Pred::Par(0))],
                   rprogs: vec![vec![ROp::Setup { seal: true, x: 0 }, seal(0), seal(0)], vec![ROp::Setup { seal: true, x: 1 }, seal(0), seal(0)]] },
            d(6, 8),
        ),
    ];
    sw::drive(&mut rec, PROP, 1, &fixed, args.seed, args.budget(250, 8000), 10);
    sw::drive_mem(&mut rec, PROP, args.seed, args.budget(300, 8000));
    rec.finish(args.seed, &args.tier);
}
