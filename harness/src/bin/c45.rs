//! C45 — key stores behave as maps.
//!
//! Drives the REAL `aranya_crypto::keystore::memstore::MemStore` and
//! `aranya_crypto::keystore::fs_keystore::Store` (rooted in a fresh directory under
//! `$VERIF_SCRATCH`) with the same operation scripts over a 3-id alphabet, writes the
//! line protocol for the Lean model driver (`drv_c45`) and evaluates the S-level oracle (a
//! `BTreeMap<id, key>`) on every answer of both stores and on the directory contents.
//!
//! Request lines: `new` | `<m|f> <op>` with op one of
//!   entry i | get | insert k | insertfail k | remove | drop | sget i | tryins i k | tryinsfail i k
//!   | sremove i | reopen | dir      (insertfail/tryinsfail: the key's Serialize fails half way)
//!   | plant i hex      (f only; malformed stream: a file written behind the store's back)
//! Answers: occ | vac | key k | none | ok | err | exists | misuse | panic | [i:hex,...]

use std::{
    collections::BTreeMap,
    panic::AssertUnwindSafe,
    path::{Path, PathBuf},
};

use aranya_crypto::{
    engine::WrappedKey,
    id::IdError,
    keystore::{
        fs_keystore::Store, memstore::MemStore, Entry, ErrorKind, KeyStore, Occupied,
        Vacant,
    },
    BaseId, Identified,
};
use serde::{Deserialize, Serialize};
use vh::{fnv, hex, unhex, Args, Recorder, Rng};

/// The wrapped key: a `u64` newtype on the wire.  With `fail` set, `Serialize` pushes a 2-tuple
/// head and the value through the writer and then reports an error — an insert that fails after
/// the file was created and partly written (an unexportable key, a full disk, …).
#[derive(Copy, Clone, Debug, PartialEq, Eq)]
struct K {
    v: u64,
    fail: bool,
}
#[allow(non_snake_case)]
fn K(v: u64) -> K {
    K { v, fail: false }
}
impl Serialize for K {
    fn serialize<S: serde::Serializer>(&self, s: S) -> Result<S::Ok, S::Error> {
        if self.fail {
            use serde::ser::{Error as _, SerializeTuple as _};
            let mut t = s.serialize_tuple(2)?;
            t.serialize_element(&self.v)?;
            return Err(S::Error::custom("unable to export key"));
        }
        s.serialize_u64(self.v)
    }
}
impl<'de> Deserialize<'de> for K {
    fn deserialize<D: serde::Deserializer<'de>>(d: D) -> Result<Self, D::Error> {
        Ok(K(u64::deserialize(d)?))
    }
}
impl WrappedKey for K {}
impl Identified for K {
    type Id = BaseId;
    fn id(&self) -> Result<BaseId, IdError> {
        let mut b = [0u8; 32];
        b[..8].copy_from_slice(&self.v.to_le_bytes());
        Ok(BaseId::from_bytes(b))
    }
}

const NIDS: usize = 3;

fn id_of(i: usize) -> BaseId {
    // id 0 is the all-zero (default) id; the others are arbitrary fixed patterns
    let mut b = [0u8; 32];
    if i > 0 {
        for (j, x) in b.iter_mut().enumerate() {
            *x = (i as u8).wrapping_mul(0x3b).wrapping_add(j as u8);
        }
    }
    BaseId::from_bytes(b)
}

#[derive(Clone, Debug, PartialEq, Eq)]
enum Op {
    Entry(usize),
    Get,
    Insert(u64),
    Remove,
    Drop,
    SGet(usize),
    TryIns(usize, u64),
    SRemove(usize),
    Reopen,
    Dir,
    Plant(usize, Vec<u8>),
    InsertFail(u64),
    TryInsFail(usize, u64),
}

impl Op {
    fn into_fail(self) -> Op {
        match self {
            Op::TryIns(i, k) => Op::TryInsFail(i, k),
            o => o,
        }
    }
    fn show(&self) -> String {
        match self {
            Op::Entry(i) => format!("entry {i}"),
            Op::Get => "get".into(),
            Op::Insert(k) => format!("insert {k}"),
            Op::Remove => "remove".into(),
            Op::Drop => "drop".into(),
            Op::SGet(i) => format!("sget {i}"),
            Op::TryIns(i, k) => format!("tryins {i} {k}"),
            Op::SRemove(i) => format!("sremove {i}"),
            Op::Reopen => "reopen".into(),
            Op::Dir => "dir".into(),
            Op::Plant(i, b) => format!("plant {i} {}", hex(b)),
            Op::InsertFail(k) => format!("insertfail {k}"),
            Op::TryInsFail(i, k) => format!("tryinsfail {i} {k}"),
        }
    }
    fn parse(s: &str) -> Option<Op> {
        let t: Vec<&str> = s.split(' ').filter(|x| !x.is_empty()).collect();
        let id = |x: &str| x.parse::<usize>().ok().filter(|i| *i < 64);
        Some(match t.as_slice() {
            ["entry", i] => Op::Entry(id(i)?),
            ["get"] => Op::Get,
            ["insert", k] => Op::Insert(k.parse().ok()?),
            ["remove"] => Op::Remove,
            ["drop"] => Op::Drop,
            ["sget", i] => Op::SGet(id(i)?),
            ["tryins", i, k] => Op::TryIns(id(i)?, k.parse().ok()?),
            ["sremove", i] => Op::SRemove(id(i)?),
            ["reopen"] => Op::Reopen,
            ["dir"] => Op::Dir,
            ["plant", i, h] => Op::Plant(id(i)?, unhex(h)?),
            ["insertfail", k] => Op::InsertFail(k.parse().ok()?),
            ["tryinsfail", i, k] => Op::TryIns(id(i)?, k.parse().ok()?).into_fail(),
            _ => return None,
        })
    }
}

/// CBOR unsigned integer, shortest form (RFC 8949) — what a `u64` newtype serialises to.
fn cbor_enc(n: u64) -> Vec<u8> {
    if n < 24 {
        vec![n as u8]
    } else if n < 1 << 8 {
        vec![0x18, n as u8]
    } else if n < 1 << 16 {
        let mut v = vec![0x19];
        v.extend_from_slice(&(n as u16).to_be_bytes());
        v
    } else if n < 1 << 32 {
        let mut v = vec![0x1a];
        v.extend_from_slice(&(n as u32).to_be_bytes());
        v
    } else {
        let mut v = vec![0x1b];
        v.extend_from_slice(&n.to_be_bytes());
        v
    }
}

/// decode one CBOR unsigned integer from the front (any width); `None` = error
fn cbor_dec(b: &[u8]) -> Option<u64> {
    let h = *b.first()?;
    if h < 24 {
        return Some(h as u64);
    }
    let w = match h {
        0x18 => 1,
        0x19 => 2,
        0x1a => 4,
        0x1b => 8,
        _ => return None,
    };
    if b.len() < 1 + w {
        return None;
    }
    Some(b[1..1 + w].iter().fold(0u64, |a, x| (a << 8) | *x as u64))
}

/// the real store under test + the few things that differ between the two stores
trait Sut {
    type S: KeyStore;
    const TAG: &'static str;
    fn store(&mut self) -> &mut Self::S;
    fn reopen(&mut self) -> Result<(), String>;
    /// observed contents: `(id index or name, bytes)` sorted
    fn dir(&mut self) -> Vec<(String, Vec<u8>)>;
    fn plant(&mut self, i: usize, bytes: &[u8]) -> bool;
}

struct MemSut(MemStore);
impl Sut for MemSut {
    type S = MemStore;
    const TAG: &'static str = "m";
    fn store(&mut self) -> &mut MemStore {
        &mut self.0
    }
    fn reopen(&mut self) -> Result<(), String> {
        self.0 = self.0.clone();
        Ok(())
    }
    fn dir(&mut self) -> Vec<(String, Vec<u8>)> {
        // MemStore has no iteration API: observe through `get` over the id alphabet (+1 unused id)
        let mut v = vec![];
        for i in 0..=NIDS {
            if let Ok(Some(K { v: k, .. })) = self.0.get::<K>(id_of(i)) {
                v.push((i.to_string(), cbor_enc(k)));
            }
        }
        v
    }
    fn plant(&mut self, _: usize, _: &[u8]) -> bool {
        false
    }
}

struct FsSut {
    root: PathBuf,
    store: Store,
}
impl Sut for FsSut {
    type S = Store;
    const TAG: &'static str = "f";
    fn store(&mut self) -> &mut Store {
        &mut self.store
    }
    fn reopen(&mut self) -> Result<(), String> {
        self.store = Store::open(self.root.as_path()).map_err(|e| e.to_string())?;
        Ok(())
    }
    fn dir(&mut self) -> Vec<(String, Vec<u8>)> {
        let mut v = vec![];
        for e in std::fs::read_dir(&self.root).expect("read_dir") {
            let e = e.expect("dirent");
            let name = e.file_name().to_string_lossy().to_string();
            if name == "__canary" {
                continue;
            }
            let idx = (0..=NIDS).find(|i| id_of(*i).to_string() == name);
            let bytes = std::fs::read(e.path()).expect("read file");
            v.push((idx.map_or(format!("?{name}"), |i| i.to_string()), bytes));
        }
        v.sort();
        v
    }
    fn plant(&mut self, i: usize, bytes: &[u8]) -> bool {
        std::fs::write(self.root.join(id_of(i).to_string()), bytes).is_ok()
    }
}

fn show_dir(v: &[(String, Vec<u8>)]) -> String {
    if v.is_empty() {
        return "[]".into();
    }
    format!("[{}]", v.iter().map(|(n, b)| format!("{n}:{}", hex(b))).collect::<Vec<_>>().join(","))
}

/// S-level oracle: the abstract map + the id of the live entry.
#[derive(Default, Clone)]
struct Oracle {
    m: BTreeMap<usize, u64>,
    /// files planted behind the store's back (malformed stream): expectations come from the
    /// CBOR rules, not from the map
    planted: BTreeMap<usize, Vec<u8>>,
    cur: Option<usize>,
}

impl Oracle {
    fn value(&self, i: usize) -> Result<Option<u64>, ()> {
        if let Some(b) = self.planted.get(&i) {
            return cbor_dec(b).map(Some).ok_or(());
        }
        Ok(self.m.get(&i).copied())
    }
    fn present(&self, i: usize) -> bool {
        self.planted.contains_key(&i) || self.m.contains_key(&i)
    }
    fn forget(&mut self, i: usize) {
        self.planted.remove(&i);
        self.m.remove(&i);
    }
    fn key_or_err(v: Result<Option<u64>, ()>) -> String {
        match v {
            Ok(Some(k)) => format!("key {k}"),
            Ok(None) => "none".into(),
            Err(()) => "err".into(),
        }
    }
    /// the answer the property demands for `op`; updates the map
    fn expect(&mut self, op: &Op) -> String {
        match (op, self.cur) {
            (Op::Entry(i), None) => {
                self.cur = Some(*i);
                if self.present(*i) { "occ" } else { "vac" }.into()
            }
            (Op::Get, Some(i)) if self.present(i) => Self::key_or_err(self.value(i)),
            (Op::Insert(k), Some(i)) if !self.present(i) => {
                self.m.insert(i, *k);
                self.cur = None;
                "ok".into()
            }
            // a failed insert leaves the id vacant and nothing behind
            (Op::InsertFail(_), Some(i)) if !self.present(i) => {
                self.cur = None;
                "err".into()
            }
            (Op::TryInsFail(i, _), None) => {
                if self.present(*i) { "exists" } else { "err" }.into()
            }
            (Op::Remove, Some(i)) if self.present(i) => {
                let r = Self::key_or_err(self.value(i));
                self.forget(i);
                self.cur = None;
                r
            }
            (Op::Drop, Some(_)) => {
                self.cur = None;
                "ok".into()
            }
            (Op::SGet(i), None) => match self.planted.get(i).and_then(|b| b.first()) {
                // `Store::get` decodes an `Option<T>`: a planted CBOR null/undefined reads as None
                Some(0xf6) | Some(0xf7) => "none".into(),
                _ => Self::key_or_err(self.value(*i)),
            },
            (Op::TryIns(i, k), None) => {
                if self.present(*i) {
                    "exists".into()
                } else {
                    self.m.insert(*i, *k);
                    "ok".into()
                }
            }
            (Op::SRemove(i), None) => {
                let r = Self::key_or_err(self.value(*i));
                self.forget(*i);
                r
            }
            (Op::Reopen, None) => "ok".into(),
            (Op::Dir, None) => {
                let mut v: Vec<(String, Vec<u8>)> =
                    self.m.iter().map(|(i, k)| (i.to_string(), cbor_enc(*k))).collect();
                v.extend(self.planted.iter().map(|(i, b)| (i.to_string(), b.clone())));
                v.sort();
                show_dir(&v)
            }
            (Op::Plant(i, b), None) => {
                self.m.remove(i);
                self.planted.insert(*i, b.clone());
                "ok".into()
            }
            _ => "misuse".into(),
        }
    }
}

fn res_key<E: aranya_crypto::keystore::Error>(r: Result<K, E>) -> String {
    match r {
        Ok(K { v: k, .. }) => format!("key {k}"),
        Err(e) => err_str(&e),
    }
}
fn err_str<E: aranya_crypto::keystore::Error>(e: &E) -> String {
    match e.kind() {
        ErrorKind::AlreadyExists => "exists".into(),
        _ => "err".into(),
    }
}

/// `vh::catch` for closures holding `&mut` borrows (the bound makes the closure `FnOnce`)
fn catch_once<R>(f: impl FnOnce() -> R) -> Result<R, String> {
    vh::catch(AssertUnwindSafe(f))
}

struct Out {
    /// (request, real answer)
    lines: Vec<(String, String)>,
    /// first divergence from the oracle: (line index, message)
    fail: Option<(usize, String)>,
    panic: Option<String>,
}

/// Run `ops` on one real store.  The live entry borrows the store, exactly as in client code:
/// it lives in the inner loop and is consumed by `insert`/`remove`/`drop`.
fn run_on<T: Sut>(sut: &mut T, ops: &[Op]) -> Out {
    let mut out = Out { lines: vec![], fail: None, panic: None };
    let mut orc = Oracle::default();
    let mem = T::TAG == "m";
    macro_rules! emit {
        ($op:expr, $real:expr) => {{
            let op: &Op = $op;
            let real: String = $real;
            let want = orc.expect(op);
            if real != want && out.fail.is_none() {
                out.fail = Some((out.lines.len(), format!("{} store: `{}` answered `{}`, the map says `{}`", if mem { "mem" } else { "fs" }, op.show(), real, want)));
            }
            out.lines.push((format!("{} {}", T::TAG, op.show()), real));
        }};
    }
    macro_rules! guard {
        ($e:expr) => {
            match catch_once(|| $e) {
                Ok(v) => v,
                Err(p) => {
                    out.panic = Some(p);
                    return out;
                }
            }
        };
    }
    let mut idx = 0;
    while idx < ops.len() {
        let op = &ops[idx];
        idx += 1;
        match op {
            Op::Plant(..) if mem => continue, // not applicable to the memory store
            Op::Get | Op::Insert(_) | Op::InsertFail(_) | Op::Remove | Op::Drop => emit!(op, "misuse".into()),
            Op::SGet(i) => {
                let r = guard!(sut.store().get::<K>(id_of(*i)));
                emit!(op, match r {
                    Ok(Some(K { v: k, .. })) => format!("key {k}"),
                    Ok(None) => "none".into(),
                    Err(e) => err_str(&e),
                });
            }
            Op::TryIns(i, k) => {
                let r = guard!(sut.store().try_insert(id_of(*i), K(*k)));
                emit!(op, match r {
                    Ok(()) => "ok".into(),
                    Err(e) => err_str(&e),
                });
            }
            Op::TryInsFail(i, k) => {
                let r = guard!(sut.store().try_insert(id_of(*i), K { v: *k, fail: true }));
                emit!(op, match r {
                    Ok(()) => "ok".into(),
                    Err(e) => err_str(&e),
                });
            }
            Op::SRemove(i) => {
                let r = guard!(sut.store().remove::<K>(id_of(*i)));
                emit!(op, match r {
                    Ok(Some(K { v: k, .. })) => format!("key {k}"),
                    Ok(None) => "none".into(),
                    Err(e) => err_str(&e),
                });
            }
            Op::Reopen => {
                let r = guard!(sut.reopen());
                emit!(op, match r {
                    Ok(()) => "ok".into(),
                    Err(_) => "err".into(),
                });
            }
            Op::Dir => {
                let d = guard!(sut.dir());
                emit!(op, show_dir(&d));
            }
            Op::Plant(i, b) => {
                let ok = sut.plant(*i, b);
                emit!(op, if ok { "ok".into() } else { "err".into() });
            }
            Op::Entry(i) => {
                let store = sut.store();
                let r = match catch_once(move || store.entry::<K>(id_of(*i))) {
                    Ok(v) => v,
                    Err(p) => {
                        out.panic = Some(p);
                        return out;
                    }
                };
                let mut entry = match r {
                    Err(e) => {
                        emit!(op, err_str(&e));
                        continue;
                    }
                    Ok(e) => {
                        emit!(op, match &e {
                            Entry::Occupied(_) => "occ".into(),
                            Entry::Vacant(_) => "vac".into(),
                        });
                        Some(e)
                    }
                };
                while let Some(e) = entry.take() {
                    if idx >= ops.len() {
                        // script ended with the entry alive: it is dropped here
                        guard!(drop(e));
                        emit!(&Op::Drop, "ok".into());
                        break;
                    }
                    let op = &ops[idx];
                    idx += 1;
                    match (op, e) {
                        (Op::Get, Entry::Occupied(o)) => {
                            let r = guard!(o.get());
                            emit!(op, res_key(r));
                            entry = Some(Entry::Occupied(o));
                        }
                        (Op::Remove, Entry::Occupied(o)) => {
                            let r = guard!(o.remove());
                            emit!(op, res_key(r));
                        }
                        (Op::Insert(k), Entry::Vacant(v)) => {
                            let r = guard!(v.insert(K(*k)));
                            emit!(op, match r {
                                Ok(()) => "ok".into(),
                                Err(e) => err_str(&e),
                            });
                        }
                        (Op::InsertFail(k), Entry::Vacant(v)) => {
                            let r = guard!(v.insert(K { v: *k, fail: true }));
                            emit!(op, match r {
                                Ok(()) => "ok".into(),
                                Err(e) => err_str(&e),
                            });
                        }
                        (Op::Drop, e) => {
                            guard!(drop(e));
                            emit!(op, "ok".into());
                        }
                        (Op::Plant(..), e) if mem => entry = Some(e),
                        (_, e) => {
                            // not expressible in Rust while the entry borrows the store / on this
                            // entry kind: the real code is not called
                            emit!(op, "misuse".into());
                            entry = Some(e);
                        }
                    }
                }
            }
        }
    }
    out
}

struct Env {
    scratch: PathBuf,
    n: u64,
}

impl Env {
    fn new() -> Self {
        let base = std::env::var_os("VERIF_SCRATCH").map(PathBuf::from).unwrap_or_else(std::env::temp_dir);
        let scratch = base.join(format!("c45-{}", std::process::id()));
        let _ = std::fs::remove_dir_all(&scratch);
        std::fs::create_dir_all(&scratch).expect("scratch dir");
        Env { scratch, n: 0 }
    }
    fn fresh(&mut self) -> PathBuf {
        self.n += 1;
        let p = self.scratch.join(format!("ks{}", self.n));
        std::fs::create_dir_all(&p).expect("store dir");
        p
    }
}
impl Drop for Env {
    fn drop(&mut self) {
        let _ = std::fs::remove_dir_all(&self.scratch);
    }
}

/// run the script on both real stores (fresh each); closing epilogue = what the property says a
/// reopened store shows
fn run_both(env: &mut Env, ops: &[Op]) -> (Out, Out) {
    let mut script = ops.to_vec();
    // a trailing live entry is dropped by run_on; then reopen and look at everything
    let live = {
        let mut o = Oracle::default();
        for op in &script {
            o.expect(op);
        }
        o.cur.is_some()
    };
    if live {
        script.push(Op::Drop);
    }
    script.push(Op::Reopen);
    script.push(Op::Dir);
    for i in 0..NIDS {
        script.push(Op::SGet(i));
    }
    let mut m = MemSut(MemStore::new());
    let om = run_on(&mut m, &script);
    let root = env.fresh();
    let of = match Store::open(root.as_path()) {
        Ok(store) => {
            let mut f = FsSut { root: root.clone(), store };
            run_on(&mut f, &script)
        }
        Err(e) => Out { lines: vec![], fail: Some((0, format!("Store::open failed: {e}"))), panic: None },
    };
    let _ = std::fs::remove_dir_all(&root);
    (om, of)
}

fn failing(env: &mut Env, ops: &[Op]) -> bool {
    let (a, b) = run_both(env, ops);
    a.fail.is_some() || b.fail.is_some() || a.panic.is_some() || b.panic.is_some()
}

/// delta-debugging lite: drop single ops while the script still fails
fn shrink(env: &mut Env, ops: &[Op]) -> Vec<Op> {
    let mut cur = ops.to_vec();
    let mut progress = true;
    while progress && cur.len() > 1 {
        progress = false;
        let mut i = 0;
        while i < cur.len() {
            let mut t = cur.clone();
            t.remove(i);
            if failing(env, &t) {
                cur = t;
                progress = true;
            } else {
                i += 1;
            }
        }
    }
    cur
}

fn record_case(rec: &mut Recorder, env: &mut Env, ops: &[Op], do_shrink: bool) {
    rec.begin_case();
    rec.line("new", "ok");
    let (om, of) = run_both(env, ops);
    for o in [&om, &of] {
        for (rq, rl) in &o.lines {
            rec.line(rq.clone(), rl.clone());
        }
    }
    let bad = om.fail.is_some() || of.fail.is_some() || om.panic.is_some() || of.panic.is_some();
    if bad {
        let small = if do_shrink { shrink(env, ops) } else { ops.to_vec() };
        let (sm, sf) = run_both(env, &small);
        for (o, full) in [(&sm, &om), (&sf, &of)] {
            let o = if o.fail.is_some() || o.panic.is_some() { o } else { full };
            let mut input = vec!["new".to_string()];
            if let Some((at, what)) = &o.fail {
                input.extend(o.lines.iter().take(at + 1).map(|l| l.0.clone()));
                rec.oracle_fail_with(what.clone(), input);
            } else if let Some(p) = &o.panic {
                input.extend(o.lines.iter().map(|l| l.0.clone()));
                rec.panics.push(format!("{p} after {}", input.join("; ")));
                rec.oracle_fail_with(format!("panic in real key store: {p}"), input);
            }
        }
    }
}

const KEYS: [u64; 12] = [0, 1, 23, 24, 255, 256, 65535, 65536, 0xffff_ffff, 0x1_0000_0000, u64::MAX - 1, u64::MAX];

fn gen_key(rng: &mut Rng) -> u64 {
    match rng.below(4) {
        0 => *rng.pick(&KEYS),
        1 => rng.below(300),
        2 => rng.next_u64() >> rng.below(64),
        _ => rng.next_u64(),
    }
}

/// malformed stream: file contents a crash or a foreign writer could leave
fn gen_garbage(rng: &mut Rng) -> Vec<u8> {
    let k = gen_key(rng);
    let good = cbor_enc(k);
    match rng.below(7) {
        0 => vec![],
        1 => good[..rng.below(good.len() as u64) as usize].to_vec(),
        2 => {
            let mut v = good;
            let n = rng.range(1, 4) as usize;
            v.extend(rng.bytes(n));
            v
        }
        3 => {
            // non-shortest width
            let w = *rng.pick(&[1usize, 2, 4, 8]);
            let mut v = vec![[0x18, 0x19, 0, 0x1a, 0, 0, 0, 0x1b][w - 1]];
            v.extend_from_slice(&(k & (u64::MAX >> (64 - 8 * w as u32))).to_be_bytes()[8 - w..]);
            v
        }
        4 => vec![*rng.pick(&[0x1cu8, 0x1f, 0x40, 0x60, 0x80, 0xa0, 0xf6, 0xf7, 0xff])],
        5 => good, // a well-formed file put there by somebody else
        _ => vec![0x1b, 0xff, 0xff],
    }
}

fn gen_script(rng: &mut Rng, big: bool) -> (Vec<Op>, bool) {
    let len = rng.range(1, if big { 60 } else { 36 });
    let malformed = rng.chance(1, 6);
    let mut ops = vec![];
    // typestate of the generator: None | Some(occupied?)
    let mut cur: Option<bool> = None;
    let mut present = [false; NIDS];
    let mut cur_id = 0;
    for _ in 0..len {
        let i = rng.below(NIDS as u64) as usize;
        let wild = malformed && rng.chance(1, 12);
        let op = if wild {
            // an op the type system would reject here
            match rng.below(5) {
                0 => Op::Get,
                1 => Op::Insert(gen_key(rng)),
                2 => Op::Remove,
                3 => Op::SGet(i),
                _ => Op::Entry(i),
            }
        } else {
            match cur {
                None => match rng.below(100) {
                    0..=37 => Op::Entry(i),
                    38..=54 => Op::SGet(i),
                    55..=67 => Op::TryIns(i, gen_key(rng)),
                    68..=71 => Op::TryInsFail(i, gen_key(rng)),
                    72..=83 => Op::SRemove(i),
                    84..=90 => Op::Reopen,
                    91..=96 => Op::Dir,
                    _ => {
                        if malformed {
                            Op::Plant(i, gen_garbage(rng))
                        } else {
                            Op::Dir
                        }
                    }
                },
                Some(true) => match rng.below(100) {
                    0..=54 => Op::Get,
                    55..=79 => Op::Remove,
                    _ => Op::Drop,
                },
                Some(false) => match rng.below(100) {
                    0..=54 => Op::Insert(gen_key(rng)),
                    55..=69 => Op::InsertFail(gen_key(rng)),
                    _ => Op::Drop,
                },
            }
        };
        // track the typestate (mirrors Rust's rules, not the store)
        match (&op, cur) {
            (Op::Entry(j), None) => {
                cur = Some(present[*j]);
                cur_id = *j;
            }
            (Op::Insert(_), Some(false)) => {
                present[cur_id] = true;
                cur = None;
            }
            (Op::Remove, Some(true)) => {
                present[cur_id] = false;
                cur = None;
            }
            (Op::Drop, Some(_)) => cur = None,
            (Op::InsertFail(_), Some(false)) => cur = None,
            (Op::TryIns(j, _), None) => present[*j] = true,
            (Op::SRemove(j), None) => present[*j] = false,
            (Op::Plant(j, _), None) => present[*j] = true,
            _ => {}
        }
        ops.push(op);
    }
    (ops, malformed)
}

/// every well-typed script of `depth` ops over ids {0,1} (keys fixed per position)
fn enumerate(depth: usize, f: &mut dyn FnMut(&[Op])) {
    fn go(depth: usize, cur: Option<bool>, cur_id: usize, present: [bool; 2], pre: &mut Vec<Op>, f: &mut dyn FnMut(&[Op])) {
        if pre.len() == depth {
            f(pre);
            return;
        }
        let k = [24u64, 65536, 7, 256, 1 << 40, 23][pre.len() % 6];
        let mut step = |op: Op, cur: Option<bool>, cur_id: usize, present: [bool; 2], pre: &mut Vec<Op>| {
            pre.push(op);
            go(depth, cur, cur_id, present, pre, f);
            pre.pop();
        };
        match cur {
            None => {
                for i in 0..2 {
                    step(Op::Entry(i), Some(present[i]), i, present, pre);
                    step(Op::SGet(i), None, 0, present, pre);
                    let mut p = present;
                    p[i] = true;
                    step(Op::TryIns(i, k), None, 0, p, pre);
                    let mut p = present;
                    p[i] = false;
                    step(Op::SRemove(i), None, 0, p, pre);
                    step(Op::TryInsFail(i, k), None, 0, present, pre);
                }
                step(Op::Reopen, None, 0, present, pre);
            }
            Some(true) => {
                step(Op::Get, cur, cur_id, present, pre);
                let mut p = present;
                p[cur_id] = false;
                step(Op::Remove, None, 0, p, pre);
                step(Op::Drop, None, 0, present, pre);
            }
            Some(false) => {
                let mut p = present;
                p[cur_id] = true;
                step(Op::Insert(k), None, 0, p, pre);
                step(Op::InsertFail(k), None, 0, present, pre);
                step(Op::Drop, None, 0, present, pre);
            }
        }
    }
    go(depth, None, 0, [false; 2], &mut vec![], f);
}

fn script_of_replay(path: &Path) -> Vec<Op> {
    let lines = vh::read_replay_input(path);
    let pick = |tag: &str| -> Vec<Op> {
        lines
            .iter()
            .filter_map(|l| l.strip_prefix(tag))
            .map(|l| Op::parse(l).unwrap_or_else(|| panic!("bad replay line {l}")))
            .collect()
    };
    let f = pick("f ");
    if f.is_empty() {
        pick("m ")
    } else {
        f
    }
}

fn main() {
    let args = Args::parse();
    vh::quiet_panics();
    let mut rec = Recorder::new(&args.out);
    let mut env = Env::new();
    if let Some(p) = &args.replay {
        let ops = script_of_replay(p);
        record_case(&mut rec, &mut env, &ops, false);
        rec.finish(args.seed, &args.tier);
        return;
    }
    let big = args.thorough() || args.search;
    let mut shrunk = 0;
    // small-scope exhaustive part
    let depth = if big { 4 } else { 3 };
    let mut scripts: Vec<Vec<Op>> = vec![];
    enumerate(depth, &mut |s| scripts.push(s.to_vec()));
    rec.count_n("exhaustive-scripts", scripts.len() as u64);
    rec.notes.push(format!("exhaustive: every well-typed script of {depth} ops over ids {{0,1}} ({} scripts)", scripts.len()));
    // seeded random part
    let mut rng = Rng::new(args.seed);
    let cases = args.budget(450, 3000);
    for _ in 0..cases {
        let (ops, malformed) = gen_script(&mut rng, big);
        rec.count(if malformed { "script:malformed-stream" } else { "script:well-typed" });
        scripts.push(ops);
    }
    for ops in &scripts {
        rec.count_n("ops", ops.len() as u64);
        for o in ops {
            rec.count(&format!("op:{}", o.show().split(' ').next().unwrap()));
        }
        let txt = ops.iter().map(|o| o.show()).collect::<Vec<_>>().join("; ");
        if ops.len() >= 3 {
            rec.nontrivial(fnv(&txt));
        }
        if rec.cases() % 997 == 3 {
            rec.sample(txt);
        }
        let before = rec.oracle_failures.len();
        record_case(&mut rec, &mut env, ops, shrunk < 8);
        if rec.oracle_failures.len() > before {
            shrunk += 1;
            rec.count("cases-failing-oracle");
        }
    }
    rec.finish(args.seed, &args.tier);
}
