//! C34 — command signatures bind command bytes, name, parent and author; sign and verify derive
//! the same command id.
//!
//! REAL code driven: `SigningKey::sign_cmd`, `VerifyingKey::verify_cmd`, `merge_cmd_id`,
//! `crypto::sign` / `crypto::verify` of aranya-crypto-ffi (through the public `FfiModule::call`),
//! `hash::tuple_hash`, all with the default cipher suite / default engine.
//!
//! Tie of `Model.Framing` (no hooks): for every key, command and merge the harness frames the
//! public inputs exactly as the Lean model does (src/cry.rs), hashes the bytes with the real
//! SHA-256 and requires the result to reproduce the real key id / command id / merge id / generic
//! `tuple_hash` digest; the digest (not public) is checked by verifying the real Ed25519 signature
//! over `sha256(framed bytes)` with the raw primitive.  The framed bytes are the answers written
//! to real.txt; `./check` diffs them against the Lean driver's bytes.
//!
//! Tie of `Spec.Sym` + S-level oracle: every verification request (honest and mutated) is sent
//! to the symbolic model (tokens `k<i>`, `s<j>`, `i<j>`, `b<hex>`), and independently judged
//! by the oracle written here: a verification must succeed iff (key, name, parent, data, sig
//! [, claimed id]) are exactly those of a signing event, and then return that event's id.

#[path = "../cry.rs"]
mod cry;

use aranya_crypto::{
    dangerous::spideroak_crypto::{
        ed25519::Ed25519,
        hash::tuple_hash,
        import::Import as _,
        rust::Sha256,
        signer::{Signer, VerifyingKey as _},
    },
    default::DefaultEngine,
    keystore::memstore::MemStore,
    merge_cmd_id,
    policy::CmdId,
    Cmd, KeyStoreExt as _, Signature, SigningKey,
};
use aranya_crypto_ffi::Ffi;
use aranya_policy_vm::{
    ffi::FfiModule, CommandContext, Identifier, MachineErrorType, OpenContext, SealContext, Stack, Value,
};
use cry::{flip, id_preimage, pre_answer, sha256, suite_line, suite_tuple_preimage, tuple_preimage, SeedRng, CS};
use vh::{fnv, hex, Args, Recorder, Rng};

struct VStack(Vec<Value>);
impl Stack for VStack {
    fn push_value(&mut self, value: Value) -> Result<(), MachineErrorType> {
        self.0.push(value);
        Ok(())
    }
    fn pop_value(&mut self) -> Result<Value, MachineErrorType> {
        self.0.pop().ok_or(MachineErrorType::StackUnderflow)
    }
    fn peek_value(&mut self) -> Result<&mut Value, MachineErrorType> {
        self.0.last_mut().ok_or(MachineErrorType::StackUnderflow)
    }
}

struct Key {
    sk: SigningKey<CS>,
    /// raw exported public key bytes
    pk_raw: Vec<u8>,
    /// postcard encoding of the `VerifyingKey` (what `crypto::verify` takes)
    pk_postcard: Vec<u8>,
    id: [u8; 32],
}

#[derive(Clone)]
struct Ev {
    k: usize,
    name: String,
    parent: [u8; 32],
    data: Vec<u8>,
    sig: Vec<u8>,
    id: [u8; 32],
}

type Eng = DefaultEngine<SeedRng, CS>;

struct World {
    keys: Vec<Key>,
    evs: Vec<Ev>,
    eng: Eng,
    ffi: Ffi<MemStore>,
    f_sign: usize,
    f_verify: usize,
}

fn tokb(b: &[u8]) -> String {
    format!("b{}", hex(b))
}

impl World {
    fn sig_tok(&self, sig: &[u8]) -> String {
        match self.evs.iter().position(|e| e.sig == sig) {
            Some(j) => format!("s{j}"),
            None => tokb(sig),
        }
    }
    fn id_tok(&self, id: &[u8]) -> String {
        match self.evs.iter().position(|e| e.id[..] == *id) {
            Some(j) => format!("i{j}"),
            None => tokb(id),
        }
    }
    fn pk_tok(&self, pk_postcard: &[u8]) -> String {
        match self.keys.iter().position(|k| k.pk_postcard == pk_postcard) {
            Some(i) => format!("k{i}"),
            None => tokb(pk_postcard),
        }
    }
    /// S-level oracle: the signing event these inputs belong to, if any
    fn event_of(&self, k: Option<usize>, name: &str, parent: &[u8; 32], data: &[u8], sig: &[u8]) -> Option<usize> {
        let k = k?;
        self.evs
            .iter()
            .position(|e| e.k == k && e.name == name && e.parent == *parent && e.data == data && e.sig == sig)
    }
}

/// `VerifyingKey::verify_cmd` on the real code + model request + oracle
fn do_verify(rec: &mut Recorder, w: &World, kind: &str, k: usize, name: &str, parent: &[u8; 32], data: &[u8], sig: &[u8]) {
    rec.count(&format!("verify:{kind}"));
    let req = format!(
        "verify k{k} {} {} {} {}",
        tokb(name.as_bytes()),
        tokb(parent),
        tokb(data),
        w.sig_tok(sig)
    );
    let parent_id = CmdId::from_bytes(*parent);
    let pk = w.keys[k].sk.public().expect("public");
    let real: Option<[u8; 32]> = match Signature::<CS>::from_bytes(sig) {
        Err(_) => None,
        Ok(s) => match vh::catch(std::panic::AssertUnwindSafe(|| {
            pk.verify_cmd(Cmd { data, name, parent_id: &parent_id }, &s)
        })) {
            Ok(Ok(id)) => Some(*id.as_array()),
            Ok(Err(_)) => None,
            Err(p) => {
                rec.panics.push(format!("verify_cmd panicked: {p} on `{req}`"));
                None
            }
        },
    };
    let ans = match real {
        None => "fail".to_string(),
        Some(id) => match w.evs.iter().position(|e| e.id == id) {
            Some(j) => format!("ok {j}"),
            None => "ok ?".into(),
        },
    };
    rec.line(req.clone(), ans);
    let want = w.event_of(Some(k), name, parent, data, sig);
    match (want, real) {
        (None, None) => {}
        (Some(j), Some(id)) if w.evs[j].id == id => {}
        (Some(j), Some(id)) => rec.oracle_fail(format!(
            "[{kind}] verify_cmd returned id {} but sign_cmd derived {} for the same command (event {j})",
            hex(&id),
            hex(&w.evs[j].id)
        )),
        (Some(j), None) => rec.oracle_fail(format!("[{kind}] honest signature of event {j} rejected: `{req}`")),
        (None, Some(_)) => rec.oracle_fail(format!(
            "[{kind}] verify_cmd ACCEPTED inputs that are not a signing event (modified {kind}): `{req}`"
        )),
    }
}

/// `crypto::verify` (aranya-crypto-ffi) through `FfiModule::call` + model request + oracle
fn do_ffi_verify(
    rec: &mut Recorder,
    w: &World,
    kind: &str,
    pk_postcard: &[u8],
    name: &str,
    parent: &[u8; 32],
    data: &[u8],
    claimed: &[u8; 32],
    sig: &[u8],
) {
    let Ok(ident) = name.parse::<Identifier>() else { return };
    rec.count(&format!("ffiverify:{kind}"));
    let req = format!(
        "ffiverify {} {} {} {} {} {}",
        w.pk_tok(pk_postcard),
        tokb(name.as_bytes()),
        tokb(parent),
        tokb(data),
        w.id_tok(claimed),
        w.sig_tok(sig)
    );
    let ctx = CommandContext::Open(OpenContext { name: ident });
    let mut st = VStack(vec![
        Value::Option(Some(Box::new(Value::Bytes(pk_postcard.to_vec())))),
        Value::Id(CmdId::from_bytes(*parent).as_base()),
        Value::Bytes(data.to_vec()),
        Value::Id(CmdId::from_bytes(*claimed).as_base()),
        Value::Bytes(sig.to_vec()),
    ]);
    let real = match vh::catch(std::panic::AssertUnwindSafe(|| w.ffi.call(w.f_verify, &mut st, &ctx, &w.eng))) {
        Ok(Ok(())) => true,
        Ok(Err(_)) => false,
        Err(p) => {
            rec.panics.push(format!("crypto::verify panicked: {p} on `{req}`"));
            false
        }
    };
    rec.line(req.clone(), if real { "ok" } else { "fail" });
    let k = w.keys.iter().position(|k| k.pk_postcard == pk_postcard);
    let want = match w.event_of(k, name, parent, data, sig) {
        Some(j) => w.evs[j].id == *claimed,
        None => false,
    };
    if want != real {
        rec.oracle_fail(format!(
            "[{kind}] crypto::verify {} but the inputs {} a signing event with that id: `{req}`",
            if real { "ACCEPTED" } else { "rejected" },
            if want { "are" } else { "are NOT" }
        ));
    }
}

fn gen_name(rng: &mut Rng) -> String {
    const IDS: &[&str] = &["AddDevice", "Init", "a", "Foo_1", "RemoveMember", "SetLabel2", "x9", "CreateChannel"];
    match rng.below(10) {
        0..=5 => (*rng.pick(IDS)).to_string(),
        6 => String::new(),
        7 => {
            // printable ascii, any length
            let n = rng.range(1, 40) as usize;
            (0..n).map(|_| (0x20 + rng.below(0x5f) as u8) as char).collect()
        }
        8 => "Ünïcode-命令".to_string(),
        _ => {
            let n = rng.range(1, 12) as usize;
            let mut s = String::from("C");
            for _ in 0..n {
                s.push((b'a' + rng.below(26) as u8) as char);
            }
            s
        }
    }
}

fn gen_len(rng: &mut Rng, big: bool) -> usize {
    const SMALL: &[usize] = &[0, 1, 2, 3, 15, 16, 31, 32, 33, 63, 64, 100, 127, 128, 255, 256, 257];
    const BIG: &[usize] = &[511, 512, 1000, 4096, 8191, 8192, 8193];
    if big && rng.chance(1, 12) {
        *rng.pick(BIG)
    } else if rng.chance(2, 3) {
        *rng.pick(SMALL)
    } else {
        rng.below(300) as usize
    }
}

fn ascii(rng: &mut Rng, n: usize) -> Vec<u8> {
    (0..n).map(|_| b'a' + rng.below(26) as u8).collect()
}

fn run_case(rec: &mut Recorder, cseed: u64, big: bool) {
    let mut rng = Rng::new(cseed);
    let krng = SeedRng::new(rng.next_u64());
    rec.begin_case();
    rec.line(format!("case {cseed} {}", big as u8), "ok");
    rec.line(suite_line(), "ok");

    // ---------------------------------------------------------------- keys
    let (eng, _) = Eng::from_entropy(SeedRng::new(rng.next_u64()));
    let mut store = MemStore::new();
    let nk = rng.range(2, 3) as usize;
    let mut keys = vec![];
    for _ in 0..nk {
        let sk = SigningKey::<CS>::new(&krng);
        let pk = sk.public().expect("public key");
        let pk_postcard = postcard::to_allocvec(&pk).expect("encode pk");
        // raw key bytes are the trailing 32 bytes of the postcard encoding (ExportedData.data)
        let pk_raw = pk_postcard[pk_postcard.len() - 32..].to_vec();
        let id = *sk.id().expect("id").as_array();
        store.insert_key(&eng, sk.clone()).expect("insert key");
        rec.line(
            format!("skid {}", hex(&pk_raw)),
            pre_answer(&id_preimage(b"Device Signing Key V1", &[pk_raw.clone()]), &id),
        );
        keys.push(Key { sk, pk_raw, pk_postcard, id });
    }
    let schema = <Ffi<MemStore> as FfiModule>::SCHEMA;
    let fidx = |n: &str| schema.functions.iter().position(|f| f.name.as_str() == n).expect("ffi function");
    let mut w = World { keys, evs: vec![], eng, ffi: Ffi::new(store), f_sign: fidx("sign"), f_verify: fidx("verify") };

    // ---------------------------------------------------------------- signing events
    let ne = rng.range(1, 4) as usize;
    let mut fp = String::new();
    for _ in 0..ne {
        let k = rng.below(nk as u64) as usize;
        let name = gen_name(&mut rng);
        let mut parent = [0u8; 32];
        match rng.below(5) {
            0 => {}
            1 => parent.copy_from_slice(&ascii(&mut rng, 32)),
            _ => parent.copy_from_slice(&rng.bytes(32)),
        }
        let dl = gen_len(&mut rng, big);
        let data = if rng.chance(1, 3) { ascii(&mut rng, dl) } else { rng.bytes(dl) };
        let parent_id = CmdId::from_bytes(parent);
        let (sig, id) = w.keys[k]
            .sk
            .sign_cmd(Cmd { data: &data, name: &name, parent_id: &parent_id })
            .expect("sign_cmd");
        let sig = std::borrow::Borrow::<[u8]>::borrow(&sig.to_bytes()).to_vec();
        let id = *id.as_array();
        rec.count("events");
        rec.count(&format!("datalen:{}", match data.len() { 0 => "0", 1..=31 => "1-31", 32..=255 => "32-255", 256..=1023 => "256-1023", _ => "1024+" }));
        fp.push_str(&format!("{k}|{name}|{}|{};", hex(&parent), data.len()));

        // framing tie: digest, checked through the raw Ed25519 primitive and through the id
        let p_d = suite_tuple_preimage(b"SignPolicyCommand-v1", &[w.keys[k].id.to_vec(), name.as_bytes().to_vec(), parent.to_vec(), data.clone()]);
        let d = sha256(&p_d);
        let vk = <Ed25519 as Signer>::VerifyingKey::import(&w.keys[k].pk_raw[..]).expect("import vk");
        let rsig = <Ed25519 as Signer>::Signature::import(&sig[..]).expect("import sig");
        let prim_ok = vk.verify(&d, &rsig).is_ok();
        rec.line(
            format!("digest {} {} {} {}", hex(&w.keys[k].id), hex(name.as_bytes()), hex(&parent), hex(&data)),
            if prim_ok { hex(&p_d) } else { "MISMATCH the real signature does not verify over sha256(model-framed digest bytes)".into() },
        );
        rec.line(
            format!("cmdid {} {}", hex(&d), hex(&sig)),
            pre_answer(&id_preimage(b"PolicyCommandId-v1", &[d.to_vec(), sig.clone()]), &id),
        );
        rec.line(format!("sign {k} {} {} {}", tokb(name.as_bytes()), tokb(&parent), tokb(&data)), format!("ok {}", w.evs.len()));
        w.evs.push(Ev { k, name: name.clone(), parent, data: data.clone(), sig: sig.clone(), id });

        // crypto::sign (FFI) must produce the same signature and id
        if let Ok(ident) = name.parse::<Identifier>() {
            rec.count("ffi-sign");
            let ctx = CommandContext::Seal(SealContext { name: ident, head_id: parent_id });
            let mut st = VStack(vec![
                Value::Option(Some(Box::new(Value::Id(w.keys[k].sk.id().unwrap().as_base())))),
                Value::Bytes(data.clone()),
            ]);
            match w.ffi.call(w.f_sign, &mut st, &ctx, &w.eng) {
                Ok(()) => match st.0.pop() {
                    Some(Value::Struct(s)) => {
                        let fsig = s.fields.iter().find(|(k, _)| k.as_str() == "signature").map(|(_, v)| v.clone());
                        let fid = s.fields.iter().find(|(k, _)| k.as_str() == "command_id").map(|(_, v)| v.clone());
                        if fsig != Some(Value::Bytes(sig.clone())) || fid != Some(Value::Id(CmdId::from_bytes(id).as_base())) {
                            rec.oracle_fail("crypto::sign and sign_cmd disagree on (signature, command id)");
                        }
                    }
                    _ => rec.oracle_fail("crypto::sign did not return a Signed struct"),
                },
                Err(_) => rec.oracle_fail("crypto::sign failed on an honest request"),
            }
        }
    }
    rec.nontrivial(fnv(&fp));
    if rec.samples.len() < 3 {
        rec.sample(format!("case {cseed}: keys={nk} events: {fp}"));
    }

    // ---------------------------------------------------------------- verification: honest + every modification
    let evs = w.evs.clone();
    for (j, e) in evs.iter().enumerate() {
        let other_k = (e.k + 1 + rng.below(nk as u64 - 1) as usize) % nk;
        let pkpc = w.keys[e.k].pk_postcard.clone();
        do_verify(rec, &w, "honest", e.k, &e.name, &e.parent, &e.data, &e.sig);
        do_ffi_verify(rec, &w, "honest", &pkpc, &e.name, &e.parent, &e.data, &e.id, &e.sig);

        // ---- one generator of modified (name, parent, data) triples, applied to both entry points
        let mut muts: Vec<(&'static str, String, [u8; 32], Vec<u8>)> = vec![];
        // name
        if !e.name.is_empty() && e.name.is_ascii() {
            let mut b = e.name.clone().into_bytes();
            let p = rng.below(b.len() as u64) as usize;
            b[p] ^= 1;
            if let Ok(s) = String::from_utf8(b) { muts.push(("name-flip", s, e.parent, e.data.clone())); }
            let mut s = e.name.clone(); s.pop();
            muts.push(("name-truncate", s, e.parent, e.data.clone()));
            muts.push(("name-empty", String::new(), e.parent, e.data.clone()));
            let sw: String = e.name.chars().map(|c| if c.is_ascii_lowercase() { c.to_ascii_uppercase() } else { c.to_ascii_lowercase() }).collect();
            if sw != e.name { muts.push(("name-case", sw, e.parent, e.data.clone())); }
        }
        muts.push(("name-append", format!("{}x", e.name), e.parent, e.data.clone()));
        muts.push(("name-append-nul", format!("{}\0", e.name), e.parent, e.data.clone()));
        // parent
        {
            let p = rng.below(32) as usize;
            let mut q = e.parent; q[p] ^= 1 << rng.below(8);
            muts.push(("parent-flip", e.name.clone(), q, e.data.clone()));
            if e.parent != [0u8; 32] { muts.push(("parent-zero", e.name.clone(), [0u8; 32], e.data.clone())); }
            let mut q = e.parent; q.reverse();
            if q != e.parent { muts.push(("parent-reverse", e.name.clone(), q, e.data.clone())); }
            muts.push(("parent-is-own-id", e.name.clone(), e.id, e.data.clone()));
        }
        // data
        if !e.data.is_empty() {
            let p = rng.below(e.data.len() as u64) as usize;
            muts.push(("data-flip", e.name.clone(), e.parent, flip(&e.data, p, rng.below(8) as u8)));
            muts.push(("data-truncate", e.name.clone(), e.parent, e.data[..e.data.len() - 1].to_vec()));
            muts.push(("data-drop-first", e.name.clone(), e.parent, e.data[1..].to_vec()));
            muts.push(("data-empty", e.name.clone(), e.parent, vec![]));
        }
        { let mut d = e.data.clone(); d.push(0); muts.push(("data-append-0", e.name.clone(), e.parent, d)); }
        { let mut d = e.data.clone(); d.push(rng.next_u64() as u8); muts.push(("data-append", e.name.clone(), e.parent, d)); }
        // boundary shifts: the concatenation of the fields is unchanged, only the split moves
        if !e.name.is_empty() && e.name.is_ascii() {
            let kk = rng.range(1, e.name.len() as u64) as usize;
            let (a, b) = e.name.split_at(e.name.len() - kk);
            let mut d = b.as_bytes().to_vec(); d.extend_from_slice(&e.data);
            muts.push(("shift-name-to-data", a.to_string(), e.parent, d));
        }
        if !e.data.is_empty() {
            let mx = e.data.iter().take_while(|c| c.is_ascii() && **c != 0).count().min(8);
            if mx > 0 {
                let kk = rng.range(1, mx as u64) as usize;
                let s = format!("{}{}", e.name, std::str::from_utf8(&e.data[..kk]).unwrap());
                muts.push(("shift-data-to-name", s, e.parent, e.data[kk..].to_vec()));
            }
            // parent ‖ data rotated by one byte: same total length, every boundary moved
            let mut s: Vec<u8> = e.parent.to_vec(); s.extend_from_slice(&e.data);
            s.rotate_left(1);
            let mut q = [0u8; 32]; q.copy_from_slice(&s[..32]);
            if q != e.parent || s[32..] != e.data[..] {
                muts.push(("shift-parent-data-rotate", e.name.clone(), q, s[32..].to_vec()));
            }
        }
        if e.parent.is_ascii() && !e.data.is_empty() {
            // name ‖ parent ‖ data: move k bytes across BOTH boundaries (name grows, data shrinks)
            let kk = rng.range(1, e.data.len().min(8) as u64) as usize;
            let s = format!("{}{}", e.name, std::str::from_utf8(&e.parent[..kk]).unwrap());
            let mut q = [0u8; 32];
            q[..32 - kk].copy_from_slice(&e.parent[kk..]);
            q[32 - kk..].copy_from_slice(&e.data[..kk]);
            muts.push(("shift-name-parent-data", s, q, e.data[kk..].to_vec()));
        }
        if let Ok(ds) = std::str::from_utf8(&e.data) {
            if ds != e.name { muts.push(("swap-name-data", ds.to_string(), e.parent, e.name.as_bytes().to_vec())); }
        }
        // multi-point
        {
            let mut q = e.parent; q[0] ^= 0x80;
            muts.push(("multi-name+parent", format!("{}_", e.name), q, e.data.clone()));
            let mut d = e.data.clone(); d.insert(0, 7);
            muts.push(("multi-parent+data", e.name.clone(), q, d.clone()));
            muts.push(("multi-all", format!("Z{}", e.name), q, d));
        }
        // another event's fields
        for (j2, e2) in evs.iter().enumerate() {
            if j2 != j && (e2.name != e.name || e2.parent != e.parent || e2.data != e.data) {
                muts.push(("other-event-command", e2.name.clone(), e2.parent, e2.data.clone()));
                break;
            }
        }
        for (kind, n, p, d) in &muts {
            if *n == e.name && *p == e.parent && *d == e.data { continue; }
            do_verify(rec, &w, kind, e.k, n, p, d, &e.sig);
            do_ffi_verify(rec, &w, kind, &pkpc, n, p, d, &e.id, &e.sig);
        }
        // ---- key
        do_verify(rec, &w, "wrong-key", other_k, &e.name, &e.parent, &e.data, &e.sig);
        do_ffi_verify(rec, &w, "wrong-key", &w.keys[other_k].pk_postcard.clone(), &e.name, &e.parent, &e.data, &e.id, &e.sig);
        {
            let p = rng.below(pkpc.len() as u64) as usize;
            do_ffi_verify(rec, &w, "pk-bytes-flip", &flip(&pkpc, p, rng.below(8) as u8), &e.name, &e.parent, &e.data, &e.id, &e.sig);
            let l = pkpc.len();
            do_ffi_verify(rec, &w, "pk-raw-flip", &flip(&pkpc, l - 1 - rng.below(32) as usize, rng.below(8) as u8), &e.name, &e.parent, &e.data, &e.id, &e.sig);
            do_ffi_verify(rec, &w, "pk-truncated", &pkpc[..l - 1], &e.name, &e.parent, &e.data, &e.id, &e.sig);
            do_ffi_verify(rec, &w, "pk-empty", &[], &e.name, &e.parent, &e.data, &e.id, &e.sig);
        }
        // ---- signature bytes
        let mut sigs: Vec<(&'static str, Vec<u8>)> = vec![];
        sigs.push(("sig-flip-R", flip(&e.sig, rng.below(32) as usize, rng.below(8) as u8)));
        sigs.push(("sig-flip-S", flip(&e.sig, 32 + rng.below(32) as usize, rng.below(8) as u8)));
        for _ in 0..(if big { 8 } else { 2 }) {
            sigs.push(("sig-flip-any", flip(&e.sig, rng.below(e.sig.len() as u64) as usize, rng.below(8) as u8)));
        }
        sigs.push(("sig-truncated", e.sig[..e.sig.len() - 1].to_vec()));
        { let mut s = e.sig.clone(); s.push(0); sigs.push(("sig-extended", s)); }
        sigs.push(("sig-zero", vec![0u8; e.sig.len()]));
        sigs.push(("sig-empty", vec![]));
        { let mut s = e.sig.clone(); s.swap(0, 63); if s != e.sig { sigs.push(("sig-swap-ends", s)); } }
        { let mut s = e.sig[32..].to_vec(); s.extend_from_slice(&e.sig[..32]); if s != e.sig { sigs.push(("sig-swap-halves", s)); } }
        for e2 in evs.iter() {
            if e2.sig != e.sig { sigs.push(("sig-of-other-event", e2.sig.clone())); break; }
        }
        sigs.push(("sig-random", rng.bytes(64)));
        for (kind, s) in &sigs {
            do_verify(rec, &w, kind, e.k, &e.name, &e.parent, &e.data, s);
            do_ffi_verify(rec, &w, kind, &pkpc, &e.name, &e.parent, &e.data, &e.id, s);
        }
        {
            // multi-point: modified data AND modified signature
            let mut d = e.data.clone(); d.push(1);
            do_verify(rec, &w, "multi-data+sig", e.k, &e.name, &e.parent, &d, &flip(&e.sig, 5, 3));
        }
        // ---- claimed id (policy-level verify)
        {
            let mut ids: Vec<(&'static str, [u8; 32])> = vec![];
            let mut c = e.id; c[rng.below(32) as usize] ^= 1 << rng.below(8);
            ids.push(("claimed-flip", c));
            ids.push(("claimed-zero", [0u8; 32]));
            ids.push(("claimed-is-parent", e.parent));
            let mut c = e.id; c.reverse();
            ids.push(("claimed-reversed", c));
            for e2 in evs.iter() {
                if e2.id != e.id { ids.push(("claimed-other-event", e2.id)); break; }
            }
            ids.push(("claimed-is-digest", sha256(&suite_tuple_preimage(b"SignPolicyCommand-v1", &[w.keys[e.k].id.to_vec(), e.name.as_bytes().to_vec(), e.parent.to_vec(), e.data.clone()]))));
            for (kind, c) in &ids {
                if *c == e.id { continue; }
                do_ffi_verify(rec, &w, kind, &pkpc, &e.name, &e.parent, &e.data, c, &e.sig);
            }
        }
    }

    // ---------------------------------------------------------------- merge ids
    if evs.len() >= 2 || rng.chance(1, 2) {
        let l = evs[0].id;
        let r = if evs.len() >= 2 { evs[1].id } else { evs[0].parent };
        for (a, b) in [(l, r), (r, l), (l, l)] {
            rec.count("mergeid");
            let m = merge_cmd_id::<CS>(CmdId::from_bytes(a), CmdId::from_bytes(b));
            rec.line(
                format!("mergeid {} {}", hex(&a), hex(&b)),
                pre_answer(&id_preimage(b"MergeCommandId-v1", &[a.to_vec(), b.to_vec()]), m.as_bytes()),
            );
            if evs.iter().any(|e| e.id[..] == *m.as_bytes()) {
                rec.oracle_fail("a merge command id equals a signed command's id");
            }
        }
        let m1 = merge_cmd_id::<CS>(CmdId::from_bytes(l), CmdId::from_bytes(r));
        let m2 = merge_cmd_id::<CS>(CmdId::from_bytes(r), CmdId::from_bytes(l));
        if l != r && m1 == m2 {
            rec.oracle_fail("merge_cmd_id(l, r) == merge_cmd_id(r, l) for l != r");
        }
    }

    // ---------------------------------------------------------------- generic tuple_hash framing
    for _ in 0..2 {
        let n = rng.below(6) as usize;
        let items: Vec<Vec<u8>> = (0..n).map(|_| { let l = gen_len(&mut rng, big); rng.bytes(l) }).collect();
        rec.count("tuple");
        rec.count(&format!("tuple-items:{n}"));
        let real = tuple_hash::<Sha256, _>(items.iter());
        let mut req = String::from("tuple");
        for it in &items { req.push(' '); req.push_str(&hex(it)); }
        rec.line(req, pre_answer(&tuple_preimage(&items, 32), real.as_bytes()));
        // boundary shift on the real function
        if n >= 2 && !items[0].is_empty() {
            let mut sh = items.clone();
            let b = sh[0].pop().unwrap();
            sh[1].insert(0, b);
            rec.count("tuple-shift");
            if tuple_hash::<Sha256, _>(sh.iter()).as_bytes() == real.as_bytes() {
                rec.oracle_fail("tuple_hash collides under a boundary shift");
            }
        }
    }
}

fn main() {
    let args = Args::parse();
    vh::quiet_panics();
    let mut rec = Recorder::new(&args.out);
    if let Some(p) = &args.replay {
        for l in vh::read_replay_input(p) {
            let t: Vec<&str> = l.split(' ').collect();
            if t.len() == 3 && t[0] == "case" {
                run_case(&mut rec, t[1].parse().expect("case seed"), t[2] == "1");
            }
        }
        rec.finish(args.seed, &args.tier);
        return;
    }
    let mut rng = Rng::new(args.seed);
    let big = args.thorough() || args.search;
    let cases = args.budget(400, 2000);
    for _ in 0..cases {
        let cs = rng.next_u64() >> 1;
        run_case(&mut rec, cs, big);
    }
    rec.finish(args.seed, &args.tier);
}
