//! C12 — fact storage behaves as a key-value map.
//!
//! Drives the REAL `aranya_runtime::storage::linear` storage (in-memory io manager) through the
//! public `StorageProvider` / `Storage` / `Perspective` / `FactPerspective` / `Query` traits with
//! op sequences over compound keys spread over commands and segments (chains deeper than the
//! compaction limit), and
//!   * writes every request + the real answer for the Lean model driver (`drv_c12`),
//!   * compares every exact / prefix query with a flat `BTreeMap` replay of the same inserts and
//!     deletes (the S-level oracle), including mid-segment reconstruction.

use std::collections::BTreeMap;

use aranya_runtime::{
    storage::linear::{testing::Manager, verif_api_c12, LinearStorageProvider},
    Address, CmdId, Command, GraphId, Keys, Location, MaxCut, Perspective, PolicyId, Prior,
    Priority, Query, QueryMut, Segment, SegmentIndex, Storage, StorageError, StorageProvider,
};
use vh::{fnv, hex, unhex, Args, Recorder, Rng};

type SP = LinearStorageProvider<Manager>;
type St = <SP as StorageProvider>::Storage;
type Persp = <SP as StorageProvider>::Perspective;
type FPersp = <St as Storage>::FactPerspective;
type FIndex = <St as Storage>::FactIndex;

/// flat key: (name bytes, components)
type FKey = (Vec<u8>, Vec<Vec<u8>>);
type Flat = BTreeMap<FKey, Vec<u8>>;

struct HCmd {
    id: CmdId,
    parent: Prior<Address>,
    prio: Priority,
}
impl Command for HCmd {
    fn priority(&self) -> Priority {
        self.prio.clone()
    }
    fn id(&self) -> CmdId {
        self.id
    }
    fn parent(&self) -> Prior<Address> {
        self.parent
    }
    fn policy(&self) -> Option<&[u8]> {
        None
    }
    fn bytes(&self) -> &[u8] {
        b"c12"
    }
}

fn cmd_id(n: u64) -> CmdId {
    let mut b = [0u8; 32];
    b[..8].copy_from_slice(&n.to_be_bytes());
    b[31] = 0xC1;
    CmdId::from_bytes(b)
}

// ------------------------------------------------------------------ token formats

fn parse_key(s: &str) -> Option<FKey> {
    let (n, cs) = s.split_once(':')?;
    if cs.contains(':') {
        return None;
    }
    let name = unhex(n)?;
    let comps = if cs.is_empty() {
        vec![]
    } else {
        cs.split(',').map(unhex).collect::<Option<Vec<_>>>()?
    };
    Some((name, comps))
}
fn show_key(k: &FKey) -> String {
    format!("{}:{}", hex(&k.0), k.1.iter().map(|c| hex(c)).collect::<Vec<_>>().join(","))
}
fn show_opt(v: &Option<Vec<u8>>) -> String {
    match v {
        None => "none".into(),
        Some(v) => format!("some:{}", hex(v)),
    }
}
fn show_facts(l: &[(FKey, Vec<u8>)]) -> String {
    format!("[{}]", l.iter().map(|(k, v)| format!("{}={}", show_key(k), hex(v))).collect::<Vec<_>>().join(";"))
}
fn to_keys(k: &FKey) -> Keys {
    k.1.iter().map(|c| c.clone().into_boxed_slice()).collect()
}
fn name_of(k: &FKey) -> String {
    String::from_utf8(k.0.clone()).expect("names are ASCII")
}
fn err_name(e: &StorageError) -> &'static str {
    match e {
        StorageError::EmptyPerspective => "err empty",
        StorageError::CommandOutOfBounds(_) => "err oob",
        StorageError::Bug(_) => "err toodeep",
        _ => "err other",
    }
}

// ------------------------------------------------------------------ real-side queries

fn real_query<Q: Query>(q: &Q, k: &FKey) -> Result<Option<Vec<u8>>, String> {
    let keys = to_keys(k);
    q.query(&name_of(k), &keys).map(|o| o.map(|b| b.to_vec())).map_err(|e| format!("{e}"))
}
fn real_prefix<Q: Query>(q: &Q, k: &FKey) -> Result<Vec<(FKey, Vec<u8>)>, String> {
    let keys = to_keys(k);
    let it = q.query_prefix(&name_of(k), &keys).map_err(|e| format!("{e}"))?;
    let mut out = vec![];
    for f in it {
        let f = f.map_err(|e| format!("{e}"))?;
        out.push(((k.0.clone(), f.key.iter().map(|c| c.to_vec()).collect()), f.value.to_vec()));
    }
    Ok(out)
}

// ------------------------------------------------------------------ S-level oracle

fn flat_query(m: &Flat, k: &FKey) -> Option<Vec<u8>> {
    m.get(k).cloned()
}
/// all live facts under the name whose components start with the prefix, ascending
fn flat_prefix(m: &Flat, p: &FKey) -> Vec<(FKey, Vec<u8>)> {
    m.iter()
        .filter(|(k, _)| k.0 == p.0 && k.1.len() >= p.1.len() && k.1[..p.1.len()] == p.1[..])
        .map(|(k, v)| (k.clone(), v.clone()))
        .collect()
}

struct SegInfo {
    index: SegmentIndex,
    first: MaxCut,
    /// flat map after each command (the last one includes writes left pending at write time)
    snaps: Vec<Flat>,
}

struct World {
    provider: SP,
    graph: Option<GraphId>,
    segs: Vec<SegInfo>,
    idxs: Vec<(Option<FIndex>, Flat)>,
    persp: Option<Persp>,
    /// oracle for the current perspective: current flat map + snapshot after each command
    pflat: Flat,
    psnaps: Vec<Flat>,
    fp: Option<FPersp>,
    fflat: Flat,
    next_id: u64,
}

impl World {
    fn new() -> Self {
        let mut provider = LinearStorageProvider::new(Manager::new());
        let persp = provider.new_perspective(PolicyId::new(0));
        World {
            provider,
            graph: None,
            segs: vec![],
            idxs: vec![],
            persp: Some(persp),
            pflat: Flat::new(),
            psnaps: vec![],
            fp: None,
            fflat: Flat::new(),
            next_id: 0,
        }
    }
    fn storage(&mut self) -> &mut St {
        let g = self.graph.expect("storage not created yet");
        self.provider.get_storage(g).expect("get_storage")
    }
    fn loc(&self, s: usize, i: u64) -> Location {
        let sg = &self.segs[s];
        Location::new(sg.index, sg.first.checked_add(i).unwrap())
    }
}

fn dump_index(ix: &FIndex, rec: &mut Recorder) -> String {
    match verif_api_c12::fact_index_layers(ix) {
        Err(e) => format!("err {e}"),
        Ok(layers) => {
            let n = layers.len();
            let mut parts = vec![];
            for (j, (depth, entries)) in layers.iter().enumerate() {
                // depth bookkeeping: `prior.depth + 1`, or 1 without a prior
                if *depth as usize != n - j {
                    rec.oracle_fail(format!("fact index layer {j} of {n} records depth {depth}"));
                }
                let mut es: Vec<(FKey, Option<Vec<u8>>)> = entries
                    .iter()
                    .map(|(nm, k, v)| {
                        ((nm.as_bytes().to_vec(), k.iter().map(|c| c.to_vec()).collect()), v.as_ref().map(|b| b.to_vec()))
                    })
                    .collect();
                es.sort();
                let body = es
                    .iter()
                    .map(|(k, v)| format!("{}={}", show_key(k), v.as_ref().map_or("~".to_string(), |v| hex(v))))
                    .collect::<Vec<_>>()
                    .join(";");
                parts.push(format!("d={depth}{{{body}}}"));
            }
            parts.join("|")
        }
    }
}

fn check_q(rec: &mut Recorder, what: &str, got: &Result<Option<Vec<u8>>, String>, want: Option<Vec<u8>>) -> String {
    match got {
        Err(e) => {
            rec.oracle_fail(format!("{what}: query failed: {e}"));
            format!("err {e}")
        }
        Ok(g) => {
            if *g != want {
                rec.oracle_fail(format!("{what}: returned {} but the flat map holds {}", show_opt(g), show_opt(&want)));
            }
            show_opt(g)
        }
    }
}
fn check_qp(rec: &mut Recorder, what: &str, got: &Result<Vec<(FKey, Vec<u8>)>, String>, want: Vec<(FKey, Vec<u8>)>) -> String {
    match got {
        Err(e) => {
            rec.oracle_fail(format!("{what}: prefix query failed: {e}"));
            format!("err {e}")
        }
        Ok(g) => {
            if *g != want {
                rec.oracle_fail(format!("{what}: returned {} but the flat map gives {}", show_facts(g), show_facts(&want)));
            }
            show_facts(g)
        }
    }
}

const BAD: &str = "bad-op";

/// Executes one request line on the real storage; returns the canonical answer.
fn exec(w: &mut World, rec: &mut Recorder, op: &str) -> String {
    let t: Vec<&str> = op.split(' ').filter(|s| !s.is_empty()).collect();
    let num = |s: &str| s.parse::<usize>().ok();
    match t.as_slice() {
        ["new"] => {
            *w = World::new();
            "ok".into()
        }
        ["ins", k, v] => {
            let (Some(p), Some(k), Some(v)) = (w.persp.as_mut(), parse_key(k), unhex(v)) else { return BAD.into() };
            p.insert(name_of(&k), to_keys(&k), v.clone().into_boxed_slice()).expect("insert");
            w.pflat.insert(k, v);
            "ok".into()
        }
        ["del", k] => {
            let (Some(p), Some(k)) = (w.persp.as_mut(), parse_key(k)) else { return BAD.into() };
            p.delete(name_of(&k), to_keys(&k)).expect("delete");
            w.pflat.remove(&k);
            "ok".into()
        }
        ["cmd"] => {
            let Some(p) = w.persp.as_mut() else { return BAD.into() };
            let parent = p.head_address().expect("head_address");
            let prio = match parent {
                Prior::None => Priority::Init,
                Prior::Single(_) => Priority::Basic(0),
                Prior::Merge(_, _) => Priority::Merge,
            };
            let c = HCmd { id: cmd_id(w.next_id), parent, prio };
            w.next_id += 1;
            match p.add_command(&c) {
                Ok(n) => {
                    w.psnaps.push(w.pflat.clone());
                    format!("ok {n}")
                }
                Err(e) => format!("err {e}"),
            }
        }
        ["create"] => {
            let Some(p) = w.persp.take() else { return BAD.into() };
            match w.provider.new_storage(p) {
                Ok((g, st)) => {
                    let head = st.get_heads().expect("heads").iter().next().expect("one head");
                    let seg = st.get_segment(head.location()).expect("segment");
                    w.graph = Some(g);
                    let mut snaps = std::mem::take(&mut w.psnaps);
                    *snaps.last_mut().unwrap() = w.pflat.clone();
                    w.segs.push(SegInfo { index: seg.index(), first: seg.shortest_max_cut(), snaps });
                    format!("ok {}", w.segs.len() - 1)
                }
                Err(e) => err_name(&e).into(),
            }
        }
        ["write"] => {
            let Some(p) = w.persp.take() else { return BAD.into() };
            if w.graph.is_none() {
                return BAD.into();
            }
            match w.storage().write(p) {
                Ok(seg) => {
                    let mut snaps = std::mem::take(&mut w.psnaps);
                    *snaps.last_mut().unwrap() = w.pflat.clone();
                    w.segs.push(SegInfo { index: seg.index(), first: seg.shortest_max_cut(), snaps });
                    format!("ok {}", w.segs.len() - 1)
                }
                Err(e) => err_name(&e).into(),
            }
        }
        ["lp", s, i] => {
            let (Some(s), Some(i)) = (num(s), num(i)) else { return BAD.into() };
            if s >= w.segs.len() {
                return BAD.into();
            }
            let loc = w.loc(s, i as u64);
            match w.storage().get_linear_perspective(loc) {
                Ok(p) => {
                    w.persp = Some(p);
                    w.pflat = w.segs[s].snaps[i].clone();
                    w.psnaps = vec![];
                    "ok".into()
                }
                Err(e) => err_name(&e).into(),
            }
        }
        ["mp", x] => {
            let Some(x) = num(x) else { return BAD.into() };
            if x >= w.idxs.len() || w.segs.len() < 2 {
                return BAD.into();
            }
            let braid = w.idxs[x].0.take().expect("replay uses a consumed fact index");
            // any two segment heads serve as parents; the fact state is the braid index
            let (l, r) = (w.segs.len() - 1, w.segs.len() - 2);
            let left = w.loc(l, w.segs[l].snaps.len() as u64 - 1);
            let right = w.loc(r, w.segs[r].snaps.len() as u64 - 1);
            let lca = w.loc(0, 0);
            match w.storage().new_merge_perspective(left, right, lca, PolicyId::new(0), braid) {
                Ok(p) => {
                    w.persp = Some(p);
                    w.pflat = w.idxs[x].1.clone();
                    w.psnaps = vec![];
                    "ok".into()
                }
                Err(e) => err_name(&e).into(),
            }
        }
        ["fp", s, i] => {
            let (Some(s), Some(i)) = (num(s), num(i)) else { return BAD.into() };
            if s >= w.segs.len() {
                return BAD.into();
            }
            if i >= w.segs[s].snaps.len() {
                // out of range locations are outside get_fact_perspective's contract
                return "err oob".into();
            }
            let loc = w.loc(s, i as u64);
            match w.storage().get_fact_perspective(loc) {
                Ok(f) => {
                    w.fp = Some(f);
                    w.fflat = w.segs[s].snaps[i].clone();
                    "ok".into()
                }
                Err(e) => err_name(&e).into(),
            }
        }
        ["fins", k, v] => {
            let (Some(f), Some(k), Some(v)) = (w.fp.as_mut(), parse_key(k), unhex(v)) else { return BAD.into() };
            f.insert(name_of(&k), to_keys(&k), v.clone().into_boxed_slice()).expect("insert");
            w.fflat.insert(k, v);
            "ok".into()
        }
        ["fdel", k] => {
            let (Some(f), Some(k)) = (w.fp.as_mut(), parse_key(k)) else { return BAD.into() };
            f.delete(name_of(&k), to_keys(&k)).expect("delete");
            w.fflat.remove(&k);
            "ok".into()
        }
        ["fwrite"] => {
            let Some(f) = w.fp.take() else { return BAD.into() };
            match w.storage().write_facts(f) {
                Ok(ix) => {
                    let flat = w.fflat.clone();
                    w.idxs.push((Some(ix), flat));
                    format!("ok {}", w.idxs.len() - 1)
                }
                Err(e) => err_name(&e).into(),
            }
        }
        ["q", k] => {
            let (Some(p), Some(k)) = (w.persp.as_ref(), parse_key(k)) else { return BAD.into() };
            let got = real_query(p, &k);
            check_q(rec, op, &got, flat_query(&w.pflat, &k))
        }
        ["qp", k] => {
            let (Some(p), Some(k)) = (w.persp.as_ref(), parse_key(k)) else { return BAD.into() };
            let got = real_prefix(p, &k);
            check_qp(rec, op, &got, flat_prefix(&w.pflat, &k))
        }
        ["fq", k] => {
            let (Some(f), Some(k)) = (w.fp.as_ref(), parse_key(k)) else { return BAD.into() };
            let got = real_query(f, &k);
            check_q(rec, op, &got, flat_query(&w.fflat, &k))
        }
        ["fqp", k] => {
            let (Some(f), Some(k)) = (w.fp.as_ref(), parse_key(k)) else { return BAD.into() };
            let got = real_prefix(f, &k);
            check_qp(rec, op, &got, flat_prefix(&w.fflat, &k))
        }
        ["sq", s, k] => {
            let (Some(s), Some(k)) = (num(s), parse_key(k)) else { return BAD.into() };
            if s >= w.segs.len() {
                return BAD.into();
            }
            let loc = w.loc(s, 0);
            let ix = w.storage().get_segment(loc).expect("segment").facts().expect("facts");
            let got = real_query(&ix, &k);
            let want = flat_query(w.segs[s].snaps.last().unwrap(), &k);
            check_q(rec, op, &got, want)
        }
        ["sqp", s, k] => {
            let (Some(s), Some(k)) = (num(s), parse_key(k)) else { return BAD.into() };
            if s >= w.segs.len() {
                return BAD.into();
            }
            let loc = w.loc(s, 0);
            let ix = w.storage().get_segment(loc).expect("segment").facts().expect("facts");
            let got = real_prefix(&ix, &k);
            let want = flat_prefix(w.segs[s].snaps.last().unwrap(), &k);
            check_qp(rec, op, &got, want)
        }
        ["iq", x, k] => {
            let (Some(x), Some(k)) = (num(x), parse_key(k)) else { return BAD.into() };
            if x >= w.idxs.len() {
                return BAD.into();
            }
            let ix = w.idxs[x].0.as_ref().expect("replay uses a consumed fact index");
            let got = real_query(ix, &k);
            check_q(rec, op, &got, flat_query(&w.idxs[x].1, &k))
        }
        ["iqp", x, k] => {
            let (Some(x), Some(k)) = (num(x), parse_key(k)) else { return BAD.into() };
            if x >= w.idxs.len() {
                return BAD.into();
            }
            let ix = w.idxs[x].0.as_ref().expect("replay uses a consumed fact index");
            let got = real_prefix(ix, &k);
            check_qp(rec, op, &got, flat_prefix(&w.idxs[x].1, &k))
        }
        ["sdump", s] => {
            let Some(s) = num(s) else { return BAD.into() };
            if s >= w.segs.len() {
                return BAD.into();
            }
            let loc = w.loc(s, 0);
            let ix = w.storage().get_segment(loc).expect("segment").facts().expect("facts");
            dump_index(&ix, rec)
        }
        ["idump", x] => {
            let Some(x) = num(x) else { return BAD.into() };
            if x >= w.idxs.len() {
                return BAD.into();
            }
            let ix = w.idxs[x].0.take().expect("replay uses a consumed fact index");
            let s = dump_index(&ix, rec);
            w.idxs[x].0 = Some(ix);
            s
        }
        _ => BAD.into(),
    }
}

fn run_case(rec: &mut Recorder, ops: &[String]) {
    let mut w = World::new();
    for op in ops {
        let opc = op.clone();
        let r = vh::catch(std::panic::AssertUnwindSafe(|| exec(&mut w, rec, &opc)));
        match r {
            Ok(ans) => rec.line(op.clone(), ans),
            Err(msg) => {
                rec.line(op.clone(), format!("panic {msg}"));
                rec.panics.push(format!("`{op}` panicked: {msg}"));
                rec.oracle_fail(format!("`{op}` panicked in the real storage: {msg}"));
                return;
            }
        }
    }
}

// ------------------------------------------------------------------ generator

struct Gen<'a> {
    rng: &'a mut Rng,
    keys: Vec<FKey>,
    ops: Vec<String>,
    /// number of commands per written segment
    segs: Vec<usize>,
    idxs: Vec<bool>, // alive
    ncmds: usize,
    pending: bool,
    muts: usize,
}

const NAMES: [&[u8]; 4] = [b"a", b"ab", b"b", b""];
const COMPS: [&[u8]; 7] = [b"", b"a", b"ab", b"b", b"\x00", b"\xff", b"a\x00"];

impl Gen<'_> {
    fn comp(&mut self) -> Vec<u8> {
        self.rng.pick(&COMPS).to_vec()
    }
    fn fresh_key(&mut self) -> FKey {
        let name = self.rng.pick(&NAMES[..if self.rng.chance(1, 10) { 4 } else { 2 }]).to_vec();
        let n = self.rng.below(4) as usize;
        let comps = (0..n).map(|_| self.comp()).collect();
        (name, comps)
    }
    /// a pool with shared prefixes, keys that are prefixes of one another, empty components
    fn make_pool(&mut self) {
        let n = self.rng.range(3, 9) as usize;
        while self.keys.len() < n {
            let k = if self.keys.is_empty() || self.rng.chance(1, 3) {
                self.fresh_key()
            } else {
                let mut k = self.rng.pick(&self.keys).clone();
                match self.rng.below(4) {
                    0 => {
                        k.1.pop();
                    }
                    1 | 2 => {
                        let c = self.comp();
                        k.1.push(c);
                    }
                    _ => {
                        if let Some(l) = k.1.last_mut() {
                            *l = self.rng.pick(&COMPS).to_vec();
                        }
                    }
                }
                k
            };
            if !self.keys.contains(&k) {
                self.keys.push(k);
            }
        }
    }
    fn key(&mut self) -> FKey {
        if self.rng.chance(1, 12) {
            self.fresh_key()
        } else {
            self.rng.pick(&self.keys).clone()
        }
    }
    fn prefix(&mut self) -> FKey {
        let mut k = self.key();
        let cut = self.rng.below(k.1.len() as u64 + 1) as usize;
        if !self.rng.chance(1, 4) {
            k.1.truncate(cut);
        }
        k
    }
    fn val(&mut self) -> Vec<u8> {
        let n = self.rng.below(3) as usize;
        self.rng.bytes(n)
    }
    fn push(&mut self, s: String) {
        self.ops.push(s);
    }
    fn mutate(&mut self, pfx: &str) {
        let k = self.key();
        if self.rng.chance(3, 5) {
            let v = self.val();
            self.push(format!("{pfx}ins {} {}", show_key(&k), hex(&v)));
        } else {
            self.push(format!("{pfx}del {}", show_key(&k)));
        }
        self.muts += 1;
    }
    fn queries(&mut self, q: &str, qp: &str, n: u64) {
        for _ in 0..n {
            if self.rng.chance(1, 2) {
                let k = self.key();
                self.push(format!("{q} {}", show_key(&k)));
            } else {
                let k = self.prefix();
                self.push(format!("{qp} {}", show_key(&k)));
            }
        }
    }
    /// ops on the current linear perspective up to (not including) write/create
    fn fill_perspective(&mut self, max_cmds: u64, allow_empty_map: bool) {
        let ncmd = self.rng.range(1, max_cmds);
        self.ncmds = 0;
        for _ in 0..ncmd {
            let nm = if allow_empty_map && self.rng.chance(1, 4) { 0 } else { self.rng.range(0, 4) };
            for _ in 0..nm {
                self.mutate("");
                if self.rng.chance(1, 4) {
                    self.queries("q", "qp", 1);
                }
            }
            self.push("cmd".into());
            self.ncmds += 1;
        }
        let n = self.rng.below(3);
        self.queries("q", "qp", n);
    }
}

fn gen_case(rng: &mut Rng, thorough: bool) -> Vec<String> {
    let mut g = Gen { rng, keys: vec![], ops: vec![], segs: vec![], idxs: vec![], ncmds: 0, pending: false, muts: 0 };
    g.make_pool();
    g.push("new".into());
    // init segment
    if g.rng.chance(1, 40) {
        g.push("create".into()); // empty perspective: rejected
        return g.ops;
    }
    g.fill_perspective(3, true);
    g.push("create".into());
    g.segs.push(g.ncmds);
    // deep chains in a fifth of the cases
    let deep = g.rng.chance(1, 5);
    let nseg = if deep { g.rng.range(17, if thorough { 60 } else { 40 }) } else { g.rng.range(1, 8) };
    for _ in 0..nseg {
        // where to branch from
        let use_merge = g.segs.len() >= 2 && g.idxs.iter().any(|a| *a) && g.rng.chance(1, 3);
        if use_merge {
            let x = g.idxs.iter().rposition(|a| *a).unwrap();
            g.idxs[x] = false;
            g.push(format!("mp {x}"));
        } else {
            let s = if deep || g.rng.chance(2, 3) { g.segs.len() - 1 } else { g.rng.below(g.segs.len() as u64) as usize };
            let n = g.segs[s];
            let i = if g.rng.chance(if deep { 9 } else { 1 }, if deep { 10 } else { 2 }) { n - 1 } else { g.rng.below(n as u64) as usize };
            if g.rng.chance(1, 50) {
                g.push(format!("lp {s} {}", n + g.rng.below(3) as usize)); // out of bounds
            }
            g.push(format!("lp {s} {i}"));
        }
        if g.rng.chance(1, 2) {
            g.queries("q", "qp", 2);
        }
        if g.rng.chance(1, 60) {
            g.push("write".into()); // no commands: rejected
            continue;
        }
        g.fill_perspective(if deep { 2 } else { 4 }, !deep);
        if g.rng.chance(1, 15) {
            g.mutate(""); // a write left pending (no command)
            g.pending = true;
        }
        g.push("write".into());
        g.segs.push(g.ncmds);
        let s = g.segs.len() - 1;
        g.queries(&format!("sq {s}"), &format!("sqp {s}"), 2);
        if g.rng.chance(1, 3) || deep {
            g.push(format!("sdump {s}"));
        }
        // fact perspectives (mid-segment reconstruction), write_facts
        if g.rng.chance(1, 2) {
            let s = g.rng.below(g.segs.len() as u64) as usize;
            let i = g.rng.below(g.segs[s] as u64) as usize;
            g.push(format!("fp {s} {i}"));
            g.queries("fq", "fqp", 2);
            let nm = g.rng.below(4);
            for _ in 0..nm {
                g.mutate("f");
            }
            g.queries("fq", "fqp", 2);
            if g.rng.chance(2, 3) {
                g.push("fwrite".into());
                g.idxs.push(true);
                let x = g.idxs.len() - 1;
                g.queries(&format!("iq {x}"), &format!("iqp {x}"), 2);
                if g.rng.chance(1, 2) {
                    g.push(format!("idump {x}"));
                }
            }
        }
    }
    // final sweep: every pool key and every prefix of it on the last segment and an earlier one
    let last = g.segs.len() - 1;
    let other = g.rng.below(g.segs.len() as u64) as usize;
    for s in [last, other] {
        for k in g.keys.clone() {
            g.push(format!("sq {s} {}", show_key(&k)));
            for cut in 0..=k.1.len() {
                let p = (k.0.clone(), k.1[..cut].to_vec());
                g.push(format!("sqp {s} {}", show_key(&p)));
            }
        }
    }
    // malformed requests: both sides must reject them
    if g.rng.chance(1, 10) {
        g.push("ins zz 01".into());
        g.push("sq 999 61:".into());
        g.push("qp 61".into());
    }
    g.ops
}

fn main() {
    let args = Args::parse();
    vh::quiet_panics();
    let mut rec = Recorder::new(&args.out);
    if let Some(p) = &args.replay {
        let ops = vh::read_replay_input(p);
        rec.begin_case();
        run_case(&mut rec, &ops);
        rec.finish(args.seed, &args.tier);
        return;
    }
    let mut rng = Rng::new(args.seed);
    let cases = args.budget(250, 4000);
    for _ in 0..cases {
        let ops = gen_case(&mut rng, args.thorough() || args.search);
        rec.begin_case();
        let nseg = ops.iter().filter(|o| *o == "write").count();
        rec.count(match nseg {
            0 => "segments:1",
            1..=7 => "segments:2-8",
            8..=16 => "segments:9-17",
            _ => "segments:18+",
        });
        for o in &ops {
            rec.count(&format!("op:{}", o.split(' ').next().unwrap()));
        }
        rec.count_n("ops", ops.len() as u64);
        let muts = ops.iter().filter(|o| o.starts_with("ins") || o.starts_with("del") || o.starts_with("fins") || o.starts_with("fdel")).count();
        if nseg >= 1 && muts >= 4 {
            rec.nontrivial(fnv(&ops.join(";")));
        }
        if rec.cases() <= 2 {
            rec.sample(ops.iter().take(40).cloned().collect::<Vec<_>>().join("; "));
        }
        run_case(&mut rec, &ops);
    }
    rec.finish(args.seed, &args.tier);
}
