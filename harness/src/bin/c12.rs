//! C12 — fact storage behaves as a key-value map.
//!
//! Drives the REAL `aranya_runtime::storage::linear` storage (in-memory io manager) through the
//! public `StorageProvider` / `Storage` / `Perspective` / `FactPerspective` / `Query` traits with
//! op sequences over compound keys spread over commands and segments (chains deeper than the
//! compaction limit), and
//!   * writes every request + the real answer for the Lean model driver (`drv_c12`),
//!   * compares every exact / prefix query with a flat `BTreeMap` replay of the same inserts and
//!     deletes (the S-level oracle), including mid-segment reconstruction.

use vh::factsworld::*;
use vh::{fnv, hex, Args, Recorder, Rng};

// ------------------------------------------------------------------ generator

struct Gen<'a> {
    rng: &'a mut Rng,
    keys: Vec<FKey>,
    ops: Vec<String>,
    /// number of commands per written segment
    segs: Vec<usize>,
    idxs: Vec<bool>, // alive
    ncmds: usize,
    pending: bool,
    muts: usize,
}

const NAMES: [&[u8]; 4] = [b"a", b"ab", b"b", b""];
const COMPS: [&[u8]; 7] = [b"", b"a", b"ab", b"b", b"\x00", b"\xff", b"a\x00"];

impl Gen<'_> {
    fn comp(&mut self) -> Vec<u8> {
        self.rng.pick(&COMPS).to_vec()
    }
    fn fresh_key(&mut self) -> FKey {
        let nn = if self.rng.chance(1, 10) { 4 } else { 2 };
        let name = self.rng.pick(&NAMES[..nn]).to_vec();
        let n = self.rng.below(4) as usize;
        let comps = (0..n).map(|_| self.comp()).collect();
        (name, comps)
    }
    /// a pool with shared prefixes, keys that are prefixes of one another, empty components
    fn make_pool(&mut self) {
        let n = self.rng.range(3, 9) as usize;
        while self.keys.len() < n {
            let k = if self.keys.is_empty() || self.rng.chance(1, 3) {
                self.fresh_key()
            } else {
                let mut k = self.rng.pick(&self.keys).clone();
                match self.rng.below(4) {
                    0 => {
                        k.1.pop();
                    }
                    1 | 2 => {
                        let c = self.comp();
                        k.1.push(c);
                    }
                    _ => {
                        if let Some(l) = k.1.last_mut() {
                            *l = self.rng.pick(&COMPS).to_vec();
                        }
                    }
                }
                k
            };
            if !self.keys.contains(&k) {
                self.keys.push(k);
            }
        }
    }
    fn key(&mut self) -> FKey {
        if self.rng.chance(1, 12) {
            self.fresh_key()
        } else {
            self.rng.pick(&self.keys).clone()
        }
    }
    fn prefix(&mut self) -> FKey {
        let mut k = self.key();
        let cut = self.rng.below(k.1.len() as u64 + 1) as usize;
        if !self.rng.chance(1, 4) {
            k.1.truncate(cut);
        }
        k
    }
    fn val(&mut self) -> Vec<u8> {
        let n = self.rng.below(3) as usize;
        self.rng.bytes(n)
    }
    fn push(&mut self, s: String) {
        self.ops.push(s);
    }
    fn mutate(&mut self, pfx: &str) {
        let k = self.key();
        if self.rng.chance(3, 5) {
            let v = self.val();
            self.push(format!("{pfx}ins {} {}", show_key(&k), hex(&v)));
        } else {
            self.push(format!("{pfx}del {}", show_key(&k)));
        }
        self.muts += 1;
    }
    fn queries(&mut self, q: &str, qp: &str, n: u64) {
        for _ in 0..n {
            if self.rng.chance(1, 2) {
                let k = self.key();
                self.push(format!("{q} {}", show_key(&k)));
            } else {
                let k = self.prefix();
                self.push(format!("{qp} {}", show_key(&k)));
            }
        }
    }
    /// ops on the current linear perspective up to (not including) write/create
    fn fill_perspective(&mut self, max_cmds: u64, allow_empty_map: bool) {
        let ncmd = self.rng.range(1, max_cmds);
        self.ncmds = 0;
        for _ in 0..ncmd {
            let nm = if allow_empty_map && self.rng.chance(1, 4) { 0 } else { self.rng.range(0, 4) };
            for _ in 0..nm {
                self.mutate("");
                if self.rng.chance(1, 4) {
                    self.queries("q", "qp", 1);
                }
            }
            self.push("cmd".into());
            self.ncmds += 1;
        }
        let n = self.rng.below(3);
        self.queries("q", "qp", n);
    }
}

fn gen_case(rng: &mut Rng, thorough: bool) -> Vec<String> {
    let mut g = Gen { rng, keys: vec![], ops: vec![], segs: vec![], idxs: vec![], ncmds: 0, pending: false, muts: 0 };
    g.make_pool();
    g.push("new".into());
    // init segment
    if g.rng.chance(1, 40) {
        g.push("create".into()); // empty perspective: rejected
        return g.ops;
    }
    g.fill_perspective(3, true);
    g.push("create".into());
    g.segs.push(g.ncmds);
    // deep chains in a fifth of the cases
    let deep = g.rng.chance(1, 5);
    let nseg = if deep { g.rng.range(17, if thorough { 60 } else { 40 }) } else { g.rng.range(1, 8) };
    for _ in 0..nseg {
        // where to branch from
        let use_merge = g.segs.len() >= 2 && g.idxs.iter().any(|a| *a) && g.rng.chance(1, 3);
        if use_merge {
            let x = g.idxs.iter().rposition(|a| *a).unwrap();
            g.idxs[x] = false;
            g.push(format!("mp {x}"));
        } else {
            let s = if deep || g.rng.chance(2, 3) { g.segs.len() - 1 } else { g.rng.below(g.segs.len() as u64) as usize };
            let n = g.segs[s];
            let i = if g.rng.chance(if deep { 9 } else { 1 }, if deep { 10 } else { 2 }) { n - 1 } else { g.rng.below(n as u64) as usize };
            if g.rng.chance(1, 50) {
                let extra = g.rng.below(3) as usize;
                g.push(format!("lp {s} {}", n + extra)); // out of bounds
            }
            g.push(format!("lp {s} {i}"));
        }
        if g.rng.chance(1, 2) {
            g.queries("q", "qp", 2);
        }
        if g.rng.chance(1, 60) {
            g.push("write".into()); // no commands: rejected
            continue;
        }
        g.fill_perspective(if deep { 2 } else { 4 }, !deep);
        if g.rng.chance(1, 150) {
            g.mutate(""); // a write left pending (no command): outside the property, model-vs-real only
            g.pending = true;
        }
        g.push("write".into());
        g.segs.push(g.ncmds);
        let s = g.segs.len() - 1;
        g.queries(&format!("sq {s}"), &format!("sqp {s}"), 2);
        if g.rng.chance(1, 3) || deep {
            g.push(format!("sdump {s}"));
        }
        // fact perspectives (mid-segment reconstruction), write_facts
        if g.rng.chance(1, 2) {
            let s = g.rng.below(g.segs.len() as u64) as usize;
            let i = g.rng.below(g.segs[s] as u64) as usize;
            g.push(format!("fp {s} {i}"));
            g.queries("fq", "fqp", 2);
            let nm = g.rng.below(4);
            for _ in 0..nm {
                g.mutate("f");
            }
            g.queries("fq", "fqp", 2);
            if g.rng.chance(2, 3) {
                g.push("fwrite".into());
                g.idxs.push(true);
                let x = g.idxs.len() - 1;
                g.queries(&format!("iq {x}"), &format!("iqp {x}"), 2);
                if g.rng.chance(1, 2) {
                    g.push(format!("idump {x}"));
                }
            }
        }
    }
    // final sweep: every pool key and every prefix of it on the last segment and an earlier one
    let last = g.segs.len() - 1;
    let other = g.rng.below(g.segs.len() as u64) as usize;
    for s in [last, other] {
        for k in g.keys.clone() {
            g.push(format!("sq {s} {}", show_key(&k)));
            for cut in 0..=k.1.len() {
                let p = (k.0.clone(), k.1[..cut].to_vec());
                g.push(format!("sqp {s} {}", show_key(&p)));
            }
        }
    }
    // malformed requests: both sides must reject them
    if g.rng.chance(1, 10) {
        g.push("ins zz 01".into());
        g.push("sq 999 61:".into());
        g.push("qp 61".into());
    }
    g.ops
}

fn main() {
    let args = Args::parse();
    vh::quiet_panics();
    let mut rec = Recorder::new(&args.out);
    if let Some(p) = &args.replay {
        let ops = vh::read_replay_input(p);
        rec.begin_case();
        run_case(&mut rec, &ops);
        rec.finish(args.seed, &args.tier);
        return;
    }
    let mut rng = Rng::new(args.seed);
    let cases = args.budget(250, 4000);
    for _ in 0..cases {
        let ops = gen_case(&mut rng, args.thorough() || args.search);
        rec.begin_case();
        let nseg = ops.iter().filter(|o| *o == "write").count();
        rec.count(match nseg {
            0 => "segments:1",
            1..=7 => "segments:2-8",
            8..=16 => "segments:9-17",
            _ => "segments:18+",
        });
        for o in &ops {
            rec.count(&format!("op:{}", o.split(' ').next().unwrap()));
        }
        rec.count_n("ops", ops.len() as u64);
        let muts = ops.iter().filter(|o| o.starts_with("ins") || o.starts_with("del") || o.starts_with("fins") || o.starts_with("fdel")).count();
        if nseg >= 1 && muts >= 4 {
            rec.nontrivial(fnv(&ops.join(";")));
        }
        if rec.cases() <= 2 {
            rec.sample(ops.iter().take(40).cloned().collect::<Vec<_>>().join("; "));
        }
        run_case(&mut rec, &ops);
    }
    rec.finish(args.seed, &args.tier);
}
