//! C14 — sessions overlay their own writes on committed facts.
//!
//! Real `ClientState` + `Session`s (in-memory linear storage) with the script policy of
//! `vh::sessworld`: committed fact states are built by on-graph actions (chains deeper than the
//! compaction limit included), sessions are opened at different points of the graph's life, and
//! session actions / received commands write, delete, query (from inside the policy call) and
//! fail.  Oracle (in `vh::sessworld`): every in-call query equals the flat map
//! `committed-at-creation ⊕ session writes`; a failed call changes nothing; effect and message
//! sinks are committed / rolled back; heads, commit stamp and fact cache of the graph are
//! identical before and after every session operation.  Every request is also answered by the
//! Lean model (`drv_c14`).

use vh::factsworld::KeyPool;
use vh::sessworld::{self, gen_script, observe_all};
use vh::{fnv, Args, Recorder, Rng};

fn run_case(rec: &mut Recorder, ops: &[String]) {
    let mut sw = sessworld::SWorld::new();
    for op in ops {
        let opc = op.clone();
        let nfail = rec.oracle_failures.len();
        let r = vh::catch(std::panic::AssertUnwindSafe(|| sessworld::exec_sess(&mut sw, rec, &opc)));
        match r {
            Ok(ans) => {
                rec.line(op.clone(), ans);
                let lines = rec.current_case_lines();
                for f in rec.oracle_failures[nfail..].iter_mut() {
                    f.input = lines.clone();
                }
            }
            Err(msg) => {
                rec.line(op.clone(), format!("panic {msg}"));
                rec.panics.push(format!("`{op}` panicked: {msg}"));
                rec.oracle_fail(format!("`{op}` panicked in the real code: {msg}"));
                return;
            }
        }
    }
}

fn gen_case(rng: &mut Rng, thorough: bool) -> Vec<String> {
    let pool = KeyPool::new(rng);
    let mut ops: Vec<String> = vec!["snew".into()];
    if rng.chance(1, 40) {
        // init action that fails / publishes nothing: no graph
        ops.push(format!("graph {}", gen_script(rng, &pool, 2, true, true)));
        return ops;
    }
    let n = rng.range(0, 5);
    ops.push(format!("graph {}", gen_script(rng, &pool, n, false, true)));
    // committed history; one case in six goes past the compaction depth
    let deep = rng.chance(1, 6);
    let nact = if deep { rng.range(17, if thorough { 40 } else { 24 }) } else { rng.range(0, 8) };
    let mut nsess = 0usize;
    let rounds = rng.range(1, 3);
    for round in 0..rounds {
        let acts = if round == 0 { nact } else { rng.range(1, 4) };
        for _ in 0..acts {
            let n = rng.range(1, 5);
            let fail = rng.chance(1, 6);
            let publish = !rng.chance(1, 30);
            ops.push(format!("act {}", gen_script(rng, &pool, n, fail, publish)));
        }
        ops.push("gdump".into());
        for k in pool.keys.iter().take(3) {
            ops.push(format!("gq {}", vh::factsworld::show_key(k)));
        }
        let pk = pool.prefix(rng);
        ops.push(format!("gqp {}", vh::factsworld::show_key(&pk)));
        // sessions opened on this committed state; older sessions keep their own base
        let newsess = rng.range(1, 2);
        for _ in 0..newsess {
            ops.push("sess".into());
            nsess += 1;
        }
        let ncalls = rng.range(3, if thorough { 24 } else { 10 });
        for _ in 0..ncalls {
            let s = rng.below(nsess as u64);
            let kind = if rng.chance(1, 3) { "srecv" } else { "sact" };
            let fail = rng.chance(1, 3);
            let n = rng.range(1, 7);
            let publish = kind == "sact" && rng.chance(1, 2);
            ops.push(format!("{kind} {s} {}", gen_script(rng, &pool, n, fail, publish)));
            if fail || rng.chance(1, 3) {
                ops.push(format!("sact {s} {}", observe_all(&pool)));
            }
        }
    }
    for s in 0..nsess {
        ops.push(format!("sact {s} {}", observe_all(&pool)));
    }
    ops.push("gdump".into());
    if rng.chance(1, 10) {
        // malformed requests
        ops.push("sact 0 ins/zz/01".into());
        ops.push("srecv 99 q/61:".into());
        ops.push("sact x .".into());
    }
    ops
}

fn main() {
    let args = Args::parse();
    vh::quiet_panics();
    let mut rec = Recorder::new(&args.out);
    if let Some(p) = &args.replay {
        let ops = vh::read_replay_input(p);
        rec.begin_case();
        run_case(&mut rec, &ops);
        rec.finish(args.seed, &args.tier);
        return;
    }
    let mut rng = Rng::new(args.seed);
    let thorough = args.thorough() || args.search;
    let cases = args.budget(400, 6000);
    for _ in 0..cases {
        let ops = gen_case(&mut rng, thorough);
        rec.begin_case();
        let nact = ops.iter().filter(|o| o.starts_with("act ")).count();
        rec.count(match nact {
            0 => "committed-actions:0",
            1..=8 => "committed-actions:1-8",
            9..=16 => "committed-actions:9-16",
            _ => "committed-actions:17+",
        });
        for o in &ops {
            let t = o.split(' ').next().unwrap();
            rec.count(&format!("op:{t}"));
            if (t == "sact" || t == "srecv" || t == "act") && o.contains("fail") {
                rec.count(&format!("{t}:failing"));
            }
            if o.contains("del/") && (t == "sact" || t == "srecv") {
                rec.count("session-call-with-delete");
            }
        }
        rec.count_n("ops", ops.len() as u64);
        let calls = ops.iter().filter(|o| o.starts_with("sact") || o.starts_with("srecv")).count();
        if calls >= 3 {
            rec.nontrivial(fnv(&ops.join(";")));
        }
        if rec.cases() <= 2 {
            rec.sample(ops.iter().take(30).cloned().collect::<Vec<_>>().join("  "));
        }
        run_case(&mut rec, &ops);
    }
    rec.finish(args.seed, &args.tier);
}
