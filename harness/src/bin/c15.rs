//! C15 — file-backed graph storage survives crashes.
//!
//! 1. A multi-commit graph workload (graphkit `Replica` over the REAL `LinearStorageProvider`
//!    on the REAL libc `FileManager`, wrapped by a pass-through spy that logs the `Write`-trait
//!    calls) runs in a scratch directory with the cfg-guarded I/O recorder of imp.rs switched on.
//!    Every storage call (`create`, `append`, `commit`) becomes one request line; the real answer
//!    is the exact op stream (`pwrite`/`fdatasync`/`fallocate`+`fsync`) the call issued, the
//!    model's answer is the op stream of the transliterated protocol (order of writes and barriers,
//!    offsets, root slot, root bytes including the checksum).
//! 2. For crash points (every prefix of the op stream) and fault choices χ (which bytes of which
//!    unsynced write reached the medium) the image file is materialised, reopened with the real
//!    `FileManager`; the recovered control record is the real answer to `crash k χ`, the model's
//!    `Writer.open` verdict on its own crash image is the model's answer.
//! 3. S-level oracle (independent of the Lean model): open may fail only if no commit had
//!    completed; the recovered record is that of the last completed or of the in-progress commit;
//!    every record appended before that commit is byte-identical in the image; heads, segments,
//!    commands and facts read back through the storage API without error and equal the snapshot
//!    taken after that commit.

use std::{
    cell::RefCell,
    collections::{BTreeMap, BTreeSet},
    fs,
    os::unix::fs::FileExt,
    path::{Path, PathBuf},
    rc::Rc,
};

use aranya_runtime::{
    linear::{
        libc::{
            verif_io_log::{self, IoOp},
            FileManager, Writer,
        },
        FactCacheOffset, IoManager, LinearStorageProvider, Write,
    },
    storage::{HeadSet, HeadSetOffset},
    CmdId, GraphId, Priority, StorageError,
};
use serde::Serialize;
use vh::{fnv, gk::*, hex, unhex, Args, Recorder, Rng};

const FREE_START: u64 = 4096 * 3;

/// (generation, heads, fact_cache, free_offset, checksum, next_root)
type RootT = (u64, Option<u64>, Option<u64>, i64, u64, i64);

// ------------------------------------------------------------------------------------- spy

#[derive(Clone, Debug)]
enum Hi {
    Create,
    Append(Vec<u8>),
    Commit(Vec<u8>, u64),
}

#[derive(Clone, Debug)]
struct HiCall {
    hi: Hi,
    /// normalised op stream (see `norm_ops`)
    ops: Vec<IoOp>,
    before: Option<RootT>,
    /// the writer's control record after the call, if the call returned `Ok`
    after: Option<RootT>,
    /// the writer's control record after the call, whatever it returned
    after_any: Option<RootT>,
    /// `(alloc_end, data_dirty)` after the call
    state: Option<(i64, bool)>,
    /// injected I/O failure: (index of the failing I/O call, bytes a failing write still wrote)
    fault: Option<(usize, usize)>,
}

type Log = Rc<RefCell<Vec<HiCall>>>;

/// adversary: with probability `pct`% a storage call gets an I/O failure at a random I/O call
#[derive(Clone)]
struct FaultPlan {
    rng: Rng,
    pct: u64,
    /// replay: the fault for the next call
    forced: Option<(usize, usize)>,
}

type Faults = Rc<RefCell<Option<FaultPlan>>>;

fn next_fault(f: &Faults) -> Option<(usize, usize)> {
    let mut g = f.borrow_mut();
    let p = g.as_mut()?;
    if let Some(x) = p.forced.take() {
        return Some(x);
    }
    if p.pct > 0 && p.rng.chance(p.pct, 100) {
        let at = p.rng.below(8) as usize;
        let keep = *p.rng.pick(&[0usize, 1, 3, 4, 7, 12, 19, 40]);
        Some((at, keep))
    } else {
        None
    }
}

/// A failed I/O call is logged as the call followed by `Failed { keep }`.  Normal form: a failing
/// write becomes the write of the bytes that were written followed by the marker; a failing
/// barrier / fallocate becomes just the marker.
fn norm_ops(raw: Vec<IoOp>) -> Vec<IoOp> {
    let mut out: Vec<IoOp> = vec![];
    for op in raw {
        if let IoOp::Failed { keep } = op {
            match out.pop() {
                Some(IoOp::Pwrite { offset, bytes }) => {
                    let n = keep.min(bytes.len());
                    out.push(IoOp::Pwrite { offset, bytes: bytes[..n].to_vec() });
                }
                _ => {}
            }
            out.push(IoOp::Failed { keep: 0 });
        } else {
            out.push(op);
        }
    }
    out
}

struct SpyManager {
    inner: FileManager,
    log: Log,
    faults: Faults,
}

struct SpyWriter {
    inner: Writer,
    log: Log,
    faults: Faults,
}

impl IoManager for SpyManager {
    type Writer = SpyWriter;
    fn create(&mut self, id: GraphId) -> Result<SpyWriter, StorageError> {
        let from = verif_io_log::len();
        let r = self.inner.create(id);
        self.log.borrow_mut().push(HiCall {
            hi: Hi::Create,
            ops: norm_ops(verif_io_log::since(from)),
            before: None,
            after: r.as_ref().ok().map(|w| w.verif_root()),
            after_any: r.as_ref().ok().map(|w| w.verif_root()),
            state: r.as_ref().ok().map(|w| w.verif_state()),
            fault: None,
        });
        Ok(SpyWriter { inner: r?, log: self.log.clone(), faults: self.faults.clone() })
    }
    fn open(&mut self, id: GraphId) -> Result<Option<SpyWriter>, StorageError> {
        Ok(self.inner.open(id)?.map(|w| SpyWriter { inner: w, log: self.log.clone(), faults: self.faults.clone() }))
    }
    fn remove(&mut self, id: GraphId) -> Result<(), StorageError> {
        self.inner.remove(id)
    }
    fn list(&mut self) -> Result<impl Iterator<Item = Result<GraphId, StorageError>>, StorageError> {
        self.inner.list()
    }
}

impl Write for SpyWriter {
    type ReadOnly = <Writer as Write>::ReadOnly;
    fn readonly(&self) -> Self::ReadOnly {
        self.inner.readonly()
    }
    fn heads(&self) -> Result<HeadSet, StorageError> {
        self.inner.heads()
    }
    fn heads_offset(&self) -> Result<HeadSetOffset, StorageError> {
        self.inner.heads_offset()
    }
    fn fact_cache(&self) -> Result<FactCacheOffset, StorageError> {
        self.inner.fact_cache()
    }
    fn append<F, T>(&mut self, builder: F) -> Result<T, StorageError>
    where
        F: FnOnce(u64) -> T,
        T: Serialize,
    {
        let from = verif_io_log::len();
        let before = self.inner.verif_root();
        let fault = next_fault(&self.faults);
        // the item is built (and serialised) before any I/O, so its bytes are known even if the
        // call fails
        let off = u64::try_from(before.3).unwrap_or(0);
        let item = builder(off);
        let bytes = postcard::to_allocvec(&item).expect("serialize appended item");
        if let Some((at, keep)) = fault {
            verif_io_log::set_failure(at, keep);
        }
        let r = self.inner.append(|_| Raw(bytes.clone()));
        verif_io_log::clear_failure();
        self.log.borrow_mut().push(HiCall {
            hi: Hi::Append(bytes),
            ops: norm_ops(verif_io_log::since(from)),
            before: Some(before),
            after: r.as_ref().ok().map(|_| self.inner.verif_root()),
            after_any: Some(self.inner.verif_root()),
            state: Some(self.inner.verif_state()),
            fault,
        });
        r.map(|_| item)
    }
    fn commit(&mut self, heads: &HeadSet, fact_cache: FactCacheOffset) -> Result<(), StorageError> {
        let from = verif_io_log::len();
        let before = self.inner.verif_root();
        let fault = next_fault(&self.faults);
        if let Some((at, keep)) = fault {
            verif_io_log::set_failure(at, keep);
        }
        let r = self.inner.commit(heads, fact_cache);
        verif_io_log::clear_failure();
        self.log.borrow_mut().push(HiCall {
            hi: Hi::Commit(postcard::to_allocvec(heads).expect("serialize head set"), fact_cache.get()),
            ops: norm_ops(verif_io_log::since(from)),
            before: Some(before),
            after: r.as_ref().ok().map(|_| self.inner.verif_root()),
            after_any: Some(self.inner.verif_root()),
            state: Some(self.inner.verif_state()),
            fault,
        });
        r
    }
}

/// serialises to exactly the wrapped bytes under postcard (a tuple of `u8`s has no length prefix)
struct Raw(Vec<u8>);
impl Serialize for Raw {
    fn serialize<S: serde::Serializer>(&self, s: S) -> Result<S::Ok, S::Error> {
        use serde::ser::SerializeTuple;
        let mut t = s.serialize_tuple(self.0.len())?;
        for b in &self.0 {
            t.serialize_element(b)?;
        }
        t.end()
    }
}

// ------------------------------------------------------------------------------------- rendering

fn fnv_bytes(bs: &[u8]) -> u64 {
    let mut h: u64 = 0xcbf29ce484222325;
    for b in bs {
        h ^= *b as u64;
        h = h.wrapping_mul(0x100000001b3);
    }
    h
}

fn show_op(o: &IoOp) -> String {
    match o {
        IoOp::Pwrite { offset, bytes } => {
            if bytes.len() <= 64 {
                format!("w {} {}", offset, hex(bytes))
            } else {
                format!("w {} {}:{}", offset, bytes.len(), fnv_bytes(bytes))
            }
        }
        IoOp::Fdatasync => "ds".into(),
        IoOp::Fsync => "fs".into(),
        IoOp::Fallocate { offset, len } => format!("fa {offset} {len}"),
        IoOp::Failed { .. } => "!".into(),
    }
}

fn show_ops(ops: &[IoOp]) -> String {
    if ops.is_empty() {
        "-".into()
    } else {
        ops.iter().map(show_op).collect::<Vec<_>>().join(";")
    }
}

fn show_root(t: &RootT) -> String {
    let o = |x: &Option<u64>| x.map_or("none".to_string(), |v| v.to_string());
    format!("ok {} {} {} {} {} {}", t.0, o(&t.1), o(&t.2), t.3, t.4, t.5)
}

/// request line of a recorded call (with the injected fault, if any) and the real answer
fn call_req(c: &HiCall) -> (String, String) {
    match c.fault {
        None => (call_line(&c.hi), show_ops(&c.ops)),
        Some((at, keep)) => (
            format!("{} f {at} {keep}", call_line(&c.hi)),
            format!("{} {}", show_ops(&c.ops), if c.after.is_some() { "ok" } else { "err" }),
        ),
    }
}

fn show_state(c: &HiCall) -> String {
    let t = c.after_any.expect("state of a call");
    let st = c.state.expect("state of a call");
    let o = |x: &Option<u64>| x.map_or("none".to_string(), |v| v.to_string());
    format!("{} {} {} {} {} {} {} {}", t.0, o(&t.1), o(&t.2), t.3, t.4, t.5, st.0, st.1 as u8)
}

fn call_line(h: &Hi) -> String {
    match h {
        Hi::Create => "create".into(),
        Hi::Append(b) => format!("append {}", hex(b)),
        Hi::Commit(b, f) => format!("commit {} {}", hex(b), f),
    }
}

// ------------------------------------------------------------------------------------- crash simulation (Rust side)

#[derive(Clone, Default)]
struct Sim {
    durable: Vec<u8>,
    pending: Vec<(u64, Vec<u8>)>,
    /// file size that is durable / requested by a not yet fsynced fallocate
    size: u64,
    size_pending: Option<u64>,
}

fn put(img: &mut Vec<u8>, off: u64, bytes: &[u8], keep: impl Fn(usize) -> bool) {
    let end = off as usize + bytes.len();
    for (i, b) in bytes.iter().enumerate() {
        if keep(i) {
            if img.len() < end {
                img.resize(end, 0);
            }
            img[off as usize + i] = *b;
        }
    }
}

impl Sim {
    fn exec(&mut self, op: &IoOp) {
        match op {
            IoOp::Pwrite { offset, bytes } => self.pending.push((*offset as u64, bytes.clone())),
            IoOp::Fdatasync | IoOp::Fsync => {
                for (off, b) in std::mem::take(&mut self.pending) {
                    put(&mut self.durable, off, &b, |_| true);
                }
                if let Some(s) = self.size_pending.take() {
                    self.size = self.size.max(s);
                }
            }
            IoOp::Fallocate { offset, len } => {
                self.size_pending = Some((*offset + *len) as u64);
            }
            IoOp::Failed { .. } => {}
        }
    }

    /// image after a crash: χ items as in the driver protocol
    fn crash(&self, chi: &[String], grow: bool) -> (Vec<u8>, u64) {
        let mut img = self.durable.clone();
        for (i, (off, b)) in self.pending.iter().enumerate() {
            let it = chi.get(i).map(|s| s.as_str()).unwrap_or("0");
            let len = b.len();
            match it.as_bytes()[0] {
                b'0' => {}
                b'1' => put(&mut img, *off, b, |_| true),
                b'p' => {
                    let n: usize = it[1..].parse().unwrap();
                    put(&mut img, *off, b, |i| i < n.min(len))
                }
                b's' => {
                    let n: usize = it[1..].parse().unwrap();
                    put(&mut img, *off, b, |i| i >= n.min(len))
                }
                b'm' => {
                    let m = unhex(&it[1..]).unwrap();
                    put(&mut img, *off, b, |i| m.get(i / 8).map_or(false, |x| (x >> (i % 8)) & 1 == 1))
                }
                _ => panic!("bad chi item {it}"),
            }
        }
        let mut size = self.size;
        if grow {
            if let Some(s) = self.size_pending {
                size = size.max(s);
            }
        }
        (img.clone(), size.max(img.len() as u64))
    }
}

// ------------------------------------------------------------------------------------- a recorded case

#[derive(Clone, Debug, PartialEq)]
struct Snap {
    heads: Vec<CmdId>,
    cmds: Vec<(CmdId, String, String, Vec<u8>)>,
    facts: String,
}

fn snapshot<SP: aranya_runtime::StorageProvider>(r: &mut Replica<SP>) -> Result<Snap, String> {
    let heads = r.heads();
    let cmds = r
        .committed()?
        .into_iter()
        .map(|c| (c.id, format!("{:?}", c.parent), prio_str(&c.prio), c.data))
        .collect();
    let facts = show_facts(&r.facts()?);
    // the fact state at every head is reachable too
    for a in r.head_addrs() {
        r.facts_at(a)?;
    }
    Ok(Snap { heads, cmds, facts })
}

/// the state a (continuation) workload starts from: nothing, or a reopened crash image
#[derive(Clone)]
struct Base {
    /// the control record `open` recovered (None: the file is freshly created)
    root: Option<RootT>,
    /// records that were intact below the recovered free offset
    records: Vec<(u64, Vec<u8>)>,
    snap: Option<Snap>,
    /// false: the recovered state was not even readable on the live (uncrashed) file — only
    /// possible for hand-edited / shrunk replays whose items dangle
    api_ok: bool,
    sim: Sim,
    /// request / real-answer lines that bring the model driver into this state
    prefix_lines: Vec<(String, String)>,
}

impl Default for Base {
    fn default() -> Self {
        Base { root: None, records: vec![], snap: None, api_ok: true, sim: Sim::default(), prefix_lines: vec![] }
    }
}

struct Case {
    /// commits whose state is unreadable even without a crash (replays with dangling items):
    /// the API read-back is not demanded for them
    dangling: BTreeSet<usize>,
    graph: GraphId,
    calls: Vec<HiCall>,
    /// snapshot of the live storage taken while exactly `k` commits (of this case) had completed
    snaps: BTreeMap<usize, Snap>,
    base: Base,
}

fn scratch_root() -> PathBuf {
    let base = std::env::var("VERIF_SCRATCH").map(PathBuf::from).unwrap_or_else(|_| std::env::temp_dir().join("verif-c15"));
    let d = base.join(format!("c15-{}", std::process::id()));
    fs::create_dir_all(&d).expect("mkdir scratch");
    d
}

fn fresh_dir(root: &Path, name: &str) -> PathBuf {
    let d = root.join(name);
    let _ = fs::remove_dir_all(&d);
    fs::create_dir_all(&d).expect("mkdir");
    d
}

fn commits_done(calls: &[HiCall]) -> usize {
    calls.iter().filter(|c| matches!(c.hi, Hi::Commit(..)) && c.after.is_some()).count()
}

/// run a graph workload on the real storage, recording calls, ops and snapshots
fn record_workload(rec: &mut Recorder, rng: &mut Rng, root: &Path, size: usize, fault_pct: u64) -> Case {
    let dir = fresh_dir(root, "live");
    let faults: Faults = Rc::new(RefCell::new(Some(FaultPlan { rng: rng.fork(), pct: 0, forced: None })));
    let p = DagParams {
        max_nodes: size,
        branch_pct: 40,
        merge_pct: 20,
        finalize_pct: 3,
        prios: 3,
        keys: 5,
        check_pct: 10,
        allow_parallel_finalize: false,
    };
    let dag = gen_dag(rng, &p);
    let cmds = realize(&dag, rng.next_u64());
    let graph = graph_id_of(&cmds[0]);
    let log: Log = Rc::new(RefCell::new(vec![]));
    verif_io_log::start();
    let mgr = SpyManager { inner: FileManager::new(&dir).expect("FileManager"), log: log.clone(), faults: faults.clone() };
    let mut r = Replica::new(LinearStorageProvider::new(mgr), graph);
    let mut snaps = BTreeMap::new();
    let mut i = 0;
    let mut nonce = 0u64;
    let mut take_snap = |r: &mut Replica<LinearStorageProvider<SpyManager>>, rec: &mut Recorder| {
        let k = commits_done(&log.borrow());
        if k > 0 {
            match snapshot(r) {
                Ok(s) => {
                    if s.heads.len() >= 2 {
                        rec.count("live:multi_head_state");
                    }
                    // the oracle for commit k is the FIRST snapshot taken while k commits had
                    // returned Ok; later ones (after failed calls) are only compared with it
                    match snaps.get(&k) {
                        None => {
                            snaps.insert(k, s);
                        }
                        Some(first) if *first != s => {
                            rec.count("note:live_state_changed_without_successful_commit");
                            rec.sample(format!(
                                "live (uncrashed) storage after a FAILED call differs from the last successfully committed state {k}: heads {} vs {}, facts {} vs {}",
                                show_ids(&s.heads), show_ids(&first.heads), s.facts, first.facts
                            ));
                        }
                        Some(_) => {}
                    }
                }
                Err(e) if fault_pct > 0 => {
                    rec.count("note:live_storage_unreadable_after_failed_call");
                    rec.sample(format!("live storage unreadable after a failed call (commit {k}): {e}"));
                }
                Err(e) => rec.oracle_fail(format!("live storage unreadable after commit {k}: {e}")),
            }
        }
    };
    while i < cmds.len() {
        let n = if i == 0 { 1 } else { rng.range(1, 4) as usize };
        let batch = &cmds[i..(i + n).min(cmds.len())];
        i += batch.len();
        let mut trx = r.transaction();
        for c in batch {
            match r.add(&mut trx, std::slice::from_ref(c)) {
                Ok(_) => rec.count("live:add_ok"),
                Err(e) => rec.count(&format!("live:add_err:{}", err_name(&e))),
            }
        }
        match r.commit(trx) {
            Ok(_) => rec.count("live:commit_ok"),
            Err(e) => rec.count(&format!("live:commit_err:{}", err_name(&e))),
        }
        take_snap(&mut r, rec);
        if let Some(p) = faults.borrow_mut().as_mut() {
            p.pct = fault_pct; // the graph exists now: storage calls may start to fail
        }
        if rng.chance(1, 3) {
            nonce += 1;
            let body = gen_body(rng, &p);
            let act = KAction { cmds: vec![(Priority::Basic(rng.below(3) as u32), body)], nonce, init: false };
            match r.action(act) {
                Ok(_) => rec.count("live:action_ok"),
                Err(e) => rec.count(&format!("live:action_err:{}", err_name(&e))),
            }
            take_snap(&mut r, rec);
        }
    }
    // at least six commits, so that both root slots have been rewritten before the crash
    // scenarios that tear the newest slot
    let mut guard = 0;
    while commits_done(&log.borrow()) < 6 && guard < 24 {
        guard += 1;
        nonce += 1;
        let body = gen_body(rng, &p);
        let act = KAction { cmds: vec![(Priority::Basic(rng.below(3) as u32), body)], nonce, init: false };
        match r.action(act) {
            Ok(_) => rec.count("live:action_ok"),
            Err(e) => rec.count(&format!("live:action_err:{}", err_name(&e))),
        }
        take_snap(&mut r, rec);
    }
    drop(r);
    let _ = verif_io_log::stop();
    let calls = log.borrow().clone();
    Case { dangling: BTreeSet::new(), graph, calls, snaps, base: Base::default() }
}

/// Continue on a reopened crash image: the image file is put into a fresh directory, opened with
/// the real provider (spy on), and a few more actions / commits are run on it.
fn record_continuation(rec: &mut Recorder, rng: &mut Rng, root: &Path, graph: GraphId, base: Base, actions: usize) -> Case {
    let faults: Faults = Rc::new(RefCell::new(None));
    let dir = fresh_dir(root, "live");
    let (img, size) = base.sim.crash(&[], false);
    {
        let f = fs::File::create(dir.join(graph.to_string())).expect("image file");
        f.write_all_at(&img, 0).expect("write image");
        f.set_len(size).expect("set_len");
    }
    let log: Log = Rc::new(RefCell::new(vec![]));
    verif_io_log::start();
    let mgr = SpyManager { inner: FileManager::new(&dir).expect("FileManager"), log: log.clone(), faults: faults.clone() };
    let mut r = Replica::new(LinearStorageProvider::new(mgr), graph);
    let mut snaps = BTreeMap::new();
    let p = DagParams::default();
    // the first append after the reopen is the head-set append of a commit (it has to grow the
    // file: `alloc_end == free_offset` after `open`)
    {
        use aranya_runtime::{Storage as _, StorageProvider as _};
        let res = (|| -> Result<(), StorageError> {
            let st = r.client.provider().get_storage(graph)?;
            let heads = st.get_heads()?.clone();
            let fc = st.fact_cache()?;
            st.commit_heads(heads, fc)
        })();
        match res {
            Ok(()) => rec.count("cont:recommit_ok"),
            Err(e) => rec.count(&format!("cont:recommit_err:{e:?}")),
        }
        let k = commits_done(&log.borrow());
        if k > 0 {
            match snapshot(&mut r) {
                Ok(s) => {
                    snaps.insert(k, s);
                }
                Err(e) => rec.oracle_fail(format!("continuation: live storage unreadable after re-commit: {e}")),
            }
        }
    }
    for nonce in 0..actions {
        let body = gen_body(rng, &p);
        let act = KAction {
            cmds: vec![(Priority::Basic(rng.below(3) as u32), body)],
            nonce: 1_000_000 + nonce as u64,
            init: false,
        };
        match r.action(act) {
            Ok(_) => rec.count("cont:action_ok"),
            Err(e) => rec.count(&format!("cont:action_err:{}", err_name(&e))),
        }
        let k = commits_done(&log.borrow());
        if k > 0 {
            match snapshot(&mut r) {
                Ok(s) => {
                    snaps.insert(k, s);
                }
                Err(e) => rec.oracle_fail(format!("continuation: live storage unreadable after commit {k}: {e}")),
            }
        }
    }
    drop(r);
    let _ = verif_io_log::stop();
    let calls = log.borrow().clone();
    Case { dangling: BTreeSet::new(), graph, calls, snaps, base }
}

// ------------------------------------------------------------------------------------- image check

struct Ctx<'a> {
    case: &'a Case,
    root: PathBuf,
    images: u64,
    /// the `crash k χ` request being answered (appended to the replay input of a failure)
    pending_line: String,
}

/// oracle failure for the crash request being answered: the replay input is the case so far plus
/// that request
fn fail(cx: &Ctx, rec: &mut Recorder, what: String) {
    let mut input = rec.current_case_lines();
    input.push(cx.pending_line.clone());
    rec.oracle_fail_with(what, input);
}

/// records (offset, length-prefixed bytes) appended by the calls before index `upto`
fn records(calls: &[HiCall], upto: usize) -> Vec<(u64, Vec<u8>)> {
    let mut v = vec![];
    for c in &calls[..upto] {
        let b = match &c.hi {
            Hi::Append(b) | Hi::Commit(b, _) => b,
            Hi::Create => continue,
        };
        if let (Some(before), Some(after)) = (c.before, c.after_any) {
            // the item was appended iff the write frontier moved past it (also true for a commit
            // that failed after its head-set append)
            if after.3 == before.3 + 4 + b.len() as i64 {
                let mut e = (b.len() as u32).to_be_bytes().to_vec();
                e.extend_from_slice(b);
                v.push((before.3 as u64, e));
            }
        }
    }
    v
}

/// Materialise the crash image after `k` ops of call `ci` with fault choice `chi`, reopen it with
/// the real code, return the real verdict line and evaluate the S-level oracle.
fn check_image(cx: &mut Ctx, rec: &mut Recorder, sim: &Sim, ci: usize, k: usize, chi: &[String], grow: bool, label: &str) -> String {
    cx.images += 1;
    cx.pending_line = format!("crash {k} {}", if chi.is_empty() { "-".to_string() } else { chi.join(",") });
    let calls = &cx.case.calls;
    let (img, size) = sim.crash(chi, grow);
    let dir = fresh_dir(&cx.root, "img");
    let path = dir.join(cx.case.graph.to_string());
    {
        let f = fs::File::create(&path).expect("image file");
        f.write_all_at(&img, 0).expect("write image");
        f.set_len(size).expect("set_len");
    }
    // which commits may be visible
    let done = commits_done(&calls[..ci])
        + usize::from(k == calls[ci].ops.len() && matches!(calls[ci].hi, Hi::Commit(..)) && calls[ci].after.is_some());
    let inprog = if matches!(calls[ci].hi, Hi::Commit(..)) && k > 0 && k < calls[ci].ops.len() { Some(done + 1) } else { None };
    let commit_roots: Vec<RootT> = calls
        .iter()
        .filter(|c| matches!(c.hi, Hi::Commit(..)))
        .filter_map(|c| c.after)
        .collect();
    // commit 0 = the state this case started from (a reopened image), if any
    let root_of = |j: usize| -> Option<RootT> {
        if j == 0 {
            cx.case.base.root
        } else {
            commit_roots.get(j - 1).copied()
        }
    };
    let what = |s: String| format!("{label}: crash after {k} ops of call #{ci} ({}) χ={}: {s}", call_line(&calls[ci].hi).split(' ').next().unwrap(), if chi.is_empty() { "-".into() } else { chi.join(",") });

    // 1. raw open with the real FileManager
    let opened = {
        let mut fm = FileManager::new(&dir).expect("FileManager on image dir");
        match vh::catch(std::panic::AssertUnwindSafe(|| fm.open(cx.case.graph))) {
            Ok(Ok(Some(w))) => Some(w.verif_root()),
            Ok(Ok(None)) => None,
            Ok(Err(_)) => None,
            Err(p) => {
                rec.panics.push(what(format!("panic in FileManager::open: {p}")));
                None
            }
        }
    };
    let verdict = match &opened {
        Some(t) => show_root(t),
        None => "err".to_string(),
    };
    match &opened {
        None => {
            rec.count("verdict:err");
            if root_of(done).is_some() {
                fail(cx, rec, what(format!(
                    "open fails although {} commit(s) had completed",
                    done + usize::from(cx.case.base.root.is_some())
                )));
            }
        }
        Some(t) => {
            // the control record proper (generation, heads, fact cache, free offset, checksum);
            // which slot is written next is mechanism, compared by the model tie only
            let rec5 = |r: RootT| (r.0, r.1, r.2, r.3, r.4);
            let same = |j: usize| root_of(j).map(rec5) == Some(rec5(*t));
            let j = if same(done) {
                rec.count("verdict:last_completed");
                if root_of(done).map(|r| r.5) != Some(t.5) {
                    rec.count("note:next_root_differs_from_live_writer");
                }
                done
            } else if inprog.map_or(false, same) {
                rec.count("verdict:in_progress");
                done + 1
            } else if let Some(c) = calls[..=ci].iter().enumerate().find(|(i, c)| {
                // a commit that reported an error after its root write had been issued (injected
                // I/O failure): its root may legitimately become visible, it is newer than the
                // last commit that returned Ok and everything it refers to was synced before
                matches!(c.hi, Hi::Commit(..))
                    && c.after.is_none()
                    && (*i < ci || k > 0)
                    && c.before.zip(c.after_any).map_or(false, |(b, a)| a.0 == b.0 + 1 && rec5(a) == rec5(*t))
                    && root_of(done).map_or(true, |r| r.0 <= t.0)
            }) {
                let _ = c;
                rec.count("verdict:failed_commit_whose_root_write_was_issued");
                // records below its frontier must be intact; API read-back without content oracle
                let file = fs::read(&path).expect("read image");
                for (off, bytes) in cx.case.base.records.iter().cloned().chain(records(calls, calls.len())) {
                    let end = off as usize + bytes.len();
                    if end as i64 <= t.3 && file.get(off as usize..end) != Some(&bytes[..]) {
                        fail(cx, rec, what(format!("record at offset {off} (below the recovered free offset {}) is not intact in the image", t.3)));
                        return verdict;
                    }
                }
                if cx.case.dangling.is_empty() && cx.case.base.api_ok {
                    let fm = FileManager::new(&dir).expect("FileManager on image dir");
                    let mut r = Replica::new(LinearStorageProvider::new(fm), cx.case.graph);
                    match vh::catch(std::panic::AssertUnwindSafe(|| snapshot(&mut r))) {
                        Err(p) => rec.panics.push(what(format!("panic while reading the recovered state: {p}"))),
                        Ok(Err(e)) => fail(cx, rec, what(format!("recovered failed-commit root: reachable data unreadable: {e}"))),
                        Ok(Ok(_)) => rec.count("readback:ok"),
                    }
                }
                return verdict;
            } else {
                let m = (0..=commit_roots.len()).find(|j| same(*j));
                fail(cx, rec, what(format!(
                    "recovered root {} is neither the last completed commit ({done}) nor the commit in progress ({inprog:?}); it matches commit {m:?}",
                    show_root(t)
                )));
                return verdict;
            };
            // 2. every record appended before commit j (end <= recovered free offset) is intact
            let file = fs::read(&path).expect("read image");
            for (off, bytes) in cx.case.base.records.iter().cloned().chain(records(calls, calls.len())) {
                let end = off as usize + bytes.len();
                if end as i64 <= t.3 && file.get(off as usize..end) != Some(&bytes[..]) {
                    fail(cx, rec, what(format!("record at offset {off} (below the recovered free offset {}) is not intact in the image", t.3)));
                    return verdict;
                }
            }
            // 3. read everything back through the storage API
            if (j == 0 && !cx.case.base.api_ok) || cx.case.dangling.contains(&j) {
                rec.count("readback:skipped_dangling_replay");
                return verdict;
            }
            let fm = FileManager::new(&dir).expect("FileManager on image dir");
            let mut r = Replica::new(LinearStorageProvider::new(fm), cx.case.graph);
            let got = vh::catch(std::panic::AssertUnwindSafe(|| snapshot(&mut r)));
            match got {
                Err(p) => rec.panics.push(what(format!("panic while reading the recovered state: {p}"))),
                Ok(Err(e)) => fail(cx, rec, what(format!("recovered commit {j}: reachable data unreadable: {e}"))),
                Ok(Ok(s)) => {
                    rec.count("readback:ok");
                    rec.count_n("readback:cmds", s.cmds.len() as u64);
                    let want = if j == 0 { cx.case.base.snap.as_ref() } else { cx.case.snaps.get(&j) };
                    if let Some(want) = want {
                        rec.count("readback:compared");
                        if &s != want {
                            fail(cx, rec, what(format!(
                                "recovered commit {j} differs from what was committed: heads {} vs {}, {} vs {} commands, facts {} vs {}",
                                show_ids(&s.heads), show_ids(&want.heads), s.cmds.len(), want.cmds.len(), s.facts, want.facts
                            )));
                        }
                    }
                }
            }
        }
    }
    verdict
}

/// Short file: the durable image (everything pending lost) cut to `size` bytes is opened with the
/// real code; a read beyond EOF must be an invalid root, never a panic.  The answer is compared
/// with the model's `Writer.openSz`.
fn check_truncated(cx: &mut Ctx, rec: &mut Recorder, sim: &Sim, size: u64, label: &str) -> String {
    cx.images += 1;
    let (mut img, _) = sim.crash(&[], false);
    img.truncate(size as usize);
    let dir = fresh_dir(&cx.root, "img");
    let path = dir.join(cx.case.graph.to_string());
    {
        let f = fs::File::create(&path).expect("image file");
        f.write_all_at(&img, 0).expect("write image");
        f.set_len(size).expect("set_len");
    }
    let mut fm = FileManager::new(&dir).expect("FileManager on image dir");
    match vh::catch(std::panic::AssertUnwindSafe(|| fm.open(cx.case.graph))) {
        Ok(Ok(Some(w))) => {
            rec.count("short_file:opened");
            show_root(&w.verif_root())
        }
        Ok(_) => {
            rec.count("short_file:err");
            "err".to_string()
        }
        Err(p) => {
            rec.panics.push(format!("{label}: panic in FileManager::open on a file truncated to {size} bytes: {p}"));
            "err".to_string()
        }
    }
}

/// fault choices for a crash state
fn gen_chis(rng: &mut Rng, sim: &Sim, budget: usize) -> Vec<Vec<String>> {
    let m = sim.pending.len();
    let mut out: Vec<Vec<String>> = vec![vec![]];
    if m == 0 {
        return out;
    }
    let all = |s: &str| vec![s.to_string(); m];
    out.push(all("1"));
    // always: each root-area write lost / cut after 8 bytes while everything else is kept (a root
    // record whose prefix or body did not make it), never sampled away
    for (i, (off, b)) in sim.pending.iter().enumerate() {
        if *off < FREE_START {
            let mut v = all("1");
            v[i] = "0".into();
            out.push(v);
            if b.len() > 8 {
                let mut v = all("1");
                v[i] = "p8".into();
                out.push(v);
            }
        }
    }
    // always: "keep later, lose earlier" — for every split point the writes issued before it are
    // lost and the ones after it kept (a later write reaching the medium before an earlier one
    // is exactly what a missing barrier allows); and, whenever a root-area write is pending, each
    // single earlier write lost while everything after it is kept
    let splits: Vec<usize> = if m <= 12 { (1..m).collect() } else { (m - 12..m).collect() };
    for i in splits {
        let mut v = all("1");
        for x in v.iter_mut().take(i) {
            *x = "0".into();
        }
        out.push(v);
    }
    if let Some(last_root) = (0..m).rev().find(|&i| sim.pending[i].0 < FREE_START) {
        for i in (0..last_root).rev().take(12) {
            if sim.pending[i].0 >= FREE_START {
                let mut v = all("1");
                v[i] = "0".into();
                out.push(v);
            }
        }
    }
    let must = out.len();
    // each root-area write torn at each 8-byte boundary, the other writes kept / lost
    for (i, (off, b)) in sim.pending.iter().enumerate() {
        if *off < FREE_START {
            for others in ["1", "0"] {
                let mut cut = 8;
                while cut < b.len() + 8 {
                    let c = cut.min(b.len());
                    for kind in ["p", "s"] {
                        let mut v = all(others);
                        v[i] = format!("{kind}{c}");
                        out.push(v);
                    }
                    cut += 8;
                }
                let mut v = all(others);
                v[i] = "0".into();
                out.push(v);
                let mut v = all(others);
                v[i] = "1".into();
                out.push(v);
            }
        }
    }
    // each single write lost / torn, the others kept
    for i in 0..m.min(16) {
        let mut v = all("1");
        v[i] = "0".into();
        out.push(v);
        let len = sim.pending[i].1.len();
        if len > 1 {
            let mut v = all("1");
            v[i] = format!("p{}", rng.range(1, len as u64 - 1));
            out.push(v);
        }
    }
    // random subsets / tears
    let mut guard = 0;
    while out.len() < budget * 2 && guard < budget * 4 {
        guard += 1;
        let v: Vec<String> = sim
            .pending
            .iter()
            .map(|(_, b)| {
                let len = b.len() as u64;
                match rng.below(6) {
                    0 | 1 => "0".to_string(),
                    2 | 3 => "1".to_string(),
                    4 => format!("{}{}", if rng.chance(1, 2) { "p" } else { "s" }, rng.below(len + 1)),
                    _ => {
                        if len <= 64 {
                            format!("m{}", hex(&rng.bytes(((len + 7) / 8) as usize)))
                        } else {
                            format!("p{}", rng.below(len + 1))
                        }
                    }
                }
            })
            .collect();
        out.push(v);
    }
    // dedupe, keep order; then cut to budget keeping the systematic ones first
    let mut seen = BTreeSet::new();
    out.retain(|v| seen.insert(v.join(",")));
    let must = must.min(out.len());
    let budget = budget.max(must);
    if out.len() > budget {
        // keep the mandatory ones, sample the rest (so that small budgets still rotate through the
        // systematic tears over the crash points of a run)
        let mut rest = out.split_off(must);
        rng.shuffle(&mut rest);
        rest.truncate(budget - must);
        out.extend(rest);
    }
    out
}

fn explore(rec: &mut Recorder, rng: &mut Rng, case: &Case, root: &Path, per_point: usize, point_stride: usize, label: &str) -> u64 {
    let mut cx = Ctx { case, root: root.to_path_buf(), images: 0, pending_line: String::new() };
    let mut sim = case.base.sim.clone();
    for (rq, rl) in &case.base.prefix_lines {
        rec.line(rq.clone(), rl.clone());
    }
    let mut point = 0usize;
    let ncalls = case.calls.len();
    for (ci, call) in case.calls.iter().enumerate() {
        let (rq, rl) = call_req(call);
        rec.line(rq, rl);
        if call.fault.is_some() {
            rec.count(if call.after.is_some() { "fault:armed_but_call_ok" } else { "fault:call_failed" });
            rec.line("state", show_state(call));
        }
        rec.count(&format!("call:{}", call_line(&call.hi).split(' ').next().unwrap()));
        if call.after.is_none() && call.fault.is_none() {
            rec.oracle_fail(format!("{label}: storage call #{ci} failed on the live file"));
        }
        let m = call.ops.len();
        let last = ci + 1 == ncalls;
        let mut s = sim.clone();
        for k in 0..=m {
            if k > 0 {
                s.exec(&call.ops[k - 1]);
            }
            if k == m && !last {
                break; // same state as k = 0 of the next call
            }
            point += 1;
            // always look at the states around a root write; stride over the others
            let near_root = s.pending.iter().any(|(o, _)| *o < FREE_START);
            // the state right after a commit returned ("synced prefix only" with χ = all lost)
            let after_commit = (k == 0 && ci > 0 && matches!(case.calls[ci - 1].hi, Hi::Commit(..)))
                || (k == m && matches!(call.hi, Hi::Commit(..)));
            if after_commit {
                rec.count("crash_points:right_after_commit");
            }
            if !near_root && !after_commit && point % point_stride != 0 {
                continue;
            }
            rec.count("crash_points");
            if near_root {
                rec.count("crash_points:root_write_pending");
            }
            if after_commit && (label == "case0" || label == "case1") {
                // short files: cut inside / before / between the root slots and inside the data
                for size in [0u64, 3, 4097, 4110, 4096 + 56, 8192 + 3, 8192 + 30, 8192 + 56, 12288 + 5] {
                    let real = check_truncated(&mut cx, rec, &s, size, label);
                    rec.line(format!("crashsz {k} - {size}"), real);
                }
            }
            let budget = if near_root && per_point < 16 { per_point * 3 } else { per_point };
            for chi in gen_chis(rng, &s, budget) {
                let grow = rng.chance(1, 2);
                let real = check_image(&mut cx, rec, &s, ci, k, &chi, grow, label);
                let chi_s = if chi.is_empty() { "-".to_string() } else { chi.join(",") };
                if chi.iter().any(|c| c.starts_with('p') || c.starts_with('s') || c.starts_with('m')) {
                    rec.count("chi:torn");
                } else if chi.is_empty() || chi.iter().all(|c| c == "0") {
                    rec.count("chi:all_lost");
                } else if chi.iter().all(|c| c == "1") {
                    rec.count("chi:all_kept");
                } else {
                    rec.count("chi:subset");
                }
                rec.line(format!("crash {k} {chi_s}"), real);
            }
        }
        sim = s;
    }
    cx.images
}

/// The state after reopening the crash image (k ops of call `ci`, fault choice `chi`) of `case`:
/// `None` if the real `open` fails on it.
fn make_base(cx_root: &Path, case: &Case, ci: usize, k: usize, chi: &[String]) -> Option<Base> {
    let mut sim = case.base.sim.clone();
    let mut prefix = case.base.prefix_lines.clone();
    for (i, c) in case.calls.iter().enumerate().take(ci + 1) {
        prefix.push(call_req(c));
        let upto = if i == ci { k } else { c.ops.len() };
        for o in &c.ops[..upto] {
            sim.exec(o);
        }
    }
    let (img, size) = sim.crash(chi, true);
    let dir = fresh_dir(cx_root, "img");
    let path = dir.join(case.graph.to_string());
    {
        let f = fs::File::create(&path).expect("image file");
        f.write_all_at(&img, 0).expect("write image");
        f.set_len(size).expect("set_len");
    }
    let root = {
        let mut fm = FileManager::new(&dir).expect("FileManager on image dir");
        match fm.open(case.graph) {
            Ok(Some(w)) => w.verif_root(),
            _ => return None,
        }
    };
    let chi_s = if chi.is_empty() { "-".to_string() } else { chi.join(",") };
    prefix.push((format!("reopen {k} {chi_s}"), show_root(&root)));
    let commit_roots: Vec<RootT> =
        case.calls.iter().filter(|c| matches!(c.hi, Hi::Commit(..))).filter_map(|c| c.after).collect();
    let snap = if case.base.root == Some(root) {
        case.base.snap.clone()
    } else {
        commit_roots.iter().position(|r| *r == root).and_then(|p| case.snaps.get(&(p + 1)).cloned())
    };
    let records = case
        .base
        .records
        .iter()
        .cloned()
        .chain(records(&case.calls, case.calls.len()))
        .filter(|(off, b)| (*off as i64) + (b.len() as i64) <= root.3)
        .collect();
    let api_ok = if case.base.root.map(|r| (r.0, r.1, r.2, r.3, r.4)) == Some((root.0, root.1, root.2, root.3, root.4)) {
        case.base.api_ok
    } else {
        commit_roots.iter().position(|r| *r == root).map_or(true, |p| !case.dangling.contains(&(p + 1)))
    };
    Some(Base {
        root: Some(root),
        records,
        snap,
        api_ok,
        sim: Sim { durable: img, pending: vec![], size, size_pending: None },
        prefix_lines: prefix,
    })
}

/// replay: run the storage calls of the request list directly against the real `Writer`
/// (`Write`-trait level), answering the crash / reopen requests listed in the replay input
fn replay(rec: &mut Recorder, root: &Path, lines: &[String]) {
    let dir = fresh_dir(root, "live");
    let graph = GraphId::transmute(hash_id(b"c15-replay"));
    let log: Log = Rc::new(RefCell::new(vec![]));
    verif_io_log::start();
    let faults: Faults = Rc::new(RefCell::new(Some(FaultPlan { rng: Rng::new(0), pct: 0, forced: None })));
    let mut mgr = SpyManager { inner: FileManager::new(&dir).expect("FileManager"), log: log.clone(), faults: faults.clone() };
    let mut w: Option<SpyWriter> = None;
    let mut base = Base::default();
    let mut start = 0usize; // first call (index into the log) of the current segment
    let mut snaps: BTreeMap<usize, Snap> = BTreeMap::new();
    let mut dangling: BTreeSet<usize> = BTreeSet::new();
    let view = |base: &Base, start: usize, snaps: &BTreeMap<usize, Snap>, dangling: &BTreeSet<usize>| Case {
        dangling: dangling.clone(),
        graph,
        calls: log.borrow()[start..].to_vec(),
        snaps: snaps.clone(),
        base: base.clone(),
    };
    for l in lines {
        let t: Vec<&str> = l.split(' ').collect();
        match t[0] {
            "create" => {
                w = mgr.create(graph).ok();
                rec.line(l.clone(), show_ops(&log.borrow().last().expect("logged").ops));
            }
            "state" if log.borrow().len() > start && log.borrow().last().map_or(false, |c| c.state.is_some()) => {
                rec.line(l.clone(), show_state(log.borrow().last().unwrap()));
            }
            "append" if (t.len() == 2 || (t.len() == 5 && t[2] == "f")) && w.is_some() => {
                let b = unhex(t[1]).expect("hex");
                if t.len() == 5 {
                    faults.borrow_mut().as_mut().unwrap().forced = Some((t[3].parse().expect("at"), t[4].parse().expect("keep")));
                }
                let _ = w.as_mut().unwrap().append(|_| Raw(b));
                rec.line(l.clone(), call_req(log.borrow().last().expect("logged")).1);
            }
            "commit" if (t.len() == 3 || (t.len() == 6 && t[3] == "f")) && w.is_some() => {
                let b = unhex(t[1]).expect("hex");
                let heads: HeadSet = postcard::from_bytes(&b).expect("head set bytes");
                if t.len() == 6 {
                    faults.borrow_mut().as_mut().unwrap().forced = Some((t[4].parse().expect("at"), t[5].parse().expect("keep")));
                }
                let _ = w.as_mut().unwrap().commit(&heads, FactCacheOffset::new(t[2].parse().expect("fact")));
                rec.line(l.clone(), call_req(log.borrow().last().expect("logged")).1);
                // the oracle of a replay: the uncrashed state after this commit, read back from a
                // copy of the file (all writes applied).  A shrunk / edited replay may contain
                // head sets or items that dangle; then the API read-back is not demanded.
                let case = view(&base, start, &snaps, &dangling);
                let k = commits_done(&case.calls);
                if case.calls.last().map_or(false, |c| c.after.is_some()) {
                    let mut s = case.base.sim.clone();
                    for c in &case.calls {
                        for o in &c.ops {
                            s.exec(o);
                        }
                    }
                    let all = vec!["1".to_string(); s.pending.len()];
                    let (img, size) = s.crash(&all, true);
                    let vdir = fresh_dir(root, "val");
                    {
                        let f = fs::File::create(vdir.join(graph.to_string())).expect("image file");
                        f.write_all_at(&img, 0).expect("write image");
                        f.set_len(size).expect("set_len");
                    }
                    let fm = FileManager::new(&vdir).expect("FileManager");
                    let mut r = Replica::new(LinearStorageProvider::new(fm), graph);
                    match vh::catch(std::panic::AssertUnwindSafe(|| snapshot(&mut r))) {
                        Ok(Ok(sn)) => {
                            snaps.insert(k, sn);
                        }
                        _ => {
                            rec.count("replay:dangling_commit");
                            dangling.insert(k);
                        }
                    }
                }
            }
            "crash" | "reopen" if t.len() == 3 && log.borrow().len() > start => {
                let case = view(&base, start, &snaps, &dangling);
                let ci = case.calls.len() - 1;
                let k: usize = t[1].parse().expect("k");
                if k > case.calls[ci].ops.len() {
                    rec.line(l.clone(), "bad-op");
                    continue;
                }
                let mut s = case.base.sim.clone();
                for (i, c) in case.calls.iter().enumerate() {
                    let upto = if i == ci { k } else { c.ops.len() };
                    for o in &c.ops[..upto] {
                        s.exec(o);
                    }
                }
                let mut chi: Vec<String> = if t[2] == "-" { vec![] } else { t[2].split(',').map(|x| x.to_string()).collect() };
                let mut line = l.clone();
                if !chi.is_empty() && chi.len() != s.pending.len() {
                    // the op stream changed shape since the replay was written: keep everything
                    chi = vec!["1".to_string(); s.pending.len()];
                    line = format!("{} {k} {}", t[0], if chi.is_empty() { "-".into() } else { chi.join(",") });
                }
                if t[0] == "crash" {
                    let mut cx = Ctx { case: &case, root: root.to_path_buf(), images: 0, pending_line: String::new() };
                    let real = check_image(&mut cx, rec, &s, ci, k, &chi, true, "replay");
                    rec.line(line, real);
                } else {
                    match make_base(root, &case, ci, k, &chi) {
                        None => rec.line(line, "err"),
                        Some(mut b) => {
                            rec.line(line, show_root(&b.root.unwrap()));
                            b.prefix_lines.clear();
                            // continue on the image with the real writer
                            drop(w.take());
                            let (img, size) = b.sim.crash(&[], false);
                            let f = fs::File::create(dir.join(graph.to_string())).expect("image file");
                            f.write_all_at(&img, 0).expect("write image");
                            f.set_len(size).expect("set_len");
                            drop(f);
                            w = mgr.open(graph).ok().flatten();
                            base = b;
                            start = log.borrow().len();
                            snaps.clear();
                            dangling.clear();
                        }
                    }
                }
            }
            _ => rec.line(l.clone(), "bad-op"),
        }
    }
    drop(w);
    let _ = verif_io_log::stop();
}

fn main() {
    let args = Args::parse();
    vh::quiet_panics();
    let mut rec = Recorder::new(&args.out);
    let root = scratch_root();
    if let Some(p) = &args.replay {
        let lines = vh::read_replay_input(p);
        rec.begin_case();
        replay(&mut rec, &root, &lines);
        let _ = fs::remove_dir_all(&root);
        rec.finish(args.seed, &args.tier);
        return;
    }
    let mut rng = Rng::new(args.seed);
    let deep = args.thorough() || args.search;
    // (workload size, χ per crash point, stride over crash points without a pending root write)
    // (workload size, χ per crash point, stride over crash points without a pending root write,
    //  percentage of storage calls that get an injected I/O failure)
    let plan: Vec<(usize, usize, usize, u64)> = if deep {
        vec![(6, 64, 1, 0), (14, 64, 1, 0), (24, 64, 1, 0), (40, 64, 1, 0), (10, 24, 1, 50), (16, 24, 1, 30), (24, 24, 1, 40)]
    } else {
        vec![(5, 3, 2, 0), (10, 3, 4, 0), (8, 3, 2, 50), (10, 3, 2, 35)]
    };
    let mut images = 0;
    for (n, (size, per_point, stride, fault_pct)) in plan.into_iter().enumerate() {
        rec.begin_case();
        let label = if fault_pct > 0 { format!("case{n}.faults") } else { format!("case{n}") };
        let case = record_workload(&mut rec, &mut rng, &root, size, fault_pct);
        if fault_pct > 0 {
            rec.count("cases_with_io_faults");
        }
        let commits = commits_done(&case.calls);
        rec.count_n("commits", commits as u64);
        rec.count_n("ops", case.calls.iter().map(|c| c.ops.len() as u64).sum());
        rec.count_n("snapshots", case.snaps.len() as u64);
        let sig = case.calls.iter().map(|c| call_line(&c.hi)).collect::<Vec<_>>().join("\n");
        if commits >= 2 {
            rec.nontrivial(fnv(&sig));
        }
        rec.sample(format!(
            "{label}: {} storage calls, {commits} commits, {} I/O ops, first commit ops: {}",
            case.calls.len(),
            case.calls.iter().map(|c| c.ops.len()).sum::<usize>(),
            case.calls.iter().find(|c| matches!(c.hi, Hi::Commit(..))).map(|c| show_ops(&c.ops)).unwrap_or_default()
        ));
        images += explore(&mut rec, &mut rng, &case, &root, per_point, stride, &label);

        // continue after a crash + reopen: once on an image that recovers the commit in progress
        // (root written, final barrier missing), once on one that lost unsynced appends
        let commit_idx: Vec<usize> =
            case.calls.iter().enumerate().filter(|(_, c)| matches!(c.hi, Hi::Commit(..))).map(|(i, _)| i).collect();
        let mut picks: Vec<(usize, usize, Vec<String>)> = vec![];
        // after >= 3 completed commits: the root write of the next commit is torn (prefix kept,
        // body cut), once for a commit that writes slot B and once for one that writes slot A;
        // reopen, commit, crash again
        let mut torn = 0;
        for (j, &ci) in commit_idx.iter().enumerate() {
            if j >= 3 && torn < 2 {
                let m = case.calls[ci].ops.len();
                picks.push((ci, m - 1, vec!["1".to_string(), "p9".to_string()]));
                rec.count(if case.calls[ci].before.map(|b| b.5) == Some(4096) { "cont:torn_slot_A" } else { "cont:torn_slot_B" });
                torn += 1;
            }
        }
        if let Some(&ci) = commit_idx.get(commit_idx.len() / 2) {
            let m = case.calls[ci].ops.len();
            picks.push((ci, m - 1, vec!["1".to_string(); 2]));
            if deep {
                picks.push((ci, m - 2, vec!["p3".to_string()]));
            }
        }
        if let Some(ci) = (0..case.calls.len()).rev().find(|&i| matches!(case.calls[i].hi, Hi::Append(..))) {
            picks.push((ci, case.calls[ci].ops.len(), vec![]));
        }
        if (!deep && n == 0) || fault_pct > 0 {
            picks.clear();
        }
        for (pi, (ci, k, chi)) in picks.into_iter().enumerate() {
            let Some(base) = make_base(&root, &case, ci, k, &chi) else {
                rec.count("cont:open_failed");
                continue;
            };
            rec.begin_case();
            rec.count("cont:cases");
            let label = format!("case{n}.cont{pi}");
            let cont = record_continuation(&mut rec, &mut rng, &root, case.graph, base, if deep { 4 } else { 2 });
            rec.count_n("commits", commits_done(&cont.calls) as u64);
            rec.count_n("ops", cont.calls.iter().map(|c| c.ops.len() as u64).sum());
            let sig = cont.base.prefix_lines.iter().map(|l| l.0.clone()).chain(cont.calls.iter().map(|c| call_line(&c.hi))).collect::<Vec<_>>().join("\n");
            rec.nontrivial(fnv(&sig));
            images += explore(&mut rec, &mut rng, &cont, &root, per_point, if deep { 1 } else { 2 }, &label);
        }
    }
    rec.count_n("images", images);
    rec.notes.push(format!("{images} crash images materialised and reopened with the real FileManager + LinearStorage"));
    let _ = fs::remove_dir_all(&root);
    rec.finish(args.seed, &args.tier);
}
