//! C28 — compiled modules are deterministic and survive serialization.
//!
//! Determinism of the REAL compiler is observed, not proved: every generated policy is compiled
//! twice in this process and once in each of two fresh child processes (`c28 --child <file>`: a new
//! process has new `HashMap` seeds), and all four modules must serialize to identical bytes (CBOR —
//! the format the policy-compiler CLI writes — and rkyv).
//!
//! Serialization: the module is round-tripped through every serialized form it offers (CBOR,
//! rkyv, serde_json, postcard); a form that works for some modules but not for others, or that
//! decodes to a different module, is a violation (a form that never works is reported as
//! unsupported).  Each decoded module is loaded with `Machine::from_module`, must equal the
//! original machine, and every action of the policy is re-executed with the same inputs on the
//! original and on the reloaded machine (real `VmPolicy`, real storage): same result, same effects.
//!
//! Model tie: `Machine::from_module`'s name-keyed tables vs `AranyaV.Module.collect`.

use std::collections::BTreeMap;
use std::fmt::Write as _;
use std::process::Command;

use aranya_policy_module::{Module, ModuleData};
use aranya_policy_vm::{Machine, Value};
use vh::{fnv, hex, policykit as pk, Args, Recorder, Rng};

/// in-process recompilations per policy (plus 2 fresh child processes on every 4th case)
const INPROC_COMPILES: usize = 8;
const CMD_BOILER: &str = "    seal { return envelope::do_seal(payload) }\n    open { return envelope::do_open(payload, envelope) }\n";

// ------------------------------------------------------------------ policy generator

struct Policy {
    src: String,
    /// (action name, argument vectors)
    calls: Vec<(String, Vec<Vec<Value>>)>,
}

fn name(rng: &mut Rng, prefix: &str, used: &mut Vec<String>) -> String {
    const SYL: [&str; 12] = ["al", "be", "co", "du", "ex", "fi", "go", "hu", "ix", "jo", "ka", "lu"];
    loop {
        let n = format!("{prefix}{}{}{}", SYL[rng.below(12) as usize], SYL[rng.below(12) as usize], rng.below(100));
        if !used.contains(&n) {
            used.push(n.clone());
            return n;
        }
    }
}

fn gen_policy(rng: &mut Rng) -> Policy {
    let mut used = vec![];
    let mut items: Vec<String> = vec![];
    // enums
    let enums: Vec<(String, Vec<String>)> = (0..rng.range(1, 3))
        .map(|_| {
            let n = name(rng, "E", &mut used);
            let vs = (0..rng.range(2, 4)).map(|_| name(rng, "V", &mut used)).collect::<Vec<_>>();
            (n, vs)
        })
        .collect();
    for (n, vs) in &enums {
        items.push(format!("enum {n} {{ {} }}\n", vs.join(", ")));
    }
    // globals
    let globals: Vec<(String, i64)> = (0..rng.range(1, 4)).map(|_| (name(rng, "G", &mut used), rng.below(1000) as i64)).collect();
    for (g, v) in &globals {
        items.push(format!("let {g} = {v}\n"));
    }
    let gs = name(rng, "G", &mut used);
    items.push(format!("let {gs} = \"{}\"\n", name(rng, "s", &mut vec![])));
    let (e0, e0v) = (&enums[0].0, &enums[0].1);
    let ge = name(rng, "G", &mut used);
    items.push(format!("let {ge} = {e0}::{}\n", e0v[rng.below(e0v.len() as u64) as usize]));
    // structs (later ones may embed / include earlier ones)
    let mut structs: Vec<(String, Vec<(String, String)>)> = vec![];
    for _ in 0..rng.range(1, 4) {
        let n = name(rng, "S", &mut used);
        let mut fields: Vec<(String, String)> = vec![];
        let mut decl: Vec<String> = vec![];
        if !structs.is_empty() && rng.chance(1, 3) {
            let (bn, bf) = structs[rng.below(structs.len() as u64) as usize].clone();
            decl.push(format!("+{bn}"));
            fields.extend(bf);
        }
        for _ in 0..rng.range(1, 3) {
            let f = name(rng, "f", &mut used);
            let ty = match rng.below(5) {
                0 => "int".to_string(),
                1 => "string".to_string(),
                2 => "bool".to_string(),
                3 => format!("enum {e0}"),
                _ => "optional int".to_string(),
            };
            decl.push(format!("{f} {ty}"));
            fields.push((f, ty));
        }
        items.push(format!("struct {n} {{ {} }}\n", decl.join(", ")));
        structs.push((n, fields));
    }
    let lit = |ty: &str, x: &str, e0: &str, e0v: &[String]| -> String {
        match ty {
            "int" => x.to_string(),
            "string" => "\"q\"".to_string(),
            "bool" => format!("{x} > 2"),
            "optional int" => format!("Some({x})"),
            _ => format!("{e0}::{}", e0v[0]),
        }
    };
    // facts
    let facts: Vec<String> = (0..rng.range(1, 3)).map(|_| name(rng, "F", &mut used)).collect();
    for f in &facts {
        items.push(format!("fact {f}[k int]=>{{v int, w string}}\n"));
    }
    // effects
    let effects: Vec<String> = (0..rng.range(1, 3)).map(|_| name(rng, "X", &mut used)).collect();
    for x in &effects {
        items.push(format!("effect {x} {{ a int, b string, c bool, d enum {e0} }}\n"));
    }
    // functions
    let (g0, _) = &globals[0];
    let pf: Vec<String> = (0..rng.range(1, 3)).map(|_| name(rng, "p", &mut used)).collect();
    for (i, f) in pf.iter().enumerate() {
        let inner = if i > 0 && rng.chance(1, 2) { format!("{}(x)", pf[i - 1]) } else { "x".to_string() };
        items.push(format!(
            "function {f}(x int) int {{\n    if x > {} {{\n        return saturating_add({inner}, {g0})\n    }}\n    return saturating_sub({inner}, {})\n}}\n",
            rng.below(50),
            rng.below(9)
        ));
    }
    let (s0, s0f) = structs[0].clone();
    let mk = name(rng, "p", &mut used);
    items.push(format!(
        "function {mk}(x int) struct {s0} {{\n    return {s0} {{ {} }}\n}}\n",
        s0f.iter().map(|(f, t)| format!("{f}: {}", lit(t, "x", e0, e0v))).collect::<Vec<_>>().join(", ")
    ));
    let ff = name(rng, "q", &mut used);
    let x0 = &effects[0];
    items.push(format!(
        "finish function {ff}(x int, s string) {{\n    emit {x0} {{ a: x, b: s, c: true, d: {ge} }}\n}}\n"
    ));
    // struct composition from SEVERAL `...source` variables, in code (a function, every command
    // policy, every action): the order in which the compiler expands the sources must not depend
    // on anything but the text
    let nparts = rng.range(2, 4) as usize;
    let parts: Vec<(String, String, String)> = (0..nparts)
        .map(|_| (name(rng, "P", &mut used), name(rng, "g", &mut used), name(rng, "m", &mut used)))
        .collect();
    for (pn, pf_, mkp) in &parts {
        items.push(format!("struct {pn} {{ {pf_} int }}\n"));
        items.push(format!("function {mkp}(x int) struct {pn} {{\n    return {pn} {{ {pf_}: x }}\n}}\n"));
    }
    let comp = name(rng, "S", &mut used);
    let comp_e = name(rng, "f", &mut used);
    items.push(format!(
        "struct {comp} {{ {comp_e} int, {} }}\n",
        parts.iter().map(|(_, f, _)| format!("{f} int")).collect::<Vec<_>>().join(", ")
    ));
    // `let v_i = mk_i(<arg>)` lines + the composed literal, sources in a random order
    let compose = |rng: &mut Rng, arg: &str, ind: &str, tag: &str| -> (String, String) {
        let mut order: Vec<usize> = (0..nparts).collect();
        rng.shuffle(&mut order);
        let lets = (0..nparts).map(|i| format!("{ind}let v{tag}{i} = {}({arg})\n", parts[i].2)).collect::<String>();
        let lit = format!("{comp} {{ {comp_e}: {arg}, {} }}", order.iter().map(|i| format!("...v{tag}{i}")).collect::<Vec<_>>().join(", "));
        (lets, lit)
    };
    let combf = name(rng, "p", &mut used);
    {
        let (lets, lit) = compose(rng, "x", "    ", "a");
        items.push(format!("function {combf}(x int) struct {comp} {{\n{lets}    return {lit}\n}}\n"));
    }
    let last_part_field = parts[nparts - 1].1.clone();
    // commands + actions
    let mut calls = vec![];
    let ncmd = rng.range(1, 3);
    for ci in 0..ncmd {
        let c = name(rng, "C", &mut used);
        let a = name(rng, "a", &mut used);
        let f = &facts[rng.below(facts.len() as u64) as usize];
        let x = &effects[rng.below(effects.len() as u64) as usize];
        let p = &pf[rng.below(pf.len() as u64) as usize];
        let r = name(rng, "r", &mut used);
        let first_int_field = s0f.iter().find(|(_, t)| t == "int").map(|(f, _)| f.clone());
        let sfield = match &first_int_field {
            Some(fl) => format!("        let st = {mk}(y)\n        let z = st.{fl}\n"),
            None => "        let z = y\n".to_string(),
        };
        let (clets, clit) = compose(rng, "this.n", "        ", "c");
        let sfield = format!(
            "{sfield}        let cf = {combf}(z)\n{clets}        let cl = {clit}\n        let zz = saturating_add(cf.{last_part_field}, cl.{})\n",
            parts[0].1
        );
        let variant = rng.below(3);
        let body = match variant {
            0 => format!(
                "        let y = {p}(this.n)\n{sfield}        check this.n > 0 else recall {r}(y)\n        let ex = exists {f}[k: this.n]\n        finish {{\n            create {f}[k: y]=>{{v: zz, w: this.t}}\n            emit {x} {{ a: zz, b: this.t, c: ex, d: {ge} }}\n            {ff}(z, {gs})\n        }}\n"
            ),
            1 => format!(
                "        let y = {p}(this.n)\n{sfield}        check this.n > 0 else recall {r}(y)\n        let cnt = count_up_to 5 {f}[k: ?]\n        match this.n {{\n            1 => {{\n                finish {{ emit {x} {{ a: cnt, b: {gs}, c: false, d: {ge} }} }}\n            }}\n            _ => {{\n                finish {{\n                    create {f}[k: y]=>{{v: cnt, w: this.t}}\n                    emit {x} {{ a: zz, b: this.t, c: true, d: {e0}::{} }}\n                }}\n            }}\n        }}\n",
                e0v[e0v.len() - 1]
            ),
            _ => format!(
                "        let y = {p}(this.n)\n{sfield}        check this.n > 0 else recall {r}(y)\n        let q = query {f}[k: ?]=>{{v: ?, w: ?}}\n        if q is Some {{\n            let g = q or test_fail()\n            finish {{ emit {x} {{ a: g.v, b: g.w, c: true, d: {ge} }} }}\n        }} else {{\n            finish {{\n                create {f}[k: y]=>{{v: zz, w: {gs}}}\n                {ff}(zz, this.t)\n            }}\n        }}\n"
            ),
        };
        items.push(format!(
            "command {c} {{\n    attributes {{ priority: {} }}\n    fields {{ n int, t string }}\n{CMD_BOILER}    policy {{\n{body}    }}\n    recall {r}(y int) {{\n        finish {{ emit {x} {{ a: y, b: \"recalled\", c: false, d: {ge} }} }}\n    }}\n}}\n",
            rng.below(5)
        ));
        let second = if ci > 0 && rng.chance(1, 2) { format!("    publish {c} {{ n: saturating_add(n, 1), t: t }}\n") } else { String::new() };
        let (alets, alit) = compose(rng, "n", "    ", "b");
        items.push(format!(
            "action {a}(n int, t string) {{\n{alets}    let big = {alit}\n    publish {c} {{ n: big.{}, t: t }}\n{second}}}\n",
            parts[0].1
        ));
        let vecs = (0..3)
            .map(|_| {
                vec![
                    Value::Int([-3i64, 0, 1, 2, 7, 40, 1000][rng.below(7) as usize]),
                    Value::String(["x", "hello", ""][rng.below(3) as usize].parse().unwrap()),
                ]
            })
            .collect();
        calls.push((a, vecs));
    }
    rng.shuffle(&mut items);
    let mut src = String::from("use envelope\n\n");
    write!(
        src,
        "command Init {{\n    attributes {{ init: true }}\n    fields {{ nonce int }}\n{CMD_BOILER}    policy {{ finish {{}} }}\n}}\naction init(nonce int) {{ publish Init {{ nonce: nonce }} }}\n\n"
    )
    .unwrap();
    for it in items {
        src.push_str(&it);
        src.push('\n');
    }
    Policy { src, calls }
}

// ------------------------------------------------------------------ serialized forms

fn cbor(m: &Module) -> Result<Vec<u8>, String> {
    let mut out = vec![];
    ciborium::into_writer(m, &mut out).map_err(|e| e.to_string())?;
    Ok(out)
}
fn uncbor(b: &[u8]) -> Result<Module, String> {
    ciborium::from_reader(b).map_err(|e| e.to_string())
}
fn rk(m: &Module) -> Result<Vec<u8>, String> {
    rkyv::to_bytes::<rkyv::rancor::Error>(m).map(|v| v.to_vec()).map_err(|e| e.to_string())
}
fn unrk(b: &[u8]) -> Result<Module, String> {
    let mut al = rkyv::util::AlignedVec::<16>::new();
    al.extend_from_slice(b);
    rkyv::from_bytes::<Module, rkyv::rancor::Error>(&al).map_err(|e| e.to_string())
}
fn json(m: &Module) -> Result<Vec<u8>, String> {
    serde_json::to_vec(m).map_err(|e| e.to_string())
}
fn unjson(b: &[u8]) -> Result<Module, String> {
    serde_json::from_slice(b).map_err(|e| e.to_string())
}
fn pc(m: &Module) -> Result<Vec<u8>, String> {
    postcard::to_allocvec(m).map_err(|e| e.to_string())
}
fn unpc(b: &[u8]) -> Result<Module, String> {
    postcard::from_bytes(b).map_err(|e| e.to_string())
}

type Enc = fn(&Module) -> Result<Vec<u8>, String>;
type Dec = fn(&[u8]) -> Result<Module, String>;
const FORMS: [(&str, Enc, Dec); 4] = [("cbor", cbor, uncbor), ("rkyv", rk, unrk), ("json", json, unjson), ("postcard", pc, unpc)];


// ------------------------------------------------------------------ serde data-model view of a value

/// A `serde::Serializer` that writes the data-model tree of a value as the token string the Lean
/// model reads (`u<n> i<n> b0|b1 s<hex> N S q<n> t<n> v<idx>`): exactly what a `Serialize` impl
/// tells ANY serializer, so field / variant orders are those of the real derive output, independent
/// of postcard's byte-level encoding.
mod valser {
    use serde::ser::{self, Serialize};
    use vh::hex;

    #[derive(Debug)]
    pub struct Unsupported(pub String);
    impl std::fmt::Display for Unsupported {
        fn fmt(&self, f: &mut std::fmt::Formatter<'_>) -> std::fmt::Result {
            write!(f, "{}", self.0)
        }
    }
    impl std::error::Error for Unsupported {}
    impl ser::Error for Unsupported {
        fn custom<T: std::fmt::Display>(m: T) -> Self {
            Unsupported(m.to_string())
        }
    }

    #[derive(Default)]
    pub struct ValSer {
        pub out: Vec<String>,
    }

    pub fn tokens<T: Serialize>(v: &T) -> Result<Vec<String>, Unsupported> {
        let mut s = ValSer::default();
        v.serialize(&mut s)?;
        Ok(s.out)
    }

    type R = Result<(), Unsupported>;

    impl<'a> ser::Serializer for &'a mut ValSer {
        type Ok = ();
        type Error = Unsupported;
        type SerializeSeq = Self;
        type SerializeTuple = Self;
        type SerializeTupleStruct = Self;
        type SerializeTupleVariant = Self;
        type SerializeMap = Self;
        type SerializeStruct = Self;
        type SerializeStructVariant = Self;

        fn serialize_bool(self, v: bool) -> R {
            self.out.push(format!("b{}", v as u8));
            Ok(())
        }
        fn serialize_i8(self, v: i8) -> R { self.serialize_i64(v.into()) }
        fn serialize_i16(self, v: i16) -> R { self.serialize_i64(v.into()) }
        fn serialize_i32(self, v: i32) -> R { self.serialize_i64(v.into()) }
        fn serialize_i64(self, v: i64) -> R {
            self.out.push(format!("i{v}"));
            Ok(())
        }
        fn serialize_u8(self, v: u8) -> R { self.serialize_u64(v.into()) }
        fn serialize_u16(self, v: u16) -> R { self.serialize_u64(v.into()) }
        fn serialize_u32(self, v: u32) -> R { self.serialize_u64(v.into()) }
        fn serialize_u64(self, v: u64) -> R {
            self.out.push(format!("u{v}"));
            Ok(())
        }
        fn serialize_f32(self, _: f32) -> R { Err(Unsupported("f32".into())) }
        fn serialize_f64(self, _: f64) -> R { Err(Unsupported("f64".into())) }
        fn serialize_char(self, _: char) -> R { Err(Unsupported("char".into())) }
        fn serialize_str(self, v: &str) -> R {
            self.out.push(format!("s{}", hex(v.as_bytes())));
            Ok(())
        }
        fn serialize_bytes(self, _: &[u8]) -> R { Err(Unsupported("bytes".into())) }
        fn serialize_none(self) -> R {
            self.out.push("N".into());
            Ok(())
        }
        fn serialize_some<T: ?Sized + Serialize>(self, v: &T) -> R {
            self.out.push("S".into());
            v.serialize(self)
        }
        fn serialize_unit(self) -> R {
            self.out.push("t0".into());
            Ok(())
        }
        fn serialize_unit_struct(self, _: &'static str) -> R { self.serialize_unit() }
        fn serialize_unit_variant(self, _: &'static str, idx: u32, _: &'static str) -> R {
            self.out.push(format!("v{idx}"));
            self.out.push("t0".into());
            Ok(())
        }
        fn serialize_newtype_struct<T: ?Sized + Serialize>(self, _: &'static str, v: &T) -> R {
            v.serialize(self)
        }
        fn serialize_newtype_variant<T: ?Sized + Serialize>(self, _: &'static str, idx: u32, _: &'static str, v: &T) -> R {
            self.out.push(format!("v{idx}"));
            self.out.push("t1".into());
            v.serialize(self)
        }
        fn serialize_seq(self, len: Option<usize>) -> Result<Self, Unsupported> {
            let n = len.ok_or_else(|| Unsupported("seq without length".into()))?;
            self.out.push(format!("q{n}"));
            Ok(self)
        }
        fn serialize_tuple(self, len: usize) -> Result<Self, Unsupported> {
            self.out.push(format!("t{len}"));
            Ok(self)
        }
        fn serialize_tuple_struct(self, _: &'static str, len: usize) -> Result<Self, Unsupported> {
            self.serialize_tuple(len)
        }
        fn serialize_tuple_variant(self, _: &'static str, idx: u32, _: &'static str, len: usize) -> Result<Self, Unsupported> {
            self.out.push(format!("v{idx}"));
            self.out.push(format!("t{len}"));
            Ok(self)
        }
        fn serialize_map(self, len: Option<usize>) -> Result<Self, Unsupported> {
            let n = len.ok_or_else(|| Unsupported("map without length".into()))?;
            self.out.push(format!("q{n}"));
            Ok(self)
        }
        fn serialize_struct(self, _: &'static str, len: usize) -> Result<Self, Unsupported> {
            self.out.push(format!("t{len}"));
            Ok(self)
        }
        fn serialize_struct_variant(self, _: &'static str, idx: u32, _: &'static str, len: usize) -> Result<Self, Unsupported> {
            self.out.push(format!("v{idx}"));
            self.out.push(format!("t{len}"));
            Ok(self)
        }
    }

    macro_rules! compound {
        ($tr:ident, $m:ident) => {
            impl<'a> ser::$tr for &'a mut ValSer {
                type Ok = ();
                type Error = Unsupported;
                fn $m<T: ?Sized + Serialize>(&mut self, v: &T) -> R {
                    v.serialize(&mut **self)
                }
                fn end(self) -> R {
                    Ok(())
                }
            }
        };
    }
    compound!(SerializeSeq, serialize_element);
    compound!(SerializeTuple, serialize_element);
    compound!(SerializeTupleStruct, serialize_field);
    compound!(SerializeTupleVariant, serialize_field);

    impl<'a> ser::SerializeMap for &'a mut ValSer {
        type Ok = ();
        type Error = Unsupported;
        fn serialize_key<T: ?Sized + Serialize>(&mut self, k: &T) -> R {
            self.out.push("t2".into());
            k.serialize(&mut **self)
        }
        fn serialize_value<T: ?Sized + Serialize>(&mut self, v: &T) -> R {
            v.serialize(&mut **self)
        }
        fn end(self) -> R {
            Ok(())
        }
    }
    impl<'a> ser::SerializeStruct for &'a mut ValSer {
        type Ok = ();
        type Error = Unsupported;
        fn serialize_field<T: ?Sized + Serialize>(&mut self, _: &'static str, v: &T) -> R {
            v.serialize(&mut **self)
        }
        fn end(self) -> R {
            Ok(())
        }
    }
    impl<'a> ser::SerializeStructVariant for &'a mut ValSer {
        type Ok = ();
        type Error = Unsupported;
        fn serialize_field<T: ?Sized + Serialize>(&mut self, _: &'static str, v: &T) -> R {
            v.serialize(&mut **self)
        }
        fn end(self) -> R {
            Ok(())
        }
    }
}

/// postcard form of the module's `ModuleV0` vs the Lean model `Model/ModuleWire.lean`
fn wire_lines(rec: &mut Recorder, rng: &mut Rng, m: &Module) {
    let ModuleData::V0(v0) = &m.data;
    let bytes = match postcard::to_allocvec(v0) {
        Ok(b) => b,
        Err(e) => {
            rec.oracle_fail(format!("postcard cannot encode ModuleV0: {e}"));
            return;
        }
    };
    let toks = match valser::tokens(v0) {
        Ok(t) => t,
        Err(e) => {
            rec.oracle_fail(format!("ModuleV0 uses a serde type the model does not know: {e}"));
            return;
        }
    };
    rec.count_n("wire-bytes", bytes.len() as u64);
    // model: encode(value tree) must be these bytes
    rec.line(format!("pcenc {}", toks.join(" ")), format!("ok {} {}", fnv(&hex(&bytes)), bytes.len()));
    // model: decode(bytes) must be this value tree; S level: the real round trip
    match postcard::from_bytes::<aranya_policy_module::ModuleV0>(&bytes) {
        Ok(back) => {
            if &back != v0 {
                rec.oracle_fail("postcard: decoded ModuleV0 differs from the original");
            }
            match postcard::to_allocvec(&back) {
                Ok(b2) if b2 == bytes => {}
                _ => rec.oracle_fail("postcard: re-encoding the decoded ModuleV0 gives different bytes"),
            }
            let t2 = valser::tokens(&back).unwrap_or_default();
            rec.line(format!("pcdec {}", hex(&bytes)), format!("ok {} {}", fnv(&t2.join(" ")), t2.len()));
        }
        Err(e) => {
            rec.oracle_fail(format!("postcard cannot decode its own ModuleV0 encoding: {e}"));
            rec.line(format!("pcdec {}", hex(&bytes)), "err");
        }
    }
    // every strict prefix must be rejected (the encoding is prefix-free)
    for _ in 0..2 {
        let cut = rng.below(bytes.len() as u64) as usize;
        let real = match vh::catch(|| postcard::from_bytes::<aranya_policy_module::ModuleV0>(&bytes[..cut]).is_ok()) {
            Ok(true) => {
                rec.oracle_fail(format!("postcard accepted a strict prefix ({cut} of {} bytes) of a ModuleV0", bytes.len()));
                "ok"
            }
            Ok(false) => "err",
            Err(p) => {
                rec.panics.push(format!("from_bytes on a truncated module: {p}"));
                "panic"
            }
        };
        rec.count("wire-truncations");
        rec.line(format!("pcdec {}", hex(&bytes[..cut])), real);
    }
}

// ------------------------------------------------------------------ execution

fn show_run(w: &mut pk::World, calls: &[(String, Vec<Vec<Value>>)]) -> Vec<String> {
    let mut out = vec![];
    for (a, vecs) in calls {
        for args in vecs {
            let (r, sink) = w.act(a, args);
            let effs: Vec<String> = sink
                .effects()
                .iter()
                .map(|e| format!("{}{{{}}}{}", e.name, pk::show_fields(&e.fields), if e.recalled { "R" } else { "" }))
                .collect();
            out.push(format!("{a}({}) -> {} [{}]", args.iter().map(pk::show_value).collect::<Vec<_>>().join(","), if r.is_ok() { "ok" } else { "err" }, effs.join(" ")));
        }
    }
    out
}

fn table_lines(rec: &mut Recorder, m: &Module, machine: &Machine) {
    let ModuleData::V0(v0) = &m.data;
    fn one(rec: &mut Recorder, module_names: Vec<String>, machine_names: Vec<String>) {
        let idx: BTreeMap<&String, usize> = module_names.iter().enumerate().map(|(i, n)| (n, i)).collect();
        let req = format!("collect {}", module_names.iter().map(|n| hex(n.as_bytes())).collect::<Vec<_>>().join(" "));
        let real = if machine_names.is_empty() {
            "empty".to_string()
        } else {
            machine_names.iter().map(|n| format!("{}:{}", hex(n.as_bytes()), idx.get(n).copied().unwrap_or(usize::MAX))).collect::<Vec<_>>().join(" ")
        };
        rec.line(req.trim_end().to_string(), real);
        // S level: nothing lost, nothing invented
        let mut a = module_names.clone();
        a.sort();
        let mut b = machine_names.clone();
        b.sort();
        if a != b {
            rec.oracle_fail("Machine::from_module lost or invented a definition");
        }
        if let Some(n) = module_names.first() {
            rec.line(
                format!("get {} / {}", hex(n.as_bytes()), module_names.iter().map(|n| hex(n.as_bytes())).collect::<Vec<_>>().join(" ")),
                if machine_names.contains(n) { "some 0".to_string() } else { "none".to_string() },
            );
        }
    }
    one(rec, v0.action_defs.iter().map(|d| d.name.to_string()).collect(), machine.action_defs.iter().map(|d| d.name.to_string()).collect());
    one(rec, v0.command_defs.iter().map(|d| d.name.to_string()).collect(), machine.command_defs.iter().map(|d| d.name.to_string()).collect());
    one(rec, v0.fact_defs.iter().map(|d| d.name.to_string()).collect(), machine.fact_defs.iter().map(|d| d.name.to_string()).collect());
    one(rec, v0.struct_defs.iter().map(|d| d.name.to_string()).collect(), machine.struct_defs.iter().map(|d| d.name.to_string()).collect());
    one(rec, v0.enum_defs.iter().map(|d| d.name.to_string()).collect(), machine.enum_defs.iter().map(|d| d.name.to_string()).collect());
}

fn child_compile(path: &std::path::Path) -> Result<String, String> {
    let exe = std::env::current_exe().map_err(|e| e.to_string())?;
    let out = Command::new(exe).arg("--child").arg(path).output().map_err(|e| e.to_string())?;
    if !out.status.success() {
        return Err(format!("child failed: {}", String::from_utf8_lossy(&out.stderr)));
    }
    Ok(String::from_utf8_lossy(&out.stdout).trim().to_string())
}

fn child_main(path: &str) {
    let src = std::fs::read_to_string(path).expect("read");
    match pk::compile(&src, true) {
        pk::Compiled::Ok(m) => println!("{} {}", hex(&cbor(&m).unwrap()), hex(&rk(&m).unwrap())),
        pk::Compiled::ParseError(e) | pk::Compiled::Rejected(e) => {
            eprintln!("{e}");
            std::process::exit(3)
        }
    }
}

struct FormStats {
    ok: u64,
    enc_err: u64,
    dec_err: u64,
    last_err: String,
}

fn one_case(rec: &mut Recorder, rng: &mut Rng, scratch: &std::path::Path, forms: &mut BTreeMap<&'static str, FormStats>, children: bool) {
    let pol = gen_policy(rng);
    let m1 = match pk::compile(&pol.src, true) {
        pk::Compiled::Ok(m) => m,
        pk::Compiled::ParseError(e) | pk::Compiled::Rejected(e) => {
            rec.oracle_fail(format!("generated policy not accepted: {}", e.lines().take(6).collect::<Vec<_>>().join(" | ")));
            rec.sample(pol.src.clone());
            return;
        }
    };
    if rec.cases() <= 1 {
        rec.sample(pol.src.clone());
    }
    rec.nontrivial(fnv(&pol.src));
    // ---- determinism, in process: every `HashMap` instance has its own `RandomState`, so repeated
    // compilations already differ when an iteration order leaks (probabilistically: compile often)
    let (c1, r1) = (cbor(&m1).unwrap_or_default(), rk(&m1).unwrap_or_default());
    for k in 0..INPROC_COMPILES {
        let m2 = match pk::compile(&pol.src, true) {
            pk::Compiled::Ok(m) => m,
            _ => {
                rec.oracle_fail("a repeated compilation of the same text was rejected");
                return;
            }
        };
        rec.count("inproc-recompiles");
        if m1 != m2 {
            rec.oracle_fail(format!("two compilations of the same policy text gave different modules (recompilation #{k})"));
            break;
        }
        if c1 != cbor(&m2).unwrap_or_default() || r1 != rk(&m2).unwrap_or_default() {
            rec.oracle_fail("two compilations of the same policy text serialize differently");
            break;
        }
    }
    // ---- determinism, across processes
    if children {
        let path = scratch.join(format!("c28-{}.policy", std::process::id()));
        std::fs::write(&path, &pol.src).expect("write policy");
        for k in 0..2 {
            match child_compile(&path) {
                Ok(s) => {
                    rec.count("child-compiles");
                    if s != format!("{} {}", hex(&c1), hex(&r1)) {
                        rec.oracle_fail(format!("child process {k} compiled the same policy text to a different serialized module"));
                    }
                }
                Err(e) => rec.oracle_fail(format!("child compile: {e}")),
            }
        }
        let _ = std::fs::remove_file(&path);
    }
    // ---- model tie + machine
    let machine1 = match Machine::from_module(m1.clone()) {
        Ok(m) => m,
        Err(e) => {
            rec.oracle_fail(format!("from_module: {e}"));
            return;
        }
    };
    table_lines(rec, &m1, &machine1);
    wire_lines(rec, rng, &m1);
    // ---- serialized forms
    let mut reloaded: Vec<(&'static str, Machine)> = vec![];
    for (fname, enc, dec) in FORMS {
        let st = forms.entry(fname).or_insert(FormStats { ok: 0, enc_err: 0, dec_err: 0, last_err: String::new() });
        match enc(&m1) {
            Err(e) => {
                st.enc_err += 1;
                st.last_err = e;
            }
            Ok(bytes) => match dec(&bytes) {
                Err(e) => {
                    st.dec_err += 1;
                    st.last_err = e;
                }
                Ok(m) => {
                    st.ok += 1;
                    if m != m1 {
                        rec.oracle_fail(format!("{fname}: decoded module differs from the original"));
                    }
                    match enc(&m) {
                        Ok(b2) if b2 == bytes => {}
                        _ => rec.oracle_fail(format!("{fname}: re-encoding the decoded module gives different bytes")),
                    }
                    match Machine::from_module(m) {
                        Ok(mm) => {
                            if mm != machine1 {
                                rec.oracle_fail(format!("{fname}: reloaded machine differs from the original machine"));
                            }
                            reloaded.push((fname, mm));
                        }
                        Err(e) => rec.oracle_fail(format!("{fname}: from_module of the decoded module: {e}")),
                    }
                }
            },
        }
    }
    // ---- re-execution
    let base = match pk::World::from_machine(machine1) {
        Ok(mut w) => show_run(&mut w, &pol.calls),
        Err(e) => {
            rec.oracle_fail(format!("world: {e}"));
            return;
        }
    };
    rec.count_n("entry-point-runs", base.len() as u64);
    for l in &base {
        rec.count(if l.contains("-> ok") { "run:ok" } else { "run:err" });
        if l.contains("}R") {
            rec.count("run:recalled-effect");
        }
    }
    if rec.samples.len() < 3 {
        rec.sample(base.join(" ; "));
    }
    for (fname, mm) in reloaded {
        match pk::World::from_machine(mm) {
            Ok(mut w) => {
                let got = show_run(&mut w, &pol.calls);
                if got != base {
                    let i = got.iter().zip(&base).position(|(a, b)| a != b).unwrap_or(0);
                    rec.oracle_fail(format!("{fname}: re-execution differs: `{}` vs original `{}`", got.get(i).cloned().unwrap_or_default(), base.get(i).cloned().unwrap_or_default()));
                }
            }
            Err(e) => rec.oracle_fail(format!("{fname}: world: {e}")),
        }
    }
}

fn main() {
    let argv: Vec<String> = std::env::args().collect();
    if argv.len() == 3 && argv[1] == "--child" {
        child_main(&argv[2]);
        return;
    }
    let args = Args::parse();
    vh::quiet_panics();
    let mut rec = Recorder::new(&args.out);
    let scratch = std::env::var("VERIF_SCRATCH").map(std::path::PathBuf::from).unwrap_or_else(|_| std::env::temp_dir());
    std::fs::create_dir_all(&scratch).ok();
    let mut forms: BTreeMap<&'static str, FormStats> = BTreeMap::new();
    let (seed, cases, start) = match &args.replay {
        // a case is a pure function of (seed, index): replay files hold `gen <seed> <index>`
        Some(p) => {
            let l = vh::read_replay_input(p);
            let t: Vec<u64> = l.iter().find(|l| l.starts_with("gen ")).map(|l| l.split(' ').skip(1).filter_map(|x| x.parse().ok()).collect()).unwrap_or_default();
            if t.len() != 2 {
                rec.finish(args.seed, &args.tier);
                return;
            }
            (t[0], 1usize, t[1])
        }
        None => (args.seed, args.budget(40, 600), 0),
    };
    let mut rng = Rng::new(seed);
    for _ in 0..start {
        let _ = rng.fork();
    }
    for k in 0..cases {
        let mut crng = rng.fork();
        rec.begin_case();
        rec.line(format!("gen {seed} {}", start + k as u64), "bad-op");
        // child processes are expensive on a loaded machine: every 4th case (every case in thorough)
        let children = args.thorough() || args.search || k % 4 == 0 || args.replay.is_some();
        one_case(&mut rec, &mut crng, &scratch, &mut forms, children);
    }
    for (f, st) in &forms {
        rec.notes.push(format!("form {f}: {} round trips, {} encode errors, {} decode errors{}", st.ok, st.enc_err, st.dec_err, if st.last_err.is_empty() { String::new() } else { format!(" (last: {})", st.last_err) }));
        if st.ok > 0 && st.enc_err + st.dec_err > 0 {
            rec.oracle_fail(format!("form {f} round-trips some modules but fails on others: {}", st.last_err));
        }
    }
    rec.finish(args.seed, &args.tier);
}
