fn main(){}
