//! C35 — replicas accept only authentic commands.
//!
//! REAL code driven: a `VmPolicy` compiled from a realistic policy (seal/open blocks that sign and
//! verify through the real `crypto` / `envelope` / `device` / `idam` / `perspective` FFI modules,
//! default engine + default cipher suite, in-memory key stores) behind real `ClientState`s over
//! the real in-memory linear storage.
//!
//! One case = one honest history: devices A (and A2), honest actions of several command kinds on
//! A (with a concurrent branch by A2 and the merge A creates on top of it in half of the cases),
//! shipped to an empty replica through the REAL sync protocol (`SyncRequester` /
//! `SyncResponder`); the response messages are decoded by a mirror of the wire structs that must
//! re-encode byte-identically.  Then, for every command and every mutation class, ONE wire field
//! of the command is changed "in transit": the harness builds a real `SyncResponse` message that
//! carries the changed command, a real `SyncRequester` parses it, and the resulting
//! `SyncCommand` is handed to `ClientState::add_commands` + `commit` of replica B that holds
//! exactly the honest prefix.
//!
//! S-level oracle (independent of the Lean model): B accepts a delivered signed command iff its
//! (id, parent id, author, command name, payload, signature) are those of an honest signing
//! event (priority = the policy's priority of that name, parent present); a command that is not
//! accepted leaves heads, facts and committed effects unchanged and is not locatable
//! (`command_exists` false); after the rejected delivery B accepts the honest remainder and ends
//! in A's state.  A mutation that is accepted is reported with the wire bytes (hex) and the field.
//!
//! Real-vs-model: each delivery is also described symbolically (`recv …`: tokens for ids,
//! signatures, devices, keys) and decided by the Lean model `Model.Envelope.recv`.

#[path = "../cry.rs"]
mod cry;

use std::{borrow::Cow, collections::BTreeMap, panic::AssertUnwindSafe};

use aranya_crypto::{
    default::DefaultEngine, keystore::memstore::MemStore, policy::CmdId as CryptoCmdId, Cmd, DeviceId, IdentityKey,
    KeyStoreExt as _, SigningKey,
};
use aranya_crypto_ffi::Ffi as CryptoFfi;
use aranya_device_ffi::FfiDevice as DeviceFfi;
use aranya_envelope_ffi::Ffi as EnvelopeFfi;
use aranya_idam_ffi::Ffi as IdamFfi;
use aranya_perspective_ffi::FfiPerspective as PerspectiveFfi;
use aranya_policy_ast::Version;
use aranya_policy_compiler::Compiler;
use aranya_policy_lang::lang::parse_policy_str;
use aranya_policy_vm::{ffi::FfiModule as _, ffi::ModuleSchema, Identifier, Machine, Value};
use aranya_runtime::{
    policy::{PolicyError, PolicyId, PolicyStore, Sink},
    storage::{linear::testing::MemStorageProvider, Query as _, Storage as _, StorageProvider},
    Address, ClientError, ClientState, CmdId, Command, FfiCallable, GraphId, MaxCut, MemSpill, PeerCache, Prior,
    Priority, RuntimeBuffers, SyncIncoming, SyncRequester, SyncResponder, VmAction, VmEffect, VmPolicy,
    VmProtocolData, MAX_SYNC_MESSAGE_SIZE,
};
use cry::{SeedRng, CS};
use serde::{Deserialize, Serialize};
use vh::{fnv, hex, unhex, Args, Recorder, Rng};

type Eng = DefaultEngine<SeedRng, CS>;
type Segment = <MemStorageProvider as StorageProvider>::Segment;

// ------------------------------------------------------------------------------------ policy

const POLICY: &str = r#"
use idam
use perspective
use device
use crypto
use envelope

fact DeviceSignKey[device_id id]=>{key_id id, key bytes}
fact DeviceIdentKey[device_id id]=>{key bytes}
fact Stuff[a int]=>{x int}
fact Note[k int]=>{text string, blob bytes}
fact Epoch[n int]=>{}

effect Inited { device id, nonce int }
effect DeviceAdded { device id }
effect StuffHappened { a int, x int }
effect NoteSet { k int, text string }
effect EpochSet { n int }

function seal_basic(payload bytes) struct Envelope {
    let parent_id = perspective::head_id()
    let author_id = device::current_device_id()
    let author_sign_id = match query DeviceSignKey[device_id: author_id]=>{key_id: ?, key: ?} {
        Some(pk) => Some(pk.key_id)
        None => None
    }
    let signed = crypto::sign(author_sign_id, payload)
    return envelope::new(parent_id, author_id, signed.command_id, signed.signature)
}

function open_basic(payload bytes, envelope_input struct Envelope) unit {
    let author_id = envelope::author_id(envelope_input)
    let author_sign_pk = match query DeviceSignKey[device_id: author_id]=>{key_id: ?, key: ?} {
        Some(pk) => Some(pk.key)
        None => None
    }
    let parent_id = envelope::parent_id(envelope_input)
    return crypto::verify(
        author_sign_pk,
        parent_id,
        payload,
        envelope::command_id(envelope_input),
        envelope::signature(envelope_input),
    )
}

action init(nonce int, ident_pk bytes, sign_pk bytes) {
    publish Init { nonce: nonce, ident_pk: ident_pk, sign_pk: sign_pk }
}

command Init {
    attributes { init: true }
    fields { nonce int, ident_pk bytes, sign_pk bytes }

    seal {
        let parent_id = perspective::head_id()
        let author_sign_sk_id = idam::derive_sign_key_id(this.sign_pk)
        let signed = crypto::sign(Some(author_sign_sk_id), payload)
        let author_id = device::current_device_id()
        return envelope::new(parent_id, author_id, signed.command_id, signed.signature)
    }

    open {
        // the init command certifies its own keys: the author must be the device the
        // identity key names, and the signature must verify under the signing key it carries
        let author_id = envelope::author_id(envelope)
        let derived = idam::derive_device_id(this.ident_pk)
        let pk = if author_id == derived { : Some(this.sign_pk) } else { : None }
        return crypto::verify(
            pk,
            envelope::parent_id(envelope),
            payload,
            envelope::command_id(envelope),
            envelope::signature(envelope),
        )
    }

    policy {
        let author = envelope::author_id(envelope)
        let sign_pk_id = idam::derive_sign_key_id(this.sign_pk)
        finish {
            create DeviceSignKey[device_id: author]=>{key_id: sign_pk_id, key: this.sign_pk}
            create DeviceIdentKey[device_id: author]=>{key: this.ident_pk}
            emit Inited { device: author, nonce: this.nonce }
        }
    }
}

action add_device(ident_pk bytes, sign_pk bytes) {
    publish AddDevice { ident_pk: ident_pk, sign_pk: sign_pk }
}

command AddDevice {
    attributes { priority: 0 }
    fields { ident_pk bytes, sign_pk bytes }
    seal { return seal_basic(payload) }
    open { return open_basic(payload, envelope) }
    policy {
        let device_id = idam::derive_device_id(this.ident_pk)
        let sign_pk_id = idam::derive_sign_key_id(this.sign_pk)
        finish {
            create DeviceSignKey[device_id: device_id]=>{key_id: sign_pk_id, key: this.sign_pk}
            create DeviceIdentKey[device_id: device_id]=>{key: this.ident_pk}
            emit DeviceAdded { device: device_id }
        }
    }
}

action create_stuff(a int, v int) {
    publish Create { key_a: a, value: v }
}

command Create {
    attributes { priority: 0 }
    fields { key_a int, value int }
    seal { return seal_basic(payload) }
    open { return open_basic(payload, envelope) }
    policy {
        finish {
            create Stuff[a: this.key_a]=>{x: this.value}
            emit StuffHappened { a: this.key_a, x: this.value }
        }
    }
}

action increment(a int, v int) {
    publish Increment { key_a: a, value: v }
}

command Increment {
    attributes { priority: 0 }
    fields { key_a int, value int }
    seal { return seal_basic(payload) }
    open { return open_basic(payload, envelope) }
    policy {
        let stuff = query Stuff[a: this.key_a]=>{x: ?} or recall missing()
        let new_x = saturating_add(stuff.x, this.value)
        finish {
            update Stuff[a: this.key_a]=>{x: stuff.x} to {x: new_x}
            emit StuffHappened { a: this.key_a, x: new_x }
        }
    }
    recall missing() {}
}

action set_note(k int, text string, blob bytes) {
    publish SetNote { k: k, text: text, blob: blob }
}

command SetNote {
    attributes { priority: 3 }
    fields { k int, text string, blob bytes }
    seal { return seal_basic(payload) }
    open { return open_basic(payload, envelope) }
    policy {
        finish {
            create Note[k: this.k]=>{text: this.text, blob: this.blob}
            emit NoteSet { k: this.k, text: this.text }
        }
    }
}

action set_epoch(n int) {
    publish SetEpoch { n: n }
}

command SetEpoch {
    attributes { finalize: true }
    fields { n int }
    seal { return seal_basic(payload) }
    open { return open_basic(payload, envelope) }
    policy {
        finish {
            create Epoch[n: this.n]=>{}
            emit EpochSet { n: this.n }
        }
    }
}
"#;

const FACT_NAMES: &[&str] = &["DeviceSignKey", "DeviceIdentKey", "Stuff", "Note", "Epoch"];

/// (command name, priority token, persistent) — what the harness knows about the policy; sent to
/// the model as `def` lines and used by the oracle
const DEFS: &[(&str, &str)] = &[
    ("Init", "init"),
    ("AddDevice", "b0"),
    ("Create", "b0"),
    ("Increment", "b0"),
    ("SetNote", "b3"),
    ("SetEpoch", "fin"),
];

fn def_prio(kind: &str) -> Option<&'static str> {
    DEFS.iter().find(|d| d.0 == kind).map(|d| d.1)
}

fn compile_machine() -> Machine {
    let schemas: &[ModuleSchema<'static>] = &[
        DeviceFfi::SCHEMA,
        EnvelopeFfi::SCHEMA,
        PerspectiveFfi::SCHEMA,
        CryptoFfi::<MemStore>::SCHEMA,
        IdamFfi::<MemStore>::SCHEMA,
    ];
    let ast = parse_policy_str(POLICY, Version::V2).unwrap_or_else(|e| panic!("policy does not parse: {e}"));
    let module = Compiler::new(&ast)
        .ffi_modules(schemas)
        .debug(false)
        .compile()
        .unwrap_or_else(|e| panic!("policy does not compile: {e}"));
    Machine::from_module(module).expect("machine")
}

// ------------------------------------------------------------------------------------ replicas

struct PStore {
    policy: VmPolicy<Eng>,
}

impl PolicyStore for PStore {
    type Policy = VmPolicy<Eng>;
    type Effect = VmEffect;
    fn add_policy(&mut self, policy: &[u8]) -> Result<PolicyId, PolicyError> {
        Ok(PolicyId::new(policy.first().copied().unwrap_or(0).into()))
    }
    fn get_policy(&self, _id: PolicyId) -> Result<&Self::Policy, PolicyError> {
        Ok(&self.policy)
    }
}

/// sink with transactional staging: only committed effects count
#[derive(Default)]
struct ESink {
    staged: Vec<VmEffect>,
    committed: Vec<VmEffect>,
    rollbacks: usize,
}

impl Sink<VmEffect> for ESink {
    fn begin(&mut self) {
        self.staged.clear();
    }
    fn consume(&mut self, e: VmEffect) {
        self.staged.push(e);
    }
    fn rollback(&mut self) {
        self.staged.clear();
        self.rollbacks += 1;
    }
    fn commit(&mut self) {
        self.committed.append(&mut self.staged);
    }
}

fn show_effect(e: &VmEffect) -> String {
    let f: Vec<String> = e.fields.iter().map(|kv| format!("{}={:?}", kv.key(), kv.value())).collect();
    format!("{}@{}{{{}}}{}", e.name, &hex(e.command.as_bytes())[..8], f.join(","), if e.recalled { "!" } else { "" })
}

/// a device: identity + signing key (public parts and the secret signing key for the oracle)
struct Dev {
    id: DeviceId,
    ident_pk: Vec<u8>,
    sign_pk: Vec<u8>,
    sk: SigningKey<CS>,
    ik: IdentityKey<CS>,
}

fn new_dev(krng: &SeedRng) -> Dev {
    let ik = IdentityKey::<CS>::new(krng);
    let sk = SigningKey::<CS>::new(krng);
    let id = ik.id().expect("device id");
    let ident_pk = postcard::to_allocvec(&ik.public().expect("ident pk")).expect("encode");
    let sign_pk = postcard::to_allocvec(&sk.public().expect("sign pk")).expect("encode");
    Dev { id, ident_pk, sign_pk, sk, ik }
}

struct Rep {
    client: ClientState<PStore, MemStorageProvider>,
    bufs: RuntimeBuffers<Segment>,
    sink: ESink,
}

/// a replica owned by device `dev` (None: a pure receiver with a fresh device of its own)
fn new_rep(machine: &Machine, seed: u64, dev: Option<&Dev>) -> Rep {
    let (eng, _) = Eng::from_entropy(SeedRng::new(seed));
    let mut store = MemStore::new();
    let own;
    let d = match dev {
        Some(d) => d,
        None => {
            own = new_dev(&SeedRng::new(seed ^ 0x5151));
            &own
        }
    };
    store.insert_key(&eng, d.ik.clone()).expect("insert ident key");
    store.insert_key(&eng, d.sk.clone()).expect("insert sign key");
    let ffis: Vec<Box<dyn FfiCallable<Eng> + Send + 'static>> = vec![
        Box::from(DeviceFfi::new(d.id)),
        Box::from(EnvelopeFfi),
        Box::from(PerspectiveFfi),
        Box::from(CryptoFfi::new(store.clone())),
        Box::from(IdamFfi::new(store)),
    ];
    let policy = VmPolicy::new(machine.clone(), eng, ffis).expect("VmPolicy::new");
    Rep {
        client: ClientState::new(PStore { policy }, MemStorageProvider::default()),
        bufs: RuntimeBuffers::new(),
        sink: ESink::default(),
    }
}

fn err_name(e: &ClientError) -> String {
    match e {
        ClientError::NoSuchParent(_) => "NoSuchParent".into(),
        ClientError::PolicyError(PolicyError::Rejected) => "Rejected".into(),
        ClientError::PolicyError(p) => format!("Policy:{p:?}"),
        ClientError::StorageError(s) => format!("Storage:{s:?}"),
        ClientError::InitError => "InitError".into(),
        ClientError::ParallelFinalize => "ParallelFinalize".into(),
        ClientError::ConcurrentTransaction => "ConcurrentTransaction".into(),
        ClientError::Bug(b) => format!("Bug:{b:?}"),
        _ => "Other".into(),
    }
}

/// observable state of a replica: heads and facts (committed effects are judged separately: a
/// `commit` on a multi-head graph re-braids the heads and re-emits the effects of commands the
/// replica already holds, whether or not the transaction added anything)
#[derive(Clone, Debug, PartialEq, Eq)]
struct Snap {
    heads: Vec<CmdId>,
    facts: Vec<String>,
}

impl Rep {
    fn action(&mut self, graph: GraphId, name: &str, args: Vec<Value>) -> Result<(), String> {
        let name: Identifier = name.parse().map_err(|_| "bad action name".to_string())?;
        self.client
            .action(graph, &mut self.sink, VmAction { name, args: Cow::Owned(args) }, &mut self.bufs, MemSpill::new)
            .map_err(|e| err_name(&e))
    }

    fn snap(&mut self, graph: GraphId) -> Snap {
        match self.client.provider().get_storage(graph) {
            Err(_) => Snap { heads: vec![], facts: vec!["<nostore>".into()] },
            Ok(s) => {
                let mut heads: Vec<CmdId> = s.get_heads().map(|h| h.iter().map(|la| la.id).collect()).unwrap_or_default();
                heads.sort();
                let mut facts = vec![];
                match s.fact_cache() {
                    Err(e) => facts.push(format!("<fact_cache {e:?}>")),
                    Ok(fc) => {
                        for name in FACT_NAMES {
                            match fc.query_prefix(name, &[]) {
                                Err(e) => facts.push(format!("<{name} {e:?}>")),
                                Ok(it) => {
                                    for f in it {
                                        match f {
                                            Ok(f) => {
                                                let k: Vec<String> = f.key.iter().map(|c| hex(c)).collect();
                                                facts.push(format!("{name}[{}]={}", k.join("."), hex(&f.value)));
                                            }
                                            Err(e) => facts.push(format!("<{name} {e:?}>")),
                                        }
                                    }
                                }
                            }
                        }
                    }
                }
                facts.sort();
                Snap { heads, facts }
            }
        }
    }

    fn exists(&mut self, graph: GraphId, addr: Address) -> bool {
        self.client.command_exists(graph, addr, &mut self.bufs.traversal.primary)
    }
}

// ------------------------------------------------------------------------------------ the wire

/// mirror of `sync::wire::CommandMeta` (the on-wire description of one command)
#[derive(Serialize, Deserialize, Clone, Debug, PartialEq)]
struct WMeta {
    id: CmdId,
    priority: Priority,
    parent: Prior<Address>,
    policy_length: u32,
    length: u32,
}

/// mirror of `sync::responder::SyncResponseMessage`
#[derive(Serialize, Deserialize, Clone, Debug, PartialEq)]
enum WResp {
    SyncResponse { session_id: u128, response_index: u64, commands: Vec<WMeta> },
    SyncEnd { session_id: u128, max_index: u64, remaining: bool },
    Offer { session_id: u128, head: CmdId },
    EndSession { session_id: u128 },
}

/// one command as it travels: every field of the wire
#[derive(Clone, Debug, PartialEq)]
struct WCmd {
    id: CmdId,
    prio: Priority,
    parent: Prior<Address>,
    policy: Option<Vec<u8>>,
    data: Vec<u8>,
}

impl WCmd {
    fn of(c: &impl Command) -> WCmd {
        WCmd { id: c.id(), prio: c.priority(), parent: c.parent(), policy: c.policy().map(|p| p.to_vec()), data: c.bytes().to_vec() }
    }
    fn max_cut(&self) -> u64 {
        match self.parent {
            Prior::None => 0,
            Prior::Single(p) => p.max_cut.get().saturating_add(1),
            Prior::Merge(l, r) => l.max_cut.get().max(r.max_cut.get()).saturating_add(1),
        }
    }
    fn address(&self) -> Address {
        Address { id: self.id, max_cut: MaxCut::new(self.max_cut()) }
    }
}

const SESSION: u128 = 0x0C35_0C35_0C35_0C35;

/// one real `SyncResponse` message carrying `cmds`
fn encode_message(cmds: &[WCmd], index: u64) -> Vec<u8> {
    let metas = cmds
        .iter()
        .map(|c| WMeta {
            id: c.id,
            priority: c.prio.clone(),
            parent: c.parent,
            policy_length: c.policy.as_ref().map(|p| p.len() as u32).unwrap_or(0),
            length: c.data.len() as u32,
        })
        .collect();
    let mut out = postcard::to_allocvec(&WResp::SyncResponse { session_id: SESSION, response_index: index, commands: metas })
        .expect("encode message");
    for c in cmds {
        if let Some(p) = &c.policy {
            out.extend_from_slice(p);
        }
        out.extend_from_slice(&c.data);
    }
    out
}

/// the mirror's reading of a real response message
fn decode_message(bytes: &[u8], strict: bool) -> Result<(WResp, Vec<WCmd>), String> {
    let (msg, rest): (WResp, &[u8]) = postcard::take_from_bytes(bytes).map_err(|e| format!("mirror decode: {e}"))?;
    let mut cmds = vec![];
    if let WResp::SyncResponse { commands, .. } = &msg {
        let mut at = 0usize;
        for m in commands {
            let pl = m.policy_length as usize;
            let policy = if pl == 0 {
                None
            } else {
                let p = rest.get(at..at + pl).ok_or("short policy")?.to_vec();
                at += pl;
                Some(p)
            };
            let l = m.length as usize;
            let data = rest.get(at..at + l).ok_or("short data")?.to_vec();
            at += l;
            cmds.push(WCmd { id: m.id, prio: m.priority.clone(), parent: m.parent, policy, data });
        }
        if at != rest.len() && strict {
            return Err("trailing bytes after the last command".into());
        }
    }
    Ok((msg, cmds))
}

/// Result of handing one wire message to a replica: `add_commands` + `commit`.
#[derive(Clone, Debug, PartialEq)]
enum Outcome {
    /// number of commands added
    Added(usize),
    /// error class of `add_commands` (the transaction is still committed afterwards)
    Err(String),
    /// the requester could not parse the message
    Wire(String),
}

impl Rep {
    /// Deliver one wire message: REAL `SyncRequester::receive` → `add_commands` → `commit`.
    fn deliver(&mut self, graph: GraphId, wire: &[u8], index: u64, panics: &mut Vec<String>) -> Outcome {
        let mut rq = SyncRequester::new_session_id(graph, SESSION);
        // `new_session_id` starts at message index 0
        let _ = index;
        let cmds = match rq.receive(wire) {
            Ok(Some(c)) => c,
            Ok(None) => return Outcome::Wire("no commands".into()),
            Err(e) => return Outcome::Wire(format!("{e:?}")),
        };
        let mut trx = self.client.transaction(graph);
        let client = &mut self.client;
        let sink = &mut self.sink;
        let bufs = &mut self.bufs;
        let r = vh::catch(AssertUnwindSafe(|| client.add_commands(&mut trx, sink, &cmds, bufs, MemSpill::new)));
        let out = match r {
            Ok(Ok(n)) => Outcome::Added(n),
            Ok(Err(e)) => Outcome::Err(err_name(&e)),
            Err(p) => {
                panics.push(format!("add_commands panicked: {p} on wire {}", hex(wire)));
                return Outcome::Err("panic".into());
            }
        };
        let client = &mut self.client;
        let sink = &mut self.sink;
        let bufs = &mut self.bufs;
        match vh::catch(AssertUnwindSafe(|| client.commit(trx, sink, bufs, MemSpill::new))) {
            Ok(Ok(_)) => {}
            Ok(Err(e)) => {
                if matches!(out, Outcome::Added(_)) {
                    return Outcome::Err(format!("commit:{}", err_name(&e)));
                }
            }
            Err(p) => panics.push(format!("commit panicked: {p} after wire {}", hex(wire))),
        }
        out
    }
}

/// A full honest sync session `src → dst` over the real protocol.  Returns the response messages
/// (raw bytes) in order.
fn sync_session(dst: &mut Rep, src: &mut Rep, graph: GraphId) -> Result<Vec<Vec<u8>>, String> {
    let mut requester = SyncRequester::new(graph, SeedRng::new(7));
    let mut buf = vec![0u8; MAX_SYNC_MESSAGE_SIZE];
    let cache = PeerCache::new();
    let (len, _) = requester
        .poll(&mut buf, dst.client.provider(), &cache.session_heads(), &mut dst.bufs.traversal.primary)
        .map_err(|e| format!("requester.poll: {e:?}"))?;
    let mut responder = SyncResponder::new();
    match SyncIncoming::decode(&buf[..len]) {
        Ok(SyncIncoming::Poll(p)) => responder.receive(p).map_err(|e| format!("responder.receive: {e:?}"))?,
        Ok(_) => return Err("request is not a poll".into()),
        Err(e) => return Err(format!("decode request: {e:?}")),
    }
    let mut resp_cache = PeerCache::new();
    let mut msgs = vec![];
    let mut trx = dst.client.transaction(graph);
    let mut polls = 0;
    while responder.ready() {
        polls += 1;
        if polls > 200 {
            return Err("session does not end".into());
        }
        let len = responder
            .poll(&mut buf, src.client.provider(), &mut resp_cache, &mut src.bufs.traversal)
            .map_err(|e| format!("responder.poll: {e:?}"))?;
        msgs.push(buf[..len].to_vec());
        match requester.receive(&buf[..len]) {
            Ok(Some(cmds)) => {
                dst.client
                    .add_commands(&mut trx, &mut dst.sink, &cmds, &mut dst.bufs, MemSpill::new)
                    .map_err(|e| format!("honest add_commands: {}", err_name(&e)))?;
            }
            Ok(None) => {}
            Err(e) => return Err(format!("requester.receive: {e:?}")),
        }
    }
    dst.client
        .commit(trx, &mut dst.sink, &mut dst.bufs, MemSpill::new)
        .map_err(|e| format!("honest commit: {}", err_name(&e)))?;
    Ok(msgs)
}

// ------------------------------------------------------------------------------------ the honest world

/// what the harness knows about one shipped command
struct Honest {
    w: WCmd,
    /// decoded payload of a signed command (None for merge commands)
    signed: Option<Signed>,
    /// indices (delivery order) of the commands this one descends from, itself included
    anc: Vec<bool>,
}

#[derive(Clone)]
struct Signed {
    author: DeviceId,
    dev: usize,
    kind: String,
    fields: Vec<u8>,
    sig: Vec<u8>,
    parent_id: CmdId,
}

struct World {
    machine: Machine,
    seed: u64,
    devs: Vec<Dev>,
    graph: GraphId,
    cmds: Vec<Honest>,
    /// honest state after delivering the first `i` commands (index i), on a fresh replica
    prefix: Vec<Snap>,
    /// A's own final state
    final_a: Snap,
    /// for device n: index of the command that registers its signing key
    registered_at: Vec<Option<usize>>,
}

fn text(s: &str) -> Value {
    Value::String(s.parse().expect("text"))
}

/// One honest action for the replica whose visible `Stuff` keys are `vis` (ascending; a
/// `create_stuff` appends its fresh key).  `increment` only names a key the acting replica can
/// see (the policy recalls an `Increment` of a missing key) and, inside a concurrent window, not a
/// key the other branch has touched (`avoid`): two concurrent `update`s of one fact cannot both
/// apply in the braid.
fn gen_action(rng: &mut Rng, w: &mut GenState, vis: &mut Vec<i64>, avoid: &[i64], touched: &mut Vec<i64>, allow_finalize: bool) -> (&'static str, Vec<Value>) {
    loop {
        match rng.below(10) {
            0..=2 => {
                w.next_a += 1;
                vis.push(w.next_a);
                touched.push(w.next_a);
                return ("create_stuff", vec![Value::Int(w.next_a), Value::Int(rng.below(50) as i64)]);
            }
            3..=5 if !vis.is_empty() => {
                let a = vis[rng.below(vis.len() as u64) as usize];
                if avoid.contains(&a) {
                    continue;
                }
                touched.push(a);
                return ("increment", vec![Value::Int(a), Value::Int(rng.below(9) as i64 - 3)]);
            }
            6..=8 => {
                w.next_k += 1;
                const TEXTS: &[&str] = &["", "a", "hello", "Zürich ✓", "0123456789abcdef0123456789abcdef", "note with spaces"];
                let n = *rng.pick(&[0usize, 1, 2, 31, 32, 33, 127, 128, 129, 300]);
                return ("set_note", vec![Value::Int(w.next_k), text(*rng.pick(TEXTS)), Value::Bytes(rng.bytes(n))]);
            }
            9 if allow_finalize => {
                w.next_n += 1;
                return ("set_epoch", vec![Value::Int(w.next_n)]);
            }
            _ => {}
        }
    }
}

#[derive(Default)]
struct GenState {
    next_a: i64,
    next_k: i64,
    next_n: i64,
}

/// Build the honest history and ship it.  `shape`: 0 = linear single author; 1 = A2 authors a
/// suffix of the line; 2 = concurrent branch by A2 + merge by A.
fn build_world(machine: &Machine, seed: u64, shape: u64, len: usize) -> Result<World, String> {
    let mut rng = Rng::new(seed);
    let krng = SeedRng::new(rng.next_u64());
    let devs = vec![new_dev(&krng), new_dev(&krng)];
    let mut a = new_rep(machine, rng.next_u64(), Some(&devs[0]));
    let mut a2 = new_rep(machine, rng.next_u64(), Some(&devs[1]));
    let name: Identifier = "init".parse().unwrap();
    let args = vec![
        Value::Int(rng.range(1, 1000) as i64),
        Value::Bytes(devs[0].ident_pk.clone()),
        Value::Bytes(devs[0].sign_pk.clone()),
    ];
    let graph = a
        .client
        .new_graph(&[0u8], VmAction { name, args: Cow::Owned(args) }, &mut a.sink)
        .map_err(|e| format!("new_graph: {}", err_name(&e)))?;
    a.action(graph, "add_device", vec![Value::Bytes(devs[1].ident_pk.clone()), Value::Bytes(devs[1].sign_pk.clone())])
        .map_err(|e| format!("add_device: {e}"))?;
    let mut gs = GenState::default();
    // `Stuff` keys each replica can see, and the keys each side touches while the two work
    // concurrently (shape 2)
    let (mut vis_a, mut vis_a2): (Vec<i64>, Vec<i64>) = (vec![], vec![]);
    let (mut touched_a, mut touched_a2): (Vec<i64>, Vec<i64>) = (vec![], vec![]);
    let pre = if shape == 0 { len } else { 1 + len / 2 };
    for _ in 0..pre {
        let (n, args) = gen_action(&mut rng, &mut gs, &mut vis_a, &[], &mut touched_a, true);
        a.action(graph, n, args).map_err(|e| format!("action {n}: {e}"))?;
    }
    if shape >= 1 {
        sync_session(&mut a2, &mut a, graph)?;
        vis_a2 = vis_a.clone();
        touched_a.clear();
        let n2 = 1 + rng.below(3) as usize;
        for _ in 0..n2 {
            let (n, args) = gen_action(&mut rng, &mut gs, &mut vis_a2, &[], &mut touched_a2, false);
            a2.action(graph, n, args).map_err(|e| format!("A2 action {n}: {e}"))?;
        }
        if shape == 2 {
            // concurrent work on A, then A learns A2's branch and acts on top (creates the merge)
            let n1 = 1 + rng.below(2) as usize;
            for _ in 0..n1 {
                let (n, args) = gen_action(&mut rng, &mut gs, &mut vis_a, &touched_a2, &mut touched_a, false);
                a.action(graph, n, args).map_err(|e| format!("action {n}: {e}"))?;
            }
        }
        sync_session(&mut a, &mut a2, graph)?;
        for k in &vis_a2 {
            if !vis_a.contains(k) {
                vis_a.push(*k);
            }
        }
        vis_a.sort();
        let rest = len.saturating_sub(pre).max(1);
        for _ in 0..rest {
            let (n, args) = gen_action(&mut rng, &mut gs, &mut vis_a, &[], &mut touched_a, true);
            a.action(graph, n, args).map_err(|e| format!("action {n} after sync: {e}"))?;
        }
    }
    let final_a = a.snap(graph);

    // ship everything to an empty replica through the real protocol; keep the wire
    let mut b0 = new_rep(machine, seed ^ 0xB0, None);
    let msgs = sync_session(&mut b0, &mut a, graph)?;
    let mut shipped: Vec<WCmd> = vec![];
    for m in &msgs {
        let (msg, cmds) = decode_message(m, true)?;
        // the mirror must be the real format: re-encoding reproduces the message byte for byte
        if let WResp::SyncResponse { session_id, response_index, .. } = &msg {
            let metas: Vec<WMeta> = cmds
                .iter()
                .map(|c| WMeta {
                    id: c.id,
                    priority: c.prio.clone(),
                    parent: c.parent,
                    policy_length: c.policy.as_ref().map(|p| p.len() as u32).unwrap_or(0),
                    length: c.data.len() as u32,
                })
                .collect();
            let mut again = postcard::to_allocvec(&WResp::SyncResponse {
                session_id: *session_id,
                response_index: *response_index,
                commands: metas,
            })
            .map_err(|e| format!("{e}"))?;
            for c in &cmds {
                if let Some(p) = &c.policy {
                    again.extend_from_slice(p);
                }
                again.extend_from_slice(&c.data);
            }
            if &again != m {
                return Err("wire mirror does not reproduce the real SyncResponse bytes".into());
            }
        }
        shipped.extend(cmds);
    }
    let b0s = b0.snap(graph);
    if b0s.heads != final_a.heads || b0s.facts != final_a.facts {
        return Err("honest full sync does not reproduce A's state".into());
    }

    // decode + ancestry
    let index_of: BTreeMap<CmdId, usize> = shipped.iter().enumerate().map(|(i, c)| (c.id, i)).collect();
    let mut cmds: Vec<Honest> = vec![];
    let mut registered_at = vec![None; devs.len()];
    for (i, w) in shipped.iter().enumerate() {
        let mut anc = vec![false; shipped.len()];
        anc[i] = true;
        let parents: Vec<CmdId> = match w.parent {
            Prior::None => vec![],
            Prior::Single(p) => vec![p.id],
            Prior::Merge(l, r) => vec![l.id, r.id],
        };
        for p in &parents {
            let j = *index_of.get(p).ok_or("shipped command with unknown parent")?;
            if j >= i {
                return Err("shipped commands are not parents-first".into());
            }
            for (k, b) in cmds[j].anc.iter().enumerate() {
                if *b {
                    anc[k] = true;
                }
            }
        }
        let signed = if matches!(w.parent, Prior::Merge(..)) {
            None
        } else {
            let d: VmProtocolData<'_> = postcard::from_bytes(&w.data).map_err(|e| format!("honest data: {e}"))?;
            let dev = devs.iter().position(|x| x.id == d.author_id).ok_or("unknown author")?;
            let parent_id = match w.parent {
                Prior::Single(p) => p.id,
                _ => CmdId::default(),
            };
            Some(Signed {
                author: d.author_id,
                dev,
                kind: d.kind.to_string(),
                fields: d.serialized_fields.to_vec(),
                sig: d.signature.to_vec(),
                parent_id,
            })
        };
        if let Some(s) = &signed {
            if s.kind == "Init" {
                registered_at[s.dev] = Some(i);
            }
            if s.kind == "AddDevice" {
                registered_at[1] = Some(i);
            }
        }
        cmds.push(Honest { w: w.clone(), signed, anc });
    }

    // honest per-prefix states on a fresh replica, one command per message
    let mut bh = new_rep(machine, seed ^ 0xB1, None);
    let mut prefix = vec![bh.snap(graph)];
    let mut panics = vec![];
    for (i, h) in cmds.iter().enumerate() {
        match bh.deliver(graph, &encode_message(&[h.w.clone()], 0), 0, &mut panics) {
            Outcome::Added(1) => {}
            o => return Err(format!("honest command {i} not accepted on its own: {o:?}")),
        }
        prefix.push(bh.snap(graph));
    }
    let last = prefix.last().unwrap();
    if last.heads != final_a.heads || last.facts != final_a.facts {
        return Err("honest one-by-one delivery does not reproduce A's state".into());
    }
    Ok(World { machine: machine.clone(), seed, devs, graph, cmds, prefix, final_a, registered_at })
}

// ------------------------------------------------------------------------------------ mutations

/// (class, detail, mutated command).  `detail` is free text for the report.
type Mutation = (String, String, WCmd);

fn flip(v: &mut [u8], at: usize, mask: u8) {
    if !v.is_empty() {
        let at = at % v.len();
        v[at] ^= mask;
    }
}

fn flip_id(id: CmdId, at: usize, mask: u8) -> CmdId {
    let mut b = *id.as_array();
    flip(&mut b, at, mask);
    CmdId::from_bytes(b)
}

fn flip_dev(id: DeviceId, at: usize, mask: u8) -> DeviceId {
    let mut b = *id.as_array();
    flip(&mut b, at, mask);
    DeviceId::from_bytes(b)
}

fn rebuild(author: DeviceId, kind: &str, fields: &[u8], sig: &[u8]) -> Option<Vec<u8>> {
    let kind: Identifier = kind.parse().ok()?;
    postcard::to_allocvec(&VmProtocolData { author_id: author, kind, serialized_fields: fields, signature: sig }).ok()
}

/// every mutation of command `i` (one class at a time); `all` = thorough set
fn mutations(w: &World, i: usize, rng: &mut Rng, all: bool) -> Vec<Mutation> {
    let h = &w.cmds[i];
    let c = &h.w;
    let mut out: Vec<Mutation> = vec![];
    let is_merge = h.signed.is_none();
    let mut push = |class: &str, detail: String, m: WCmd| {
        if m != *c {
            // every change of a merge command is its own class family (merge commands carry no
            // signature; see notes/C35.md)
            let class = if is_merge && !class.starts_with("merge-") { format!("merge:{class}") } else { class.to_string() };
            out.push((class, detail, m));
        }
    };
    let others: Vec<usize> = (0..w.cmds.len()).filter(|j| *j != i).collect();
    let other = |rng: &mut Rng| -> Option<usize> { if others.is_empty() { None } else { Some(*rng.pick(&others)) } };
    let earlier: Vec<usize> = (0..i).collect();

    // ---- command id
    for at in [0usize, 15, 31] {
        push("id-flip", format!("byte {at}"), WCmd { id: flip_id(c.id, at, 1 << rng.below(8)), ..c.clone() });
    }
    push("id-zero", "".into(), WCmd { id: CmdId::default(), ..c.clone() });
    push("id-random", "".into(), WCmd { id: CmdId::from_bytes(rng.bytes(32).try_into().unwrap()), ..c.clone() });
    if let Some(j) = other(rng) {
        push("id-of-other", format!("id of command {j}"), WCmd { id: w.cmds[j].w.id, ..c.clone() });
    }

    // ---- parent
    match c.parent {
        Prior::Single(p) => {
            for at in [0usize, 31] {
                push(
                    "parent-id-flip",
                    format!("byte {at}"),
                    WCmd { parent: Prior::Single(Address { id: flip_id(p.id, at, 1 << rng.below(8)), max_cut: p.max_cut }), ..c.clone() },
                );
            }
            // (values whose successor overflows u64 are left to C18: `Command::max_cut` turns
            // them into `Bug`, which panics in debug builds — see notes/C35.md)
            for (what, mc) in [
                ("+1", p.max_cut.get() + 1),
                ("-1", p.max_cut.get().saturating_sub(1)),
                ("0", 0),
                ("+1000", p.max_cut.get() + 1000),
                ("huge", 1u64 << 62),
            ] {
                push(
                    "parent-maxcut",
                    what.into(),
                    WCmd { parent: Prior::Single(Address { id: p.id, max_cut: MaxCut::new(mc) }), ..c.clone() },
                );
            }
            // replay under a different parent that B really holds
            for j in earlier.iter().copied().filter(|j| w.cmds[*j].w.id != p.id) {
                if all || rng.chance(1, 2) {
                    push("replay-other-parent", format!("parent := command {j}"), WCmd { parent: Prior::Single(w.cmds[j].w.address()), ..c.clone() });
                }
            }
            // parent id of another command but the honest max cut
            if let Some(j) = earlier.iter().copied().find(|j| w.cmds[*j].w.id != p.id) {
                push(
                    "parent-id-of-other",
                    format!("id of command {j}, honest max cut"),
                    WCmd { parent: Prior::Single(Address { id: w.cmds[j].w.id, max_cut: p.max_cut }), ..c.clone() },
                );
            }
            push("parent-removed", "Single -> None".into(), WCmd { parent: Prior::None, ..c.clone() });
            if let Some(j) = earlier.iter().copied().find(|j| w.cmds[*j].w.id != p.id) {
                push("parent-to-merge", format!("Single -> Merge(parent, command {j})"), WCmd { parent: Prior::Merge(p, w.cmds[j].w.address()), ..c.clone() });
            }
        }
        Prior::None => {
            push(
                "parent-added",
                "None -> Single(random)".into(),
                WCmd { parent: Prior::Single(Address { id: CmdId::from_bytes(rng.bytes(32).try_into().unwrap()), max_cut: MaxCut::new(0) }), ..c.clone() },
            );
            push("parent-added", "None -> Single(self)".into(), WCmd { parent: Prior::Single(Address { id: c.id, max_cut: MaxCut::new(0) }), ..c.clone() });
        }
        Prior::Merge(l, r) => {
            push("merge-swap-parents", "".into(), WCmd { parent: Prior::Merge(r, l), ..c.clone() });
            push("merge-parent-flip", "left".into(), WCmd { parent: Prior::Merge(Address { id: flip_id(l.id, 3, 4), max_cut: l.max_cut }, r), ..c.clone() });
            push("merge-to-single", "Merge -> Single(left)".into(), WCmd { parent: Prior::Single(l), ..c.clone() });
            if let Some(j) = earlier.iter().copied().find(|j| w.cmds[*j].w.id != l.id && w.cmds[*j].w.id != r.id) {
                push("merge-other-parent", format!("right := command {j}"), WCmd { parent: Prior::Merge(l, w.cmds[j].w.address()), ..c.clone() });
            }
            push("merge-data", "data := 1 byte".into(), WCmd { data: vec![0], ..c.clone() });
        }
    }

    // ---- priority
    let prios: Vec<Priority> = vec![
        Priority::Basic(0),
        Priority::Basic(1),
        Priority::Basic(3),
        Priority::Basic(u32::MAX),
        Priority::Finalize,
        Priority::Init,
        Priority::Merge,
    ];
    for p in prios {
        if p != c.prio {
            push("priority", format!("{:?} -> {:?}", c.prio, p), WCmd { prio: p, ..c.clone() });
        }
    }

    // ---- policy field (not covered by the property: recorded separately)
    match &c.policy {
        Some(p) => {
            let mut q = p.clone();
            flip(&mut q, 0, 1);
            push("policy-field", "byte 0 flipped".into(), WCmd { policy: Some(q), ..c.clone() });
        }
        None => push("policy-field", "None -> Some(8 bytes)".into(), WCmd { policy: Some(vec![0, 0, 0, 0, 0, 0, 0, 0]), ..c.clone() }),
    }

    // ---- inside the data (signed commands only)
    if let Some(s) = &h.signed {
        let with = |a: DeviceId, k: &str, f: &[u8], g: &[u8]| -> Option<WCmd> { rebuild(a, k, f, g).map(|d| WCmd { data: d, ..c.clone() }) };
        // author
        for at in [0usize, 31] {
            if let Some(m) = with(flip_dev(s.author, at, 1 << rng.below(8)), &s.kind, &s.fields, &s.sig) {
                push("author-flip", format!("byte {at}"), m);
            }
        }
        for (n, d) in w.devs.iter().enumerate() {
            if d.id != s.author {
                if let Some(m) = with(d.id, &s.kind, &s.fields, &s.sig) {
                    push("author-other-device", format!("device {n}"), m);
                }
            }
        }
        if let Some(m) = with(DeviceId::from_bytes(rng.bytes(32).try_into().unwrap()), &s.kind, &s.fields, &s.sig) {
            push("author-random", "".into(), m);
        }
        // command name
        for k in ["Init", "AddDevice", "Create", "Increment", "SetNote", "SetEpoch"] {
            if k != s.kind && (all || rng.chance(1, 2) || (k == "Create" || k == "Increment")) {
                if let Some(m) = with(s.author, k, &s.fields, &s.sig) {
                    push("kind-other", format!("{} -> {k}", s.kind), m);
                }
                // … and with the priority that the other name requires, so that the priority
                // check cannot be what stops it
                if let Some(mut m) = with(s.author, k, &s.fields, &s.sig) {
                    m.prio = match def_prio(k) {
                        Some("init") => Priority::Init,
                        Some("fin") => Priority::Finalize,
                        Some("b3") => Priority::Basic(3),
                        _ => Priority::Basic(0),
                    };
                    push("kind-other+priority", format!("{} -> {k}", s.kind), m);
                }
            }
        }
        let lower = s.kind.to_lowercase();
        for k in [lower.as_str(), "Unknown", "create", "X"] {
            if let Some(m) = with(s.author, k, &s.fields, &s.sig) {
                push("kind-unknown", format!("{} -> {k}", s.kind), m);
            }
        }
        // payload
        let n = s.fields.len();
        let mut offs = vec![0usize, 1, n / 2, n.saturating_sub(2), n.saturating_sub(1)];
        // field boundaries: positions of length prefixes are not known to the harness; take a
        // spread of offsets instead
        for k in 1..8 {
            offs.push(n * k / 8);
        }
        if all {
            for _ in 0..8 {
                offs.push(rng.below(n.max(1) as u64) as usize);
            }
        }
        offs.sort();
        offs.dedup();
        for at in offs {
            if at < n {
                let mut f = s.fields.clone();
                flip(&mut f, at, 1 << rng.below(8));
                if let Some(m) = with(s.author, &s.kind, &f, &s.sig) {
                    push("payload-flip", format!("byte {at}/{n}"), m);
                }
            }
        }
        if n > 0 {
            if let Some(m) = with(s.author, &s.kind, &s.fields[..n - 1], &s.sig) {
                push("payload-truncate", "".into(), m);
            }
        }
        let mut f = s.fields.clone();
        f.push(0);
        if let Some(m) = with(s.author, &s.kind, &f, &s.sig) {
            push("payload-extend", "+1 byte".into(), m);
        }
        if let Some(m) = with(s.author, &s.kind, &[], &s.sig) {
            push("payload-empty", "".into(), m);
        }
        // signature
        let ns = s.sig.len();
        for at in [0usize, 31, 32, 63] {
            if at < ns {
                let mut g = s.sig.clone();
                flip(&mut g, at, 1 << rng.below(8));
                if let Some(m) = with(s.author, &s.kind, &s.fields, &g) {
                    push("sig-flip", format!("byte {at}"), m);
                }
            }
        }
        if let Some(m) = with(s.author, &s.kind, &s.fields, &s.sig[..ns.saturating_sub(1)]) {
            push("sig-truncate", "".into(), m);
        }
        let mut g = s.sig.clone();
        g.push(0);
        if let Some(m) = with(s.author, &s.kind, &s.fields, &g) {
            push("sig-extend", "".into(), m);
        }
        if let Some(m) = with(s.author, &s.kind, &s.fields, &vec![0u8; ns]) {
            push("sig-zero", "".into(), m);
        }
        if let Some(m) = with(s.author, &s.kind, &s.fields, &[]) {
            push("sig-empty", "".into(), m);
        }
        // swaps between two honest commands
        let signed_others: Vec<usize> = others.iter().copied().filter(|j| w.cmds[*j].signed.is_some()).collect();
        let picks: Vec<usize> = if all { signed_others.clone() } else { signed_others.iter().copied().filter(|_| rng.chance(1, 3)).take(3).collect() };
        for j in picks {
            let o = w.cmds[j].signed.as_ref().unwrap();
            if let Some(m) = with(s.author, &s.kind, &s.fields, &o.sig) {
                push("swap-sig", format!("signature of command {j}"), m);
            }
            if let Some(m) = with(s.author, &s.kind, &o.fields, &s.sig) {
                push("swap-payload", format!("payload of command {j}"), m);
            }
            if let Some(mut m) = with(s.author, &s.kind, &s.fields, &o.sig) {
                m.id = w.cmds[j].w.id;
                push("swap-sig+id", format!("signature and id of command {j}"), m);
            }
            // the whole signed data of j under i's id and parent
            push("swap-data", format!("data of command {j}"), WCmd { data: w.cmds[j].w.data.clone(), ..c.clone() });
            // j's data AND id under i's parent (= replay of j at i's position)
            push(
                "replay-at-position",
                format!("command {j} with the parent of command {i}"),
                WCmd { data: w.cmds[j].w.data.clone(), id: w.cmds[j].w.id, prio: w.cmds[j].w.prio.clone(), ..c.clone() },
            );
        }
        // raw byte flips anywhere in the serialized data (length prefixes, field boundaries)
        let nd = c.data.len();
        let mut raw = vec![0usize, 31, 32, 33, 34, 35, nd.saturating_sub(66), nd.saturating_sub(65), nd.saturating_sub(64), nd.saturating_sub(1)];
        let klen = s.kind.len();
        raw.extend([32 + klen, 33 + klen, 34 + klen, 35 + klen]);
        for _ in 0..(if all { 12 } else { 4 }) {
            raw.push(rng.below(nd.max(1) as u64) as usize);
        }
        raw.sort();
        raw.dedup();
        for at in raw {
            if at < nd {
                let mut d = c.data.clone();
                flip(&mut d, at, 1 << rng.below(8));
                push("data-raw-flip", format!("byte {at}/{nd}"), WCmd { data: d, ..c.clone() });
            }
        }
        let mut d = c.data.clone();
        d.pop();
        push("data-truncate", "".into(), WCmd { data: d, ..c.clone() });
        let mut d = c.data.clone();
        d.push(0x41);
        push("data-trailing", "+1 byte after the encoded data".into(), WCmd { data: d, ..c.clone() });
        push("data-empty", "".into(), WCmd { data: vec![], ..c.clone() });
    } else {
        // merge command: its id
        push("merge-id-flip", "".into(), WCmd { id: flip_id(c.id, 7, 2), ..c.clone() });
    }
    out
}

// ------------------------------------------------------------------------------------ symbolic description

fn prio_tok(p: &Priority) -> String {
    match p {
        Priority::Init => "init".into(),
        Priority::Finalize => "fin".into(),
        Priority::Merge => "merge".into(),
        Priority::Basic(n) => format!("b{n}"),
    }
}

fn tokb(b: &[u8]) -> String {
    format!("b{}", hex(b))
}

impl World {
    fn id_tok(&self, id: &CmdId) -> String {
        if *id == CmdId::default() {
            return "z".into();
        }
        match self.cmds.iter().position(|h| h.w.id == *id && h.signed.is_some()) {
            Some(j) => format!("i{j}"),
            None => tokb(id.as_bytes()),
        }
    }
    fn sig_tok(&self, sig: &[u8]) -> String {
        match self.cmds.iter().position(|h| h.signed.as_ref().is_some_and(|s| s.sig == sig)) {
            Some(j) => format!("s{j}"),
            None => tokb(sig),
        }
    }
    fn dev_tok(&self, d: &DeviceId) -> String {
        match self.devs.iter().position(|x| x.id == *d) {
            Some(n) => format!("d{n}"),
            None => tokb(d.as_bytes()),
        }
    }
    fn key_tok(&self, pk: &[u8]) -> String {
        match self.devs.iter().position(|x| x.sign_pk == pk) {
            Some(n) => format!("k{n}"),
            None => tokb(pk),
        }
    }

    /// The key the policy's `open` block verifies against, from what the harness knows about the
    /// policy: `Init` certifies itself (author must be the device named by its identity key, the
    /// key is the signing key it carries); every other command uses the signing key registered
    /// for the claimed author in the state of the parent.  `-` = the struct does not decode.
    fn key_for(&self, kind: &str, author: &DeviceId, fields: &[u8], parent: Option<usize>) -> String {
        let Ok(name) = kind.parse::<Identifier>() else { return "-".into() };
        if def_prio(kind).is_none() {
            return "-".into();
        }
        let Ok(st) = self.machine.deserialize_struct(name, fields) else { return "-".into() };
        if kind == "Init" {
            let get = |f: &str| -> Option<Vec<u8>> {
                let id: Identifier = f.parse().ok()?;
                match st.fields.get(&id) {
                    Some(Value::Bytes(b)) => Some(b.clone()),
                    _ => None,
                }
            };
            let (Some(ident), Some(sign)) = (get("ident_pk"), get("sign_pk")) else { return "-".into() };
            let derived: Option<DeviceId> = postcard::from_bytes::<aranya_crypto::IdentityVerifyingKey<CS>>(&ident).ok().and_then(|k| k.id().ok());
            return match derived {
                Some(d) if d == *author => self.key_tok(&sign),
                Some(_) => "none".into(),
                None => "-".into(),
            };
        }
        let Some(n) = self.devs.iter().position(|x| x.id == *author) else { return "none".into() };
        match (self.registered_at[n], parent) {
            (Some(r), Some(p)) if self.cmds[p].anc[r] => format!("k{n}"),
            _ => "none".into(),
        }
    }
}

/// What the S-level oracle needs to know about a delivered command, derived by the harness's own
/// reading of the wire (independent of `call_rule`).
struct Described {
    /// the `recv` request for the model
    req: String,
    /// oracle: this delivery must be accepted (it is an honest signing event at its honest
    /// position / an honest merge)
    authentic: bool,
    /// B already holds a command with this exact address
    dup: bool,
}

fn describe(w: &World, have: &[bool], store: bool, m: &WCmd, tag: &str) -> Described {
    let held = |a: &Address| -> Option<usize> {
        w.cmds.iter().position(|h| h.w.id == a.id).filter(|j| have[*j] && w.cmds[*j].w.address() == *a)
    };
    let dup = held(&m.address()).is_some();
    let st = if !store { "new" } else if dup { "dup" } else { "old" };
    let gid = if m.id.as_bytes() == w.graph.as_bytes() { 1 } else { 0 };
    let (par, parent_idx) = match m.parent {
        Prior::None => ("n".to_string(), None),
        Prior::Single(p) => {
            let j = held(&p);
            (format!("s:{}:{}", w.id_tok(&p.id), j.is_some() as u8), j)
        }
        Prior::Merge(l, r) => (format!("m:{}:{}", held(&l).is_some() as u8, held(&r).is_some() as u8), None),
    };
    let pol = m.policy.is_some() as u8;
    let mut authentic = false;
    let data = match postcard::from_bytes::<VmProtocolData<'_>>(&m.data) {
        Err(_) => "u".to_string(),
        Ok(d) => {
            let kind = d.kind.to_string();
            let key = w.key_for(&kind, &d.author_id, d.serialized_fields, parent_idx);
            // oracle: an honest signing event, at its honest parent, under the honest id
            if let Some(j) = w.cmds.iter().position(|h| h.w.id == m.id && h.signed.is_some()) {
                let s = w.cmds[j].signed.as_ref().unwrap();
                let parent_ok = match (m.parent, w.cmds[j].w.parent) {
                    (Prior::None, Prior::None) => true,
                    (Prior::Single(a), Prior::Single(b)) => a == b && parent_idx.is_some(),
                    _ => false,
                };
                authentic = parent_ok
                    && s.author == d.author_id
                    && s.kind == kind
                    && s.fields == d.serialized_fields
                    && s.sig == d.signature
                    && m.prio == w.cmds[j].w.prio
                    && (store || m.policy.is_some());
            }
            format!("{},{},{},{},{}", w.dev_tok(&d.author_id), tokb(kind.as_bytes()), tokb(d.serialized_fields), w.sig_tok(d.signature), key)
        }
    };
    if let Prior::Merge(l, r) = m.parent {
        // honest merge: same id and parents as the shipped one
        authentic = w.cmds.iter().any(|h| h.signed.is_none() && h.w.id == m.id && h.w.parent == m.parent && h.w.prio == m.prio && h.w.data == m.data)
            && held(&l).is_some()
            && held(&r).is_some();
    }
    let req = format!("recv {tag} {st} g{gid} p{pol} {} {par} {} {data}", w.id_tok(&m.id), prio_tok(&m.prio));
    Described { req, authentic: authentic && !dup, dup }
}

// ------------------------------------------------------------------------------------ one experiment

fn outcome_line(o: &Outcome) -> String {
    match o {
        Outcome::Added(1) => "accept".into(),
        Outcome::Added(0) => "dup".into(),
        Outcome::Added(n) => format!("added{n}"),
        Outcome::Err(e) if e == "NoSuchParent" => "noparent".into(),
        Outcome::Err(e) if e == "InitError" => "initerr".into(),
        Outcome::Err(_) => "reject".into(),
        Outcome::Wire(_) => "wire".into(),
    }
}

/// replica holding exactly the honest commands `0..i`
fn prefix_replica(w: &World, i: usize, salt: u64) -> Rep {
    let mut b = new_rep(&w.machine, w.seed ^ 0xBB00 ^ salt, None);
    let mut panics = vec![];
    if i > 0 {
        let cmds: Vec<WCmd> = w.cmds[..i].iter().map(|h| h.w.clone()).collect();
        for (k, chunk) in cmds.chunks(40).enumerate() {
            let _ = b.deliver(w.graph, &encode_message(chunk, 0), k as u64, &mut panics);
        }
    }
    b
}

struct Ctx<'a> {
    rec: &'a mut Recorder,
    w: &'a World,
    /// first request line of the case (rebuilds the honest world on replay)
    case_line: String,
    /// the `recv <i>.<n> …` line of the delivery being judged (selects it on replay)
    cur: String,
    merge_family_seen: &'a mut std::collections::BTreeSet<String>,
}

impl Ctx<'_> {
    /// oracle failure with the minimal replayable input: the case line + the delivery's line
    fn fail(&mut self, what: String) {
        // The unauthenticated-merge family (finding F-b, notes/C35.md) fails for every command of
        // every case: report each kind of failure of that family once per run and count the
        // rest, so that the bounded failure list of stats.json can never hide another failure.
        if what.contains("field class parent-to-merge") || what.contains("field class merge:") || what.contains("field class merge-") {
            let kind: String = what.split_whitespace().next().unwrap_or("").to_string();
            self.rec.count(&format!("merge-family-failure:{kind}"));
            if !self.merge_family_seen.insert(kind) {
                return;
            }
        }
        let input = vec![self.case_line.clone(), self.cur.clone()];
        self.rec.oracle_fail_with(what, input);
    }
}

/// Deliver the mutated command `m` (a mutation of command `i`) alone to `b`, which holds the
/// honest prefix `0..i`.  Returns true when `b` is still in the honest prefix state.
fn experiment(cx: &mut Ctx<'_>, b: &mut Rep, i: usize, n: usize, class: &str, detail: &str, m: &WCmd) -> bool {
    let w = cx.w;
    let have: Vec<bool> = (0..w.cmds.len()).map(|j| j < i).collect();
    let d = describe(w, &have, i > 0, m, &format!("{i}.{n}"));
    cx.cur = d.req.clone();
    let wire = encode_message(&[m.clone()], 0);
    let before = b.snap(w.graph);
    let fx_before = b.sink.committed.len();
    let np = cx.rec.panics.len();
    let out = b.deliver(w.graph, &wire, 0, &mut cx.rec.panics);
    for p in cx.rec.panics[np..].iter_mut() {
        *p = format!("command {i}, field class {class} [{detail}]: {p}");
    }
    let after = b.snap(w.graph);
    let line = outcome_line(&out);
    cx.rec.line(d.req.clone(), line.clone());
    cx.rec.count(&format!("class:{class}"));
    cx.rec.count(&format!("outcome:{class}:{}", match &out {
        Outcome::Added(n) => format!("added{n}"),
        Outcome::Err(e) => e.clone(),
        Outcome::Wire(e) => format!("wire:{e}"),
    }));
    let accepted = matches!(out, Outcome::Added(n) if n > 0);
    let what = format!("command {i} ({}), field class {class} [{detail}]", w.cmds[i].signed.as_ref().map(|s| s.kind.as_str()).unwrap_or("merge"));
    if cx.rec.panics.len() > np {
        let msg = cx.rec.panics[np].clone();
        cx.fail(format!("PANIC in the real code while receiving {what}: {}", &msg[..msg.len().min(400)]));
    }
    let unsigned_field = class.ends_with("policy-field") || class == "data-trailing";
    if accepted && !d.authentic {
        cx.fail(format!(
            "ACCEPTED a command changed in transit: {what}; outcome {out:?}; request `{}`; wire {}",
            d.req,
            hex(&wire)
        ));
        return false;
    }
    if accepted {
        // authentic by the oracle's own reading: only fields outside the signed tuple changed
        if unsigned_field {
            cx.rec.count(&format!("unsigned-field-accepted:{class}"));
        } else {
            cx.rec.count(&format!("authentic-variant-accepted:{class}"));
        }
        return false;
    }
    if d.authentic && !accepted {
        cx.fail(format!("REJECTED an authentic command: {what}; outcome {out:?}; request `{}`", d.req));
    }
    // not accepted: no trace.  Effects: nothing committed after the delivery may belong to the
    // delivered id (effects of commands the replica already holds may be re-emitted by the
    // braid a multi-head commit runs)
    let new_fx: Vec<&VmEffect> = b.sink.committed[fx_before..].iter().collect();
    let foreign: Vec<String> = new_fx
        .iter()
        .filter(|e| !w.cmds[..i].iter().any(|h| h.w.id == e.command))
        .map(|e| show_effect(e))
        .collect();
    if !foreign.is_empty() {
        cx.fail(format!(
            "a command that was NOT accepted produced committed effects: {what}; outcome {out:?}; effects {foreign:?}; wire {}",
            hex(&wire)
        ));
        return false;
    }
    if !new_fx.is_empty() {
        cx.rec.count("re-emitted-effects-of-held-commands");
    }
    if before != after {
        cx.fail(format!(
            "a command that was NOT accepted changed the replica: {what}; outcome {out:?}; heads {:?} -> {:?}; facts {} -> {}; wire {}",
            before.heads.iter().map(|h| hex(h.as_bytes())[..8].to_string()).collect::<Vec<_>>(),
            after.heads.iter().map(|h| hex(h.as_bytes())[..8].to_string()).collect::<Vec<_>>(),
            before.facts.len(),
            after.facts.len(),
            hex(&wire)
        ));
        return false;
    }
    if !d.dup && b.exists(w.graph, m.address()) {
        cx.fail(format!("a command that was NOT accepted is locatable afterwards (command_exists): {what}; wire {}", hex(&wire)));
        return false;
    }
    true
}

/// after a rejected delivery: the honest remainder `i..` must be accepted and end in A's state
fn finish_honestly(cx: &mut Ctx<'_>, b: &mut Rep, i: usize, what: &str) {
    let w = cx.w;
    let rest: Vec<WCmd> = w.cmds[i..].iter().map(|h| h.w.clone()).collect();
    let mut added = 0usize;
    for chunk in rest.chunks(40) {
        match b.deliver(w.graph, &encode_message(chunk, 0), 0, &mut cx.rec.panics) {
            Outcome::Added(n) => added += n,
            o => {
                cx.fail(format!("after {what}: the honest remainder was not accepted: {o:?}"));
                return;
            }
        }
    }
    let s = b.snap(w.graph);
    if added != rest.len() || s.heads != w.final_a.heads || s.facts != w.final_a.facts {
        cx.fail(format!(
            "after {what}: delivering the honest remainder does not reach A's state (added {added}/{}; heads equal: {}; facts equal: {})",
            rest.len(),
            s.heads == w.final_a.heads,
            s.facts == w.final_a.facts
        ));
    }
}

/// batch variant: honest `k..i`, the mutated command, honest `i+1..` in ONE `add_commands` call
fn batch_experiment(cx: &mut Ctx<'_>, i: usize, k: usize, class: &str, detail: &str, m: &WCmd) {
    let w = cx.w;
    let mut b = prefix_replica(w, k, 0x77);
    let mut batch: Vec<WCmd> = w.cmds[k..i].iter().map(|h| h.w.clone()).collect();
    batch.push(m.clone());
    batch.extend(w.cmds[i + 1..].iter().map(|h| h.w.clone()));
    if batch.len() > 90 {
        return;
    }
    let have: Vec<bool> = (0..w.cmds.len()).map(|j| j < i).collect();
    let d = describe(w, &have, i > 0, m, "-");
    let wire = encode_message(&batch, 0);
    let np = cx.rec.panics.len();
    let out = b.deliver(w.graph, &wire, 0, &mut cx.rec.panics);
    for p in cx.rec.panics[np..].iter_mut() {
        *p = format!("batch with command {i}, field class {class} [{detail}]: {p}");
    }
    cx.rec.count("batch");
    let after = b.snap(w.graph);
    let what = format!("batch [{k}..{i}) + command {i}, field class {class} [{detail}] + rest");
    // `add_commands` skips a command whose ID is already in the perspective in flight (a
    // duplicate by id, whatever its other fields): when the changed command carries the id of an
    // honest command earlier in this batch it is skipped and the rest of the batch goes on (up to
    // the first child of the missing honest command).  Then: the changed command itself must not
    // be locatable, and the honest remainder must still bring the replica to A's state.
    let id_earlier = w.cmds[k..i].iter().any(|h| h.w.id == m.id);
    if id_earlier && !d.authentic {
        cx.rec.count("batch:changed-command-skipped-as-duplicate-id");
        let honest_addr = w.cmds.iter().any(|h| h.w.address() == m.address());
        if !honest_addr && b.exists(w.graph, m.address()) {
            cx.fail(format!("{what}: the changed command (id of an earlier command of the batch) is locatable afterwards; wire {}", hex(&wire)));
            return;
        }
        let rest: Vec<WCmd> = w.cmds[i..].iter().map(|h| h.w.clone()).collect();
        for chunk in rest.chunks(40) {
            if let Outcome::Added(_) = b.deliver(w.graph, &encode_message(chunk, 0), 0, &mut cx.rec.panics) {
            } else {
                cx.fail(format!("{what}: the honest remainder was not accepted afterwards; wire {}", hex(&wire)));
                return;
            }
        }
        let s = b.snap(w.graph);
        if s.heads != w.final_a.heads || s.facts != w.final_a.facts {
            cx.fail(format!("{what}: the honest remainder does not reach A's state afterwards; wire {}", hex(&wire)));
        }
        return;
    }
    match out {
        Outcome::Added(n) if d.authentic || d.dup => {
            let _ = n;
        }
        Outcome::Added(n) => {
            cx.fail(format!("{what}: add_commands returned Ok({n}) although the batch contains a changed command; wire {}", hex(&wire)));
            return;
        }
        _ => {}
    }
    if !(d.authentic || d.dup) {
        // exactly the honest commands before the changed one are in
        let want = &w.prefix[i];
        if after.heads != want.heads || after.facts != want.facts {
            cx.fail(format!(
                "{what}: after the rejected batch the replica is not in the state of the honest prefix (heads equal: {}; facts equal: {}); wire {}",
                after.heads == want.heads,
                after.facts == want.facts,
                hex(&wire)
            ));
            return;
        }
        if b.exists(w.graph, m.address()) && !d.dup {
            cx.fail(format!("{what}: the changed command is locatable after the batch"));
            return;
        }
        finish_honestly(cx, &mut b, i, &what);
    }
}

// ------------------------------------------------------------------------------------ cases

/// request lines that rebuild a case: `case <seed> <shape> <len>` then `def`/`seal` lines, then
/// `recv <i>.<n> …` lines (the n-th change of command i; the tag selects it on replay)
fn run_case(rec: &mut Recorder, machine: &Machine, seed: u64, shape: u64, len: usize, all: bool, only: Option<&[(usize, usize)]>, seen: &mut std::collections::BTreeSet<String>) {
    rec.begin_case();
    rec.line(format!("case {seed} {shape} {len} {}", all as u8), "ok");
    let w = match vh::catch(AssertUnwindSafe(|| build_world(machine, seed, shape, len))) {
        Ok(Ok(w)) => w,
        Ok(Err(e)) => {
            rec.count("world-build-failed");
            rec.notes.push(format!("case {seed}/{shape}/{len}: honest world not built: {e}"));
            rec.oracle_fail(format!("honest history could not be built or shipped: {e}"));
            return;
        }
        Err(p) => {
            rec.panics.push(format!("building the honest world panicked: {p}"));
            return;
        }
    };
    rec.count(&format!("shape:{shape}"));
    rec.count_n("honest-commands", w.cmds.len() as u64);
    for (k, p) in DEFS {
        rec.line(format!("def {} {p}", tokb(k.as_bytes())), "ok");
    }
    // honest signing events: the shipped (signature, id) must be what `sign_cmd` derives from
    // (author key, name, parent id, payload) — the seal side of the model
    for (j, h) in w.cmds.iter().enumerate() {
        match &h.signed {
            Some(s) => {
                rec.count(&format!("kind:{}", s.kind));
                let parent = CryptoCmdId::from_bytes(*s.parent_id.as_array());
                let r = w.devs[s.dev].sk.sign_cmd(Cmd { data: &s.fields, name: &s.kind, parent_id: &parent });
                let ok = match r {
                    Ok((sig, id)) => {
                        use core::borrow::Borrow as _;
                        let sb: Vec<u8> = sig.to_bytes().borrow().to_vec();
                        sb == s.sig && id.as_bytes() == h.w.id.as_bytes()
                    }
                    Err(_) => false,
                };
                let req = format!("seal {j} k{} d{} {} {} {}", s.dev, s.dev, tokb(s.kind.as_bytes()), w.id_tok(&s.parent_id), tokb(&s.fields));
                rec.line(req, if ok { format!("ok {j}") } else { "mismatch".into() });
                if !ok {
                    rec.oracle_fail(format!(
                        "honest command {j} ({}) does not carry the signature/id that sign_cmd derives from (author key, name, parent id, payload)",
                        s.kind
                    ));
                }
            }
            None => {
                rec.count("kind:merge");
                rec.line(format!("merge {j}"), "ok");
            }
        }
    }
    rec.nontrivial(fnv(&format!("{seed}/{shape}/{len}/{}", w.cmds.len())));
    if rec.samples.len() < 3 {
        rec.sample(format!(
            "case seed={seed} shape={shape}: {} honest commands [{}]",
            w.cmds.len(),
            w.cmds.iter().map(|h| h.signed.as_ref().map(|s| format!("{}@d{}", s.kind, s.dev)).unwrap_or("merge".into())).collect::<Vec<_>>().join(" ")
        ));
    }

    let mut cx = Ctx { rec, w: &w, case_line: format!("case {seed} {shape} {len} {}", all as u8), cur: String::new(), merge_family_seen: seen };
    for i in 0..w.cmds.len() {
        let mut mrng = Rng::new(seed ^ (i as u64).wrapping_mul(0x9E37_79B9));
        let muts = mutations(&w, i, &mut mrng, all);
        let mut b = prefix_replica(&w, i, i as u64);
        // the unmutated command on a replica of its own: accepted
        if only.is_none() {
            let mut bh = prefix_replica(&w, i, 0x1000 + i as u64);
            let honest = w.cmds[i].w.clone();
            let have: Vec<bool> = (0..w.cmds.len()).map(|j| j < i).collect();
            let d = describe(&w, &have, i > 0, &honest, "h");
            let out = bh.deliver(w.graph, &encode_message(&[honest.clone()], 0), 0, &mut cx.rec.panics);
            cx.rec.line(d.req.clone(), outcome_line(&out));
            cx.rec.count("class:honest");
            if out != Outcome::Added(1) || !d.authentic {
                cx.rec.oracle_fail(format!("honest command {i} not accepted (or not recognised as authentic by the oracle): {out:?} `{}`", d.req));
            }
            let s = bh.snap(w.graph);
            if s.heads != w.prefix[i + 1].heads || s.facts != w.prefix[i + 1].facts {
                cx.rec.oracle_fail(format!("honest command {i}: state differs from the honest prefix state"));
            }
            // replaying it is a duplicate: Ok(0), nothing changes
            let d2 = describe(&w, &(0..w.cmds.len()).map(|j| j <= i).collect::<Vec<_>>(), true, &honest, "h");
            let out2 = bh.deliver(w.graph, &encode_message(&[honest], 0), 0, &mut cx.rec.panics);
            cx.rec.line(d2.req.clone(), outcome_line(&out2));
            cx.rec.count("class:honest-replayed");
            if out2 != Outcome::Added(0) || bh.snap(w.graph) != s {
                cx.rec.oracle_fail(format!("replaying honest command {i} is not a no-op: {out2:?}"));
            }
        }
        for (n, (class, detail, m)) in muts.iter().enumerate() {
            if let Some(sel) = only {
                if !sel.contains(&(i, n)) {
                    continue;
                }
            }
            let clean = experiment(&mut cx, &mut b, i, n, class, detail, m);
            // which deliveries are followed up / repeated inside a batch is a function of
            // (seed, i, n) only, so that a replay of selected lines behaves identically
            let pick = fnv(&format!("{seed}/{i}/{n}"));
            if !clean {
                b = prefix_replica(&w, i, (i as u64) << 8 | n as u64);
            } else if pick % 12 == 0 {
                // the replica that rejected it goes on to accept the honest remainder
                let what = format!("rejecting command {i} {class} [{detail}]");
                finish_honestly(&mut cx, &mut b, i, &what);
                b = prefix_replica(&w, i, (i as u64) << 8 | n as u64 | 0x4000);
            }
            if i > 0 && (pick >> 8) % (if all { 6 } else { 12 }) == 0 {
                let k = ((pick >> 20) % (i as u64 + 1)) as usize;
                batch_experiment(&mut cx, i, k, class, detail, m);
            }
        }
        // the parent is the head of the perspective in flight (previous command of the same
        // batch) and only its max cut is wrong: the id matches, the signature verifies, the rule
        // runs — and the command still must not leave anything behind
        if let Prior::Single(p) = w.cmds[i].w.parent {
            if i >= 1 && w.cmds[i - 1].w.id == p.id {
                for (n, delta) in [(9001usize, 1u64), (9002, 1000)] {
                    if only.is_some_and(|sel| !sel.contains(&(i, n))) {
                        continue;
                    }
                    let m = WCmd { parent: Prior::Single(Address { id: p.id, max_cut: MaxCut::new(p.max_cut.get() + delta) }), ..w.cmds[i].w.clone() };
                    let have: Vec<bool> = (0..w.cmds.len()).map(|j| j < i).collect();
                    cx.cur = describe(&w, &have, true, &m, &format!("{i}.{n}")).req;
                    cx.rec.count("class:inflight-parent-maxcut");
                    batch_experiment(&mut cx, i, i - 1, "inflight-parent-maxcut", &format!("+{delta}"), &m);
                }
            }
        }
    }
}

fn malformed_stream(rec: &mut Recorder, machine: &Machine, seed: u64) {
    // malformed wire: random bytes and truncated real messages handed to the real requester +
    // add_commands on a replica holding an honest prefix — nothing may be accepted or changed
    rec.begin_case();
    rec.line(format!("case {seed} 9 3 0"), "ok");
    let w = match build_world(machine, seed, 0, 3) {
        Ok(w) => w,
        Err(e) => {
            rec.oracle_fail(format!("honest history could not be built: {e}"));
            return;
        }
    };
    for (k, p) in DEFS {
        rec.line(format!("def {} {p}", tokb(k.as_bytes())), "ok");
    }
    let mut rng = Rng::new(seed ^ 0xFEED);
    let i = w.cmds.len() - 1;
    let mut b = prefix_replica(&w, i, 0x99);
    let before = b.snap(w.graph);
    let good = encode_message(&[w.cmds[i].w.clone()], 0);
    for t in 0..40 {
        let mut wire = good.clone();
        match t % 4 {
            0 => wire.truncate(rng.below(good.len() as u64) as usize),
            1 => {
                let n = rng.below(200) as usize;
                wire = rng.bytes(n);
            }
            2 => {
                // a lying length field: flip a byte in the message header region
                let at = rng.below(24.min(good.len() as u64)) as usize;
                wire[at] ^= 1 << rng.below(8);
            }
            _ => {
                let n = 1 + rng.below(8) as usize;
                wire.extend(rng.bytes(n));
            }
        }
        let out = b.deliver(w.graph, &wire, 0, &mut rec.panics);
        rec.count(&format!("malformed:{}", match &out {
            Outcome::Wire(_) => "wire-error".to_string(),
            o => outcome_line(o),
        }));
        let accepted = matches!(out, Outcome::Added(n) if n > 0);
        if accepted {
            // only acceptable if what the requester parsed IS the honest command
            let parsed_ok = decode_message(&wire, false).map(|(_, c)| c.len() == 1 && c[0] == w.cmds[i].w).unwrap_or(false);
            if !parsed_ok {
                rec.oracle_fail(format!("malformed wire message accepted: {}", hex(&wire)));
            }
            b = prefix_replica(&w, i, 0x99 + t as u64);
        } else if b.snap(w.graph) != before {
            rec.oracle_fail(format!("malformed wire message changed the replica: {}", hex(&wire)));
            b = prefix_replica(&w, i, 0x99 + t as u64);
        }
    }
}

fn main() {
    let args = Args::parse();
    let machine = compile_machine();
    vh::quiet_panics();
    let mut rec = Recorder::new(&args.out);

    if let Some(path) = &args.replay {
        // request lines of one case: `case seed shape len all`, then `recv i.n …` selectors
        let lines = vh::read_replay_input(path);
        let mut cur: Option<(u64, u64, usize, bool)> = None;
        let mut sel: Vec<(usize, usize)> = vec![];
        let mut flush = |cur: &Option<(u64, u64, usize, bool)>, sel: &Vec<(usize, usize)>, rec: &mut Recorder| {
            if let Some((seed, shape, len, all)) = cur {
                if *shape == 9 {
                    malformed_stream(rec, &machine, *seed);
                } else if sel.is_empty() {
                    run_case(rec, &machine, *seed, *shape, *len, *all, None, &mut std::collections::BTreeSet::new());
                } else {
                    run_case(rec, &machine, *seed, *shape, *len, *all, Some(sel), &mut std::collections::BTreeSet::new());
                }
            }
        };
        for l in &lines {
            let t: Vec<&str> = l.split_whitespace().collect();
            match t.as_slice() {
                ["case", seed, shape, len, all] => {
                    flush(&cur, &sel, &mut rec);
                    sel.clear();
                    cur = Some((seed.parse().unwrap_or(1), shape.parse().unwrap_or(0), len.parse().unwrap_or(4), *all == "1"));
                }
                ["recv", tag, ..] => {
                    // `recv <i>.<n> …`: the n-th change of command i
                    if let Some((i, n)) = tag.split_once('.') {
                        if let (Ok(i), Ok(n)) = (i.parse(), n.parse()) {
                            sel.push((i, n));
                        }
                    }
                }
                _ => {}
            }
        }
        flush(&cur, &sel, &mut rec);
        rec.finish(args.seed, &args.tier);
        return;
    }

    let mut rng = Rng::new(args.seed);
    let cases = args.budget(4, 24);
    let all = args.thorough() || args.search;
    let mut seen = std::collections::BTreeSet::new();
    for c in 0..cases {
        let seed = rng.next_u64() >> 16;
        let shape = (c as u64) % 3;
        let len = if all { rng.range(4, 9) as usize } else { rng.range(3, 5) as usize };
        run_case(&mut rec, &machine, seed, shape, len, all, None, &mut seen);
    }
    malformed_stream(&mut rec, &machine, rng.next_u64() >> 16);
    let _ = unhex;
    rec.finish(args.seed, &args.tier);
}
