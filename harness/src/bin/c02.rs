//! C02 — every command is applied once, after its ancestors; merges are never evaluated.
//!
//! The REAL `ClientState` is driven with an audit policy that logs every
//! `call_rule(id, placement)`.  Per braid (every accepted merge command and every multi-head
//! commit) the in-braid calls must be duplicate free, ancestor respecting, contain no merge and be
//! exactly the non-merge commands of anc*(heads) outside anc*(start) (S-level oracle, `gkb::c02_check`);
//! the same order is requested from the Lean spec (`braidorder`).  A second, storage-level
//! observation: the `log` fact of the committed fact cache lists every appending command of
//! anc*(heads) exactly once, ancestors first.  The thorough tier adds graphs big enough to spill the
//! braid result buffer (> 256 entries) and the convergence map (> 3*256 live entries); a counting
//! `Spill` reports how many cases really spilled.

use std::collections::BTreeMap;

use aranya_runtime::{ClientError, CmdId, Prior};
use vh::{fnv, gk::*, gkb::*, Args, Recorder, Rng};

struct Opts {
    /// ask the Lean spec for the braid order of every n-th merge (1 = all)
    merge_sample: usize,
    label: String,
    /// anc-merge family: the graph holds merges with comparable parents, so the reference braid is
    /// not meaningful; only oracle-independent observations are judged
    anc: bool,
}

const ANC_NOT_COMPARED: &str = "anc-merge: graph holds a merge with comparable parents, braid order not compared";

thread_local! {
    /// the graph delivered so far in the current case holds a merge with comparable parents
    static ANC_GRAPH: std::cell::Cell<bool> = const { std::cell::Cell::new(false) };
}

/// stable marker of the known finding "anc-merge" (known_findings.json matches on it): violations
/// observed on a graph that holds a merge command whose two parents are comparable (or equal)
fn mark(anc: bool, kind: &str) -> String {
    if anc { format!("anc-merge ({kind}): ") } else { String::new() }
}

/// every appending command of anc*(heads) is in the committed `log` fact exactly once, after its
/// appending ancestors
fn check_log(rec: &mut Recorder, lg: &LightGraph, heads: &[CmdId], rows: &[FactRow], label: &str, anc: bool) {
    let region = lg.og.anc_self(heads);
    let mut by_tag: BTreeMap<String, CmdId> = BTreeMap::new();
    for id in &region {
        let c = &lg.og.cmds[id];
        let body = decode_body(std::str::from_utf8(&c.data).unwrap_or("")).unwrap_or_default();
        if body.contains(&Op::Append) {
            by_tag.insert(short(*id), *id);
        }
    }
    let log: Vec<String> = rows
        .iter()
        .find(|r| r.name == "log")
        .map(|r| String::from_utf8_lossy(&r.value).split(':').map(|s| s.to_string()).collect())
        .unwrap_or_default();
    let mut seen: BTreeMap<CmdId, usize> = BTreeMap::new();
    for (i, t) in log.iter().enumerate() {
        match by_tag.get(t) {
            None => {
                rec.oracle_fail(format!("{label}: log fact holds {t}, not an appending command of anc*(heads)"));
                return;
            }
            Some(id) => {
                if seen.insert(*id, i).is_some() {
                    rec.oracle_fail(format!("{label}: {}command {t} was applied twice (log fact lists it twice)", mark(anc, "applied-twice")));
                    return;
                }
            }
        }
    }
    for (t, id) in &by_tag {
        if !seen.contains_key(id) {
            rec.oracle_fail(format!("{label}: command {t} of anc*(heads) was never applied (missing from the log fact {}; heads {})", log.join(":"), show_ids(heads)));
            return;
        }
    }
    // ancestors first (check each command against its nearest appending ancestors, memoised)
    let mut order: Vec<&KCmd> = region.iter().map(|x| &lg.og.cmds[x]).collect();
    order.sort_by_key(|c| (c.max_cut(), c.id));
    let mut m: BTreeMap<CmdId, i64> = BTreeMap::new();
    for c in order {
        let up = oracle::parents(c).iter().map(|p| *m.get(p).unwrap_or(&-1)).max().unwrap_or(-1);
        let mine = seen.get(&c.id).map(|p| *p as i64);
        if let Some(p) = mine {
            if up >= p {
                rec.oracle_fail(format!("{label}: {}command {} applied before one of its ancestors (log fact order)", mark(anc, "before-ancestor"), short(c.id)));
                return;
            }
        }
        m.insert(c.id, up.max(mine.unwrap_or(-1)));
    }
}

/// oracle-independent part of C02 on one braid's rule calls: no command twice, no merge evaluated,
/// no command before one of its evaluated ancestors
fn check_calls_plain(rec: &mut Recorder, lg: &LightGraph, calls: &[CmdId], flags: &[bool], what: &str, label: &str) {
    let mut pos: BTreeMap<CmdId, usize> = BTreeMap::new();
    for (i, c) in calls.iter().enumerate() {
        if pos.insert(*c, i).is_some() {
            rec.oracle_fail(format!("{label}: {what}: command {} evaluated twice in one braid", short(*c)));
        }
        let is_merge = flags.get(i).copied().unwrap_or(false) || lg.og.cmds.get(c).map_or(false, |k| matches!(k.parent, Prior::Merge(..)));
        if is_merge {
            rec.oracle_fail(format!("{label}: {what}: merge command {} evaluated by the policy", short(*c)));
        }
    }
    for (i, c) in calls.iter().enumerate() {
        for d in &calls[i + 1..] {
            if lg.og.is_anc(*d, *c) {
                rec.oracle_fail(format!("{label}: {what}: {}command {} evaluated before its ancestor {} (braid rule calls {})", mark(true, "before-ancestor"), short(*c), short(*d), show_ids(calls)));
                return;
            }
        }
    }
}

fn check_braid(rec: &mut Recorder, lg: &LightGraph, heads: &[CmdId], evs: &[AuditEv], what: &str, label: &str, ask_model: bool, anc: bool) {
    let calls = braid_calls(evs);
    let flags = braid_merge_flags(evs);
    if anc {
        if ask_model {
            // flagged request: on a graph with a comparable-parent merge the reference braid is not a
            // linearisation, its order is not compared (the driver answers with the same literal)
            rec.line(format!("braidorder-anc {}", ids_arg(heads)), ANC_NOT_COMPARED);
        }
        check_calls_plain(rec, lg, &calls, &flags, what, label);
        rec.count_n("braid_calls", calls.len() as u64);
        return;
    }
    if std::env::var("VH_DEBUG").is_ok() && calls.len() > 100 {
        eprintln!("{label}: {what}: heads {} calls {}", heads.len(), calls.len());
    }
    if ask_model {
        rec.line(format!("braidorder {}", ids_arg(heads)), show_ids(&calls));
    }
    match lg.og.braid(heads) {
        Ok((start, want)) => {
            for b in c02_check(&lg.og, heads, start, &calls, &flags) {
                rec.oracle_fail(format!("{label}: {what}: {b}"));
            }
            rec.count_n("braid_calls", calls.len() as u64);
            if calls.len() > 256 {
                rec.count("braids_over_256_entries");
            }
            if calls.len() > 768 {
                rec.count("braids_over_768_entries");
            }
            // convergence points of the region above the start: commands with >= 2 region children
            if calls.len() > 256 {
                let region = lg.og.anc_self(heads);
                let conv = region
                    .iter()
                    .filter(|x| lg.og.children.get(x).map_or(0, |ch| ch.iter().filter(|y| region.contains(y)).count()) >= 2)
                    .count();
                if conv > 768 {
                    rec.count("braids_over_768_convergence_points");
                }
            }
            let _ = want;
        }
        Err(e) => rec.oracle_fail(format!("{label}: {what} succeeded but the reference braid says {e}")),
    }
}

fn run_case(rec: &mut Recorder, sched: &Schedule, o: &Opts) -> String {
    let cmds = flatten(sched);
    let g = graph_id_of(&cmds[0]);
    let mut r = mem_replica(g);
    rec.line("reset", "ok");
    let mut lg = LightGraph::new();
    let (mut multi, mut merges, mut n_merge) = (0u64, 0u64, 0usize);
    let mut spilled = SpillStats::default();
    let label = &o.label;
    let mut anc = o.anc;
    ANC_GRAPH.with(|f| f.set(anc));
    for batch in sched {
        let mut trx = r.transaction();
        let mut mark = lg.len();
        for c in batch {
            let _ = audit_take();
            let _ = spill_take();
            // a merge whose parents are comparable (or equal)?  flagged before the call: a panic inside
            // the call is then attributed to the anc-merge graph as well
            let comparable = match c.parent {
                Prior::Merge(l, rr) => l.id == rr.id || lg.og.is_anc(l.id, rr.id) || lg.og.is_anc(rr.id, l.id),
                _ => false,
            };
            if comparable {
                ANC_GRAPH.with(|f| f.set(true));
            }
            let res = add_cs(&mut r, &mut trx, std::slice::from_ref(c));
            if res.is_err() {
                ANC_GRAPH.with(|f| f.set(anc));
            }
            let evs = audit_take();
            let sp = spill_take();
            spilled.braid_writes += sp.braid_writes;
            spilled.conv_writes += sp.conv_writes;
            spilled.conv_reads += sp.conv_reads;
            match &res {
                Ok(_) => {
                    rec.line(cmd_line(c), "ok");
                    lg.push(c);
                    if matches!(c.parent, Prior::None) {
                        mark = lg.len();
                    }
                    // at origin: a non-merge command is evaluated exactly once, a merge never
                    let origin: Vec<CmdId> = evs
                        .iter()
                        .filter_map(|e| match e {
                            AuditEv::Rule { id, placement: Placement::Origin, .. } => Some(*id),
                            _ => None,
                        })
                        .collect();
                    let want_origin: Vec<CmdId> = if matches!(c.parent, Prior::Merge(..)) { vec![] } else { vec![c.id] };
                    if origin != want_origin {
                        rec.oracle_fail(format!("{label}: adding {} made origin rule calls {} (expected {})", short(c.id), show_ids(&origin), show_ids(&want_origin)));
                    }
                    if let Prior::Merge(l, rr) = c.parent {
                        if !anc && comparable {
                            // from here on the graph holds a merge with comparable parents
                            anc = true;
                            ANC_GRAPH.with(|f| f.set(true));
                            rec.count("cases_with_comparable_parent_merge");
                        }
                        merges += 1;
                        n_merge += 1;
                        let ask = o.merge_sample <= 1 || n_merge % o.merge_sample == 0;
                        check_braid(rec, &lg, &[l.id, rr.id], &evs, &format!("merge {} of {}", short(c.id), show_ids(&[l.id, rr.id])), label, ask, anc);
                    } else if !braid_calls(&evs).is_empty() {
                        rec.oracle_fail(format!("{label}: adding the non-merge command {} evaluated a braid", short(c.id)));
                    }
                }
                Err(e) => {
                    rec.count(&format!("add_err:{}", err_name(e)));
                    if let Prior::Merge(l, rr) = c.parent {
                        if !anc && lg.og.cmds.contains_key(&l.id) && lg.og.cmds.contains_key(&rr.id) {
                            let want = lg.og.braid(&[l.id, rr.id]);
                            if !(matches!(e, ClientError::ParallelFinalize) && want.is_err()) {
                                rec.oracle_fail(format!("{label}: merge {} failed with {} but the reference braid is {:?}", short(c.id), err_name(e), want.map(|x| show_ids(&x.1))));
                            }
                        }
                    }
                }
            }
        }
        let _ = audit_take();
        let _ = spill_take();
        let cres = commit_cs(&mut r, trx);
        let evs = audit_take();
        let sp = spill_take();
        spilled.braid_writes += sp.braid_writes;
        spilled.conv_writes += sp.conv_writes;
        spilled.conv_reads += sp.conv_reads;
        let heads = r.heads();
        match cres {
            Ok(changed) => {
                if !changed {
                    rec.count("empty_commits");
                }
                if changed && heads.len() >= 2 {
                    multi += 1;
                    check_braid(rec, &lg, &heads, &evs, "commit", label, true, anc);
                } else if !braid_calls(&evs).is_empty() {
                    rec.oracle_fail(format!("{label}: single-head commit evaluated a braid"));
                }
                // what the heads are: the frontier of what was accepted
                let mut want_heads = lg.og.frontier();
                want_heads.sort();
                let mut got = heads.clone();
                got.sort();
                // the commit point is part of the request stream (replays reproduce the batching)
                rec.line("frontier", show_ids(&got));
                if got != want_heads {
                    rec.oracle_fail(format!("{label}: committed heads {} but frontier {}", show_ids(&got), show_ids(&want_heads)));
                }
                match r.facts() {
                    Ok(rows) => check_log(rec, &lg, &heads, &rows, label, anc),
                    Err(e) => rec.oracle_fail(format!("{label}: fact cache unreadable: {e}")),
                }
            }
            Err(e) => {
                rec.count(&format!("commit_err:{}", err_name(&e)));
                let want = lg.og.braid(&lg.og.frontier());
                if !anc && !(matches!(e, ClientError::ParallelFinalize) && want.is_err()) && !matches!(e, ClientError::StorageError(_)) {
                    rec.oracle_fail(format!("{label}: commit failed with {} but the reference braid is {:?}", err_name(&e), want.map(|x| show_ids(&x.1))));
                }
                lg.truncate(mark);
                rec.line(format!("truncate {mark}"), "ok");
            }
        }
    }
    if anc {
        // stored state of every committed command: its log fact lists anc*(command) once each, ancestors first
        if let Ok(committed) = r.committed() {
            for c in &committed {
                if let Ok(rows) = r.facts_at(c.address()) {
                    check_log(rec, &lg, &[c.id], &rows, &format!("{label}: stored state at {}", short(c.id)), true);
                }
            }
        }
    }
    rec.count_n("multi_head_commits", multi);
    rec.count_n("merge_cmds", merges);
    rec.count_n("cmds", cmds.len() as u64);
    if spilled.braid_writes > 0 {
        rec.count("cases_braid_result_spilled");
        rec.count_n("braid_result_blocks_spilled", spilled.braid_writes);
    }
    if spilled.conv_writes > 0 {
        rec.count("cases_convergence_map_spilled");
        rec.count_n("convergence_blocks_spilled", spilled.conv_writes);
        rec.count_n("convergence_blocks_reloaded", spilled.conv_reads);
    }
    if multi + merges > 0 {
        rec.nontrivial(fnv(&cmds.iter().map(cmd_line).collect::<Vec<_>>().join("\n")));
    }
    // what a peer observes at the end: heads and fact cache
    let mut hs = r.heads();
    hs.sort();
    let facts = r.facts().map(|rows| rows.iter().map(|x| format!("{}={}", x.name, String::from_utf8_lossy(&x.value))).collect::<Vec<_>>().join(";")).unwrap_or_else(|e| format!("err {e}"));
    format!("heads {} facts {}", show_ids(&hs), facts)
}

fn guarded(rec: &mut Recorder, sched: &Schedule, o: &Opts, case: usize) -> Option<String> {
    let before = rec.oracle_failures.len();
    let res = guarded_inner(rec, sched, o, case);
    if std::env::var("VH_TRACE_FAILS").is_ok() {
        for f in &rec.oracle_failures[before..] {
            eprintln!("FAIL {}", f.what);
        }
    }
    res
}

fn guarded_inner(rec: &mut Recorder, sched: &Schedule, o: &Opts, case: usize) -> Option<String> {
    match vh::catch(std::panic::AssertUnwindSafe(|| run_case(rec, sched, o))) {
        Ok(s) => Some(s),
        Err(p) => {
            // keep the request lines of the case: the panic is replayable
            let m = if ANC_GRAPH.with(|f| f.get()) && p.contains("heap.is_empty()") { mark(true, "finalize-not-last-debug-assert") } else { String::new() };
            rec.oracle_fail(format!("case {case}: {m}panic in the real code: {p}"));
            rec.panics.push(format!("case {case}: {m}{p}"));
            if std::env::var("VH_TRACE_FAILS").is_ok() {
                eprintln!("PANIC-SCHEDULE {}", serde_json::to_string(&schedule_lines(sched)).unwrap_or_default());
            }
            None
        }
    }
}

/// request lines that reproduce a schedule (`frontier` = commit marker)
fn schedule_lines(sched: &Schedule) -> Vec<String> {
    let mut v = vec!["reset".to_string()];
    for b in sched {
        for c in b {
            v.push(cmd_line(c));
        }
        v.push("frontier".into());
    }
    v
}

enum Child {
    Done(serde_json::Value),
    TimedOut,
    Failed(String),
}

/// Run `c02 --replay <file>` in a child process under a watchdog: a braid that does not terminate
/// must not hang the check.
fn child_replay(args: &Args, replay: &std::path::Path, out: &std::path::Path, only_recorded: bool, secs: u64) -> Child {
    let exe = match std::env::current_exe() {
        Ok(e) => e,
        Err(e) => return Child::Failed(format!("current_exe: {e}")),
    };
    let mut cmd = std::process::Command::new(exe);
    cmd.arg("--seed").arg(args.seed.to_string()).arg("--tier").arg(&args.tier).arg("--out").arg(out).arg("--replay").arg(replay);
    cmd.env("VH_CHILD", "1");
    if only_recorded {
        cmd.env("VH_ONESCHED", "1");
    }
    cmd.stdout(std::process::Stdio::null()).stderr(std::process::Stdio::null());
    let mut ch = match cmd.spawn() {
        Ok(c) => c,
        Err(e) => return Child::Failed(format!("spawn: {e}")),
    };
    let deadline = std::time::Instant::now() + std::time::Duration::from_secs(secs.saturating_mul(10));
    loop {
        match ch.try_wait() {
            Ok(Some(st)) => {
                if !st.success() {
                    return Child::Failed(format!("child exited with {st}"));
                }
                let txt = std::fs::read_to_string(out.join("stats.json")).unwrap_or_default();
                return match serde_json::from_str(&txt) {
                    Ok(v) => Child::Done(v),
                    Err(e) => Child::Failed(format!("child stats unreadable: {e}")),
                };
            }
            Ok(None) => {
                // The budget is CPU time of the child (a non-terminating braid spins), so a slow,
                // heavily loaded machine cannot turn a terminating run into a false alarm; the
                // wall-clock deadline (10x the budget) is only a backstop.
                let cpu = child_cpu_secs(ch.id());
                if cpu.is_some_and(|c| c > secs) || std::time::Instant::now() > deadline {
                    let _ = ch.kill();
                    let _ = ch.wait();
                    return Child::TimedOut;
                }
                std::thread::sleep(std::time::Duration::from_millis(50));
            }
            Err(e) => return Child::Failed(format!("wait: {e}")),
        }
    }
}

/// user+system CPU seconds consumed so far by process `pid` (Linux /proc; None if unavailable)
fn child_cpu_secs(pid: u32) -> Option<u64> {
    let stat = std::fs::read_to_string(format!("/proc/{pid}/stat")).ok()?;
    // fields after the command name (which may contain spaces) start behind the last ')'
    let rest = &stat[stat.rfind(')')? + 2..];
    let f: Vec<&str> = rest.split(' ').collect();
    let utime: u64 = f.get(11)?.parse().ok()?;
    let stime: u64 = f.get(12)?.parse().ok()?;
    Some((utime + stime) / 100)
}

/// watchdog budget (CPU seconds) for one replayed case list
fn watchdog_secs() -> u64 {
    std::env::var("VH_WATCHDOG").ok().and_then(|v| v.parse().ok()).unwrap_or(100)
}

fn salt(args: &Args, case: usize) -> u64 {
    args.seed.wrapping_mul(1_000_003).wrapping_add(case as u64)
}

fn main() {
    let args = Args::parse();
    vh::quiet_panics();
    let mut rec = Recorder::new(&args.out);
    let mut rng = Rng::new(args.seed);

    if let Some(p) = &args.replay {
        if std::env::var("VH_CHILD").is_err() {
            // parent: replay in a child process under a watchdog (a non-terminating braid is a
            // violation, not a hung check); the child writes the output files itself
            match child_replay(&args, p, &args.out, false, watchdog_secs()) {
                Child::Done(_) => return,
                Child::TimedOut => {
                    rec.begin_case();
                    rec.oracle_fail_with(
                        format!("replay: delivery did not terminate within {} s (add_commands/commit of a braid hangs)", watchdog_secs()),
                        vh::read_replay_input(p),
                    );
                }
                Child::Failed(e) => rec.panics.push(format!("replay child failed: {e}")),
            }
            rec.finish(args.seed, &args.tier);
            return;
        }
        let lines = vh::read_replay_input(p);
        for (k, sched) in parse_schedules(&lines).iter().enumerate() {
            // the recorded delivery schedule first, then: one transaction per command, random small
            // batches, everything in one transaction, two halves
            let cmds = flatten(sched);
            let n = cmds.len() as u64;
            let mut scheds = vec![sched.clone()];
            if std::env::var("VH_ONESCHED").is_err() && n <= 400 {
                for (per_cmd, mb, fixed) in [(true, 1, true), (false, 6, false), (false, n, true), (false, (n / 2).max(2), true)] {
                    scheds.push(make_schedule(&mut rng, &cmds, per_cmd, mb, fixed));
                }
            }
            for sc in &scheds {
                rec.begin_case();
                let o = Opts { merge_sample: if n > 400 { 97 } else { 1 }, label: format!("replay{k}"), anc: false };
                guarded(&mut rec, sc, &o, k);
            }
        }
        rec.finish(args.seed, &args.tier);
        return;
    }

    let mut case = 0usize;
    // probe a single shape (manual experiments): VH_SHAPE=comb:<n>:<tooth>:<join 0/1>
    if let Ok(spec) = std::env::var("VH_SHAPE") {
        let t: Vec<&str> = spec.split(':').collect();
        let num = |i: usize| t.get(i).and_then(|x| x.parse::<usize>().ok()).unwrap_or(0);
        let d = match t[0] {
            "comb" => comb_dag(&mut rng, num(1), num(2), num(3) == 1, 17),
            "ladders" => ladders_dag(&mut rng, num(1), num(2), num(3), num(4), 10, 17),
            "wide" => wide_dag(&mut rng, num(1), num(2), 17),
            _ => panic!("unknown shape"),
        };
        let cmds = realize(&d, salt(&args, 0));
        rec.begin_case();
        rec.count(&format!("shape:{spec}"));
        let o = Opts { merge_sample: 97, label: format!("probe:{spec}"), anc: false };
        let sched = make_schedule(&mut rng, &cmds, false, (cmds.len() as u64 / 3).max(8), false);
        guarded(&mut rec, &sched, &o, 0);
        rec.finish(args.seed, &args.tier);
        return;
    }
    // ---- anc-merge family: merges whose parents are comparable (deliverable by a peer, never made
    // by an honest client).  Own random stream: the other families keep their seeds.
    // VH_FAMILY=anc-merge runs only this family (exploration); VH_ANC_EQUAL=1 adds merges of a
    // command with itself.
    let only_anc = std::env::var("VH_FAMILY").ok().as_deref() == Some("anc-merge");
    {
        let mut arng = Rng::new(args.seed ^ 0xA11C_E5);
        let equal = std::env::var("VH_ANC_EQUAL").is_ok();
        // the default run holds a small deterministic share (known finding `anc-merge`: a change in how it
        // manifests is seen)
        let n = if only_anc { args.budget(400, 4000) } else { args.budget(12, 60) };
        for acase in 0..n {
            let p = DagParams {
                max_nodes: arng.range(4, 20) as usize,
                prios: arng.range(1, 3) as u32,
                finalize_pct: *arng.pick(&[0, 0, 6]),
                check_pct: 0,
                allow_parallel_finalize: false,
                merge_pct: *arng.pick(&[10, 25, 40]),
                branch_pct: *arng.pick(&[20, 40, 60]),
                ..DagParams::default()
            };
            let apct = *arng.pick(&[10, 20, 35]);
            let (d, made) = gen_dag_anc(&mut arng, &p, apct, equal);
            let cmds = realize(&d, salt(&args, 900_000 + acase));
            rec.begin_case();
            rec.count("shape:anc-merge");
            rec.count_n("anc_merges_generated", made as u64);
            let per_cmd = arng.chance(1, 3);
            let o = Opts { merge_sample: 1, label: format!("c02-anc#{acase}"), anc: true };
            let mb = *arng.pick(&[6, 6, 3, 30]);
            let sched = make_schedule(&mut arng, &cmds, per_cmd, mb, false);
            let one = guarded(&mut rec, &sched, &o, 900_000 + acase);
            // C01 probe: the same commands under another batching (other segment layout / commit points)
            rec.begin_case();
            rec.count("shape:anc-merge-rebatched");
            let sched2 = make_schedule(&mut arng, &cmds, !per_cmd, 4, false);
            let two = guarded(&mut rec, &sched2, &o, 900_000 + acase);
            if let (Some(a), Some(b)) = (&one, &two) {
                // only comparable when both deliveries committed everything (no failed commit)
                if a != b {
                    rec.oracle_fail(format!("c02-anc#{acase}: two deliveries of the same commands end differently: [{a}] vs [{b}]"));
                    if std::env::var("VH_TRACE_FAILS").is_ok() {
                        eprintln!("FAIL c02-anc#{acase}: two deliveries end differently: [{a}] vs [{b}]");
                    }
                }
            }
        }
        if only_anc {
            rec.finish(args.seed, &args.tier);
            return;
        }
    }
    // ---- random DAGs
    let cases = args.budget(150, 1500);
    for _ in 0..cases {
        let big = args.budget(0, 1) == 1 && rng.chance(1, 12);
        let p = DagParams {
            max_nodes: if big { 80 } else { rng.range(3, 24) as usize },
            prios: rng.range(1, 3) as u32,
            finalize_pct: *rng.pick(&[0, 0, 6]),
            check_pct: 0,
            allow_parallel_finalize: rng.chance(1, 10),
            merge_pct: *rng.pick(&[10, 25, 40]),
            branch_pct: *rng.pick(&[20, 40, 60]),
            ..DagParams::default()
        };
        let mut d = gen_dag(&mut rng, &p);
        // make every command append (the log-fact observation then covers all of them)
        for n in d.nodes.iter_mut() {
            if n.parents.len() == 1 && !n.body.contains(&Op::Append) {
                n.body.push(Op::Append);
            }
        }
        let cmds = realize(&d, salt(&args, case));
        rec.begin_case();
        let per_cmd = rng.chance(1, 3);
        rec.count(if per_cmd { "mode:per-command-trx" } else { "mode:batched-trx" });
        rec.count("shape:random");
        if rec.cases() <= 2 {
            rec.sample(cmds.iter().map(cmd_line).collect::<Vec<_>>().join(" | "));
        }
        let o = Opts { merge_sample: 1, label: format!("c02#{case}"), anc: false };
        let mb = *rng.pick(&[6, 6, 6, 30]);
        let sched = make_schedule(&mut rng, &cmds, per_cmd, mb, false);
        guarded(&mut rec, &sched, &o, case);
        case += 1;
    }
    // ---- shaped DAGs around and beyond the spill thresholds
    // (w ladders, k diamonds each, side chain) ; chains
    let mut shapes: Vec<(&str, Dag)> = vec![];
    // quick tier: one braid result spill (region > 256) is on the measured path
    shapes.push(("ladder-1x140", ladders_dag(&mut rng, 1, 140, 2, 3, 10, 7)));
    shapes.push(("chains-290+300", chains_dag(&mut rng, 3, &[290, 300], 5)));
    if args.thorough() || args.search {
        shapes.push(("chains-300+330+20", chains_dag(&mut rng, 5, &[300, 330, 20], 9)));
        shapes.push(("ladder-1x300", ladders_dag(&mut rng, 1, 300, 2, 4, 15, 11)));
        shapes.push(("ladder-1x850", ladders_dag(&mut rng, 1, 850, 3, 2, 5, 17)));
        shapes.push(("ladder-1x900-nolow", ladders_dag(&mut rng, 1, 900, 0, 2, 0, 17)));
        shapes.push(("ladder-1x400-nohigh", ladders_dag(&mut rng, 1, 400, 3, 0, 0, 17)));
        shapes.push(("ladders-4x230", ladders_dag(&mut rng, 4, 230, 3, 5, 10, 17)));
        shapes.push(("ladders-8x125", ladders_dag(&mut rng, 8, 125, 2, 2, 20, 17)));
        shapes.push(("ladders-16x60", ladders_dag(&mut rng, 16, 60, 3, 6, 30, 17)));
        let p = DagParams { max_nodes: 500, merge_pct: 30, branch_pct: 30, finalize_pct: 0, check_pct: 0, prios: 3, ..DagParams::default() };
        for _ in 0..3 {
            let mut d = gen_dag(&mut rng, &p);
            while d.nodes.len() < 300 {
                d = gen_dag(&mut rng, &p);
            }
            shapes.push(("random-300..500", d));
        }
    }
    for (name, d) in shapes {
        let cmds = realize(&d, salt(&args, case));
        rec.begin_case();
        rec.count(&format!("shape:{name}"));
        rec.count("mode:batched-trx");
        let o = Opts { merge_sample: 97, label: format!("c02#{case}:{name}"), anc: false };
        let sched = make_schedule(&mut rng, &cmds, false, (cmds.len() as u64 / 6).max(8), false);
        guarded(&mut rec, &sched, &o, case);
        case += 1;
    }
    // ---- a wide level: more than 3*256 convergence points with the same max cut.  Run in a child
    // process under a watchdog (found: the convergence map's block scan can cycle for ever).
    {
        let w = if args.thorough() || args.search { 1000 } else { 800 };
        let d = wide_dag(&mut rng, w, 2, 17);
        let cmds = realize(&d, salt(&args, case));
        let sched = make_schedule(&mut rng, &cmds, false, (cmds.len() as u64 / 3).max(8), false);
        let lines = schedule_lines(&sched);
        let dir = args.out.join("probe-wide");
        let _ = std::fs::create_dir_all(&dir);
        let file = dir.join("input.json");
        let js = format!("{{\"input\": [{}]}}", lines.iter().map(|l| serde_json::to_string(l).unwrap()).collect::<Vec<_>>().join(","));
        std::fs::write(&file, js).expect("write probe input");
        rec.begin_case();
        rec.count(&format!("shape:wide-{w}"));
        match child_replay(&args, &file, &dir, true, watchdog_secs()) {
            Child::Done(v) => {
                if let Some(dist) = v["distribution"].as_object() {
                    for (k, n) in dist {
                        if k.contains("spill") || k.contains("reload") || k.contains("over_") || k == "braid_calls" || k == "cmds" || k == "merge_cmds" {
                            rec.count_n(k, n.as_u64().unwrap_or(0));
                        }
                    }
                }
                if let Some(fs) = v["oracle_failures"].as_array() {
                    for f in fs.iter().take(3) {
                        rec.oracle_fail_with(format!("wide-{w}: {}", f["what"].as_str().unwrap_or("?")), lines.clone());
                    }
                }
                for pmsg in v["panics"].as_array().cloned().unwrap_or_default() {
                    rec.panics.push(format!("wide-{w}: {}", pmsg.as_str().unwrap_or("?")));
                }
                rec.nontrivial(fnv(&lines.join("\n")));
            }
            Child::TimedOut => rec.oracle_fail_with(
                format!("wide-{w}: delivery of a graph with {w} same-level convergence points did not terminate within {} s: no command of the final braid is ever applied", watchdog_secs()),
                lines.clone(),
            ),
            Child::Failed(e) => rec.panics.push(format!("wide-{w}: child failed: {e}")),
        }
    }
    rec.finish(args.seed, &args.tier);
}
