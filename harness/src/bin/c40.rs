//! C40 — AFC sequence numbers never repeat within a seal context.
//!
//! Same machinery as C42 / C41 (`vh::shmworld`: REAL `WriteState` + 1–3 REAL `ReadState`
//! threads under the cooperative hook scheduler, every step replayed through the Lean
//! transition system `AranyaV.Shm` by `drv_c40`), with programs that are seal loops on one
//! context while the writer adds / removes OTHER channels (every writer operation bumps the
//! generation and so invalidates the cached key), with injected seal failures at every
//! position: the closure fails without touching the key, or the real AEAD fails (destination
//! too small) — in which case the harness also checks that the key's sequence number did not
//! move.
//!
//! S-level oracle (Rust, independent of the model):
//!   * the sequence numbers of the successful seals of one context are 0, 1, 2, … in order
//!     (read from the header `Client::seal` wrote, resp. returned by `SealKey::seal`);
//!   * each ciphertext opens under the channel's own key at that sequence number with the
//!     channel's label (so the re-derived key is the right key at the right position);
//!   * a failed AEAD call leaves `SealKey::seq()` unchanged;
//!   * a channel that is not removed keeps sealing (lookup unaffected by operations on other
//!     channels).
//! Second part (`mem…` request lines): the in-memory state (`memory::State`) — random operation
//! sequences against the Lean model `AranyaV.ShmMem` with the oracle "never two live seal
//! contexts for one channel", "removed ⇒ NotFound", "sequence numbers consecutive".
use vh::{
    shmworld::{self as sw, Pred, ROp, Spec, WOp},
    Args, Recorder,
};

const PROP: &str = "C40";

fn main() {
    let args = Args::parse();
    let mut rec = Recorder::new(&args.out);
    if std::env::var("VH_LOUD").is_err() {
        vh::quiet_panics();
    }
    if let Some(p) = &args.replay {
        let lines = vh::read_replay_input(p);
        sw::replay_cases(&mut rec, PROP, &lines);
        sw::replay_mem_cases(&mut rec, PROP, &lines);
        rec.finish(args.seed, &args.tier);
        return;
    }
    let big = args.thorough() || args.search;
    let seal = |f| ROp::Seal { kth: 0, fail: f };
    let d = |q: usize, t: usize| if big { t } else { q };
    let fixed: Vec<(Spec, usize)> = vec![
        // seal loop with failures at every position while another channel is added and removed
        (
            Spec { cap: 2, keyseed: 21, warm: 1, wprog: vec![WOp::Add { dir: 1, par: 0 }, WOp::Add { dir: 2, par: 1 }, WOp::Rm(1)],
                   rprogs: vec![vec![ROp::Setup { seal: true, x: 0 }, seal(0), seal(2), seal(0), seal(1), seal(0)]] },
            d(9, 13),
        ),
        (
            Spec { cap: 3, keyseed: 22, warm: 2, wprog: vec![WOp::Add { dir: 1, par: 2 }, WOp::Add { dir: 1, par: 0 }, WOp::RmIf(Pred::IdGe(1)), WOp::Add { dir: 2, par: 0 }],
                   rprogs: vec![vec![ROp::Setup { seal: true, x: 0 }, seal(2), seal(0), seal(0), seal(2), seal(0)]] },
            d(8, 12),
        ),
        // two contexts for two channels on two readers
        (
            Spec { cap: 3, keyseed: 23, warm: 2, wprog: vec![WOp::Add { dir: 1, par: 0 }, WOp::Add { dir: 1, par: 1 }, WOp::RmIf(Pred::None), WOp::Add { dir: 1, par: 2 }],
                   rprogs: vec![vec![ROp::Setup { seal: true, x: 0 }, seal(0), seal(1), seal(0)], vec![ROp::Setup { seal: true, x: 1 }, seal(0), seal(0)]] },
            d(6, 8),
        ),
    ];
    sw::drive(&mut rec, PROP, 2, &fixed, args.seed, args.budget(250, 5000), 10);
    sw::drive_mem(&mut rec, PROP, args.seed, args.budget(300, 5000));
    rec.finish(args.seed, &args.tier);
}
