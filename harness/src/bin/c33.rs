//! C33 — the hand-rolled `Arc` behind heap-backed `aranya_policy_text::Text` values
//! (`repr.rs::arc::ArcStr`) under a cooperative scheduler.
//!
//! 2–4 REAL threads clone, read and drop `Text` values that share one heap allocation.  The
//! cfg-gated hook parks a thread before the `fetch_add` of `clone`, before the `fetch_sub` of
//! `drop` and before the free, and reports allocation and free with the address.  The
//! scheduler decides every step: which idle thread starts which operation (it must own a
//! handle — Rust's ownership rules), which parked thread performs its next atomic operation,
//! and when a handle moves from one thread to another.  Exhaustive enumeration of all
//! schedules up to a decision depth + seeded random schedules.  Every step is one request line
//! for the Lean transition system (`drv_c33`) with what the real code did: next yield point,
//! the value of the real reference counter (read from the allocation while it is live), how
//! many times the allocation was freed.
//!
//! S-level oracle (independent of the Lean model; address-based allocation tracking, checked
//! *before* the real access happens):
//!   * no clone / read / drop touches the allocation after it was freed;
//!   * freed at most once, never while some thread still owns a handle;
//!   * after the last handle is dropped the allocation has been freed (no leak);
//!   * every read returns the original string.

use std::{
    str::FromStr,
    sync::{
        atomic::{AtomicUsize, Ordering},
        Arc, Mutex as StdMutex,
    },
};

use aranya_policy_text::Text;
use vh::{
    coop::{self, Chooser, Dfs, Sched, St},
    fnv, Args, Recorder, Rng,
};

const CONTENT: &str = "a heap-backed text value that is longer than the inline limit";

#[derive(Default)]
struct Tracker {
    live: Vec<usize>,
    frees: usize,
    viol: Vec<String>,
    /// handles owned by the threads (harness bookkeeping: Vec lengths + drops in progress)
    handles: usize,
}

static TRACK: StdMutex<Option<Tracker>> = StdMutex::new(None);

fn with_track<R>(f: impl FnOnce(&mut Tracker) -> R) -> Option<R> {
    TRACK.lock().unwrap().as_mut().map(f)
}

fn hook(label: &'static str, addr: usize) {
    if label == "arc.alloc" {
        with_track(|t| t.live.push(addr));
        return;
    }
    // clone / drop / free: park first, then check (the check must see the state at the time
    // the operation really happens)
    coop::yield_point(label);
    let bad = with_track(|t| {
        let live = t.live.contains(&addr);
        match label {
            "arc.free" => {
                t.frees += 1;
                if !live {
                    t.viol.push("double free".into());
                    return Some("double free");
                }
                t.live.retain(|a| *a != addr);
                if t.handles > 0 {
                    t.viol.push(format!("freed while {} handle(s) are still live", t.handles));
                }
                None
            }
            _ => {
                if !live {
                    t.viol.push(format!("{label}: reference counter accessed after the free"));
                    Some("use after free")
                } else {
                    None
                }
            }
        }
    })
    .flatten();
    if let Some(b) = bad {
        // do not let the real code touch freed memory: unwind out of it (never from inside an
        // unwind: a second panic would abort the process)
        if !std::thread::panicking() {
            panic!("{b}");
        }
    }
}

#[derive(Clone, Copy, PartialEq, Debug)]
enum Cmd {
    Clone,
    Read,
    Drop,
    Exit,
}

impl Cmd {
    fn name(self) -> &'static str {
        match self {
            Cmd::Clone => "clone",
            Cmd::Read => "read",
            Cmd::Drop => "drop",
            Cmd::Exit => "exit",
        }
    }
}

struct Shared {
    cmd: Vec<StdMutex<Option<Cmd>>>,
    /// the `Text` handles each thread owns
    /// (boxed: a handle borrowed by an operation in progress must not move when the bag grows)
    bag: Vec<StdMutex<Vec<Box<Text>>>>,
    base: AtomicUsize,
    viol: StdMutex<Vec<String>>,
}

/// address of the first handle in thread `t`'s bag (the bag lock is released on return)
fn first_handle(sh: &Shared, t: usize) -> *const Text {
    let g = sh.bag[t].lock().unwrap();
    let r: &Text = &g[0];
    r as *const Text
}

fn worker(sh: Arc<Shared>, sched: Arc<Sched>, t: usize) {
    let _g = coop::enter(&sched, t);
    loop {
        coop::yield_point("idle");
        let cmd = sh.cmd[t].lock().unwrap().take().unwrap_or(Cmd::Exit);
        match cmd {
            Cmd::Clone => {
                // borrow a handle (it stays in the bag), clone through it
                let p: *const Text = first_handle(&sh, t);
                // SAFETY: only this thread removes from its bag, and it is busy here
                let c = unsafe { (*p).clone() };
                with_track(|tr| tr.handles += 1);
                sh.bag[t].lock().unwrap().push(Box::new(c));
            }
            Cmd::Read => {
                let p: *const Text = first_handle(&sh, t);
                coop::yield_point("read");
                // SAFETY: as above
                let s: &str = unsafe { (*p).as_str() };
                let addr = s.as_ptr() as usize;
                let live = with_track(|tr| tr.live.iter().any(|b| *b <= addr && addr < *b + 4096)).unwrap_or(true);
                if !live {
                    with_track(|tr| tr.viol.push("string data read after the free".into()));
                    panic!("use after free");
                }
                if s != CONTENT {
                    sh.viol.lock().unwrap().push("read returned different content".into());
                }
            }
            Cmd::Drop => {
                let x = sh.bag[t].lock().unwrap().pop().expect("owns a handle");
                with_track(|tr| tr.handles -= 1);
                drop(x);
            }
            Cmd::Exit => break,
        }
    }
}

#[derive(Clone, Debug, PartialEq)]
enum Act {
    Start(usize, Cmd),
    Step(usize, &'static str),
    Give(usize, usize),
}

impl Act {
    fn line(&self) -> String {
        match self {
            Act::Start(t, c) => format!("{} {t}", c.name()),
            Act::Step(t, l) => format!("s {t} {l}"),
            Act::Give(t, u) => format!("give {t} {u}"),
        }
    }
}

enum Mode<'a> {
    Dfs(&'a mut Dfs),
    Random { rng: &'a mut Rng, budget: usize },
    Replay { acts: Vec<String>, pos: usize },
}

struct Outcome {
    steps: usize,
    clones: usize,
    reads: usize,
    drops: usize,
    gives: usize,
    max_strong: usize,
    sig: u64,
}

/// the real counter, read from the allocation while it is live (`#[repr(C)] { strong, data }`)
fn real_strong(sh: &Shared) -> usize {
    let base = sh.base.load(Ordering::SeqCst);
    let live = with_track(|t| t.live.contains(&base)).unwrap_or(false);
    if live {
        // SAFETY: the allocation is live and starts with the `AtomicUsize` counter
        unsafe { (*(base as *const AtomicUsize)).load(Ordering::SeqCst) }
    } else {
        0
    }
}

fn run_case(rec: &mut Recorder, n: usize, mode: &mut Mode) -> Outcome {
    *TRACK.lock().unwrap() = Some(Tracker { handles: 1, ..Default::default() });
    let first = Text::from_str(CONTENT).expect("valid text");
    let base = with_track(|t| t.live.first().copied()).flatten().expect("heap text allocates");
    let sh = Arc::new(Shared {
        cmd: (0..n).map(|_| StdMutex::new(None)).collect(),
        bag: (0..n).map(|_| StdMutex::new(vec![])).collect(),
        base: AtomicUsize::new(base),
        viol: StdMutex::new(vec![]),
    });
    sh.bag[0].lock().unwrap().push(Box::new(first));
    let sched = Sched::new(n);
    let mut handles = vec![];
    for t in 0..n {
        let (sh, sched) = (sh.clone(), sched.clone());
        handles.push(std::thread::spawn(move || worker(sh, sched, t)));
    }
    rec.line(format!("new {}", n - 1), "ok");
    let mut out = Outcome { steps: 0, clones: 0, reads: 0, drops: 0, gives: 0, max_strong: 1, sig: 0 };
    let mut fails: Vec<String> = vec![];
    let mut sig = String::new();
    let mut stuck = false;
    let mut clean_finish = false;
    loop {
        let st = match sched.quiesce() {
            Ok(s) => s,
            Err(e) => {
                fails.push(e);
                stuck = true;
                break;
            }
        };
        if let Some(p) = st.iter().position(|s| *s == St::Panicked) {
            fails.push(format!("thread {p} panicked (stopped before touching freed memory)"));
        }
        if st.iter().all(|s| matches!(s, St::Done | St::Panicked)) {
            break;
        }
        let owned: Vec<usize> = (0..n).map(|t| sh.bag[t].lock().unwrap().len()).collect();
        let mut opts: Vec<Act> = vec![];
        for t in 0..n {
            match st[t] {
                St::AtYield("idle") => {
                    if owned[t] > 0 {
                        opts.push(Act::Start(t, Cmd::Clone));
                        opts.push(Act::Start(t, Cmd::Read));
                        opts.push(Act::Start(t, Cmd::Drop));
                        for u in 0..n {
                            if u != t && !matches!(st[u], St::Done | St::Panicked) {
                                opts.push(Act::Give(t, u));
                            }
                        }
                    }
                }
                St::AtYield(l) => opts.push(Act::Step(t, l)),
                _ => {}
            }
        }
        let all_idle = (0..n).all(|t| matches!(st[t], St::AtYield("idle") | St::Done | St::Panicked));
        let finished = all_idle && owned.iter().all(|k| *k == 0);
        let over_budget = match mode {
            Mode::Random { budget, .. } => out.steps >= *budget,
            Mode::Replay { acts, pos } => *pos >= acts.len(),
            Mode::Dfs(d) => out.steps >= d.depth,
        };
        if finished || opts.is_empty() {
            clean_finish = finished;
            for t in 0..n {
                if st[t] == St::AtYield("idle") {
                    *sh.cmd[t].lock().unwrap() = Some(Cmd::Exit);
                    let _ = sched.grant(t);
                }
            }
            continue;
        }
        let act = if over_budget {
            // wind down: finish operations in progress, then drop every handle
            opts.iter()
                .find(|a| matches!(a, Act::Step(..)))
                .or_else(|| opts.iter().find(|a| matches!(a, Act::Start(_, Cmd::Drop))))
                .cloned()
                .unwrap_or_else(|| opts[0].clone())
        } else {
            match mode {
                Mode::Dfs(d) => {
                    // keep the branching manageable: a handle is only ever given to the next thread
                    let o: Vec<Act> = opts
                        .iter()
                        .filter(|a| !matches!(a, Act::Give(t, u) if *u != (*t + 1) % n))
                        .cloned()
                        .collect();
                    o[d.choose(o.len())].clone()
                }
                Mode::Random { rng, .. } => {
                    let a = rng.pick(&opts).clone();
                    // bias towards keeping handles around for a while
                    if matches!(a, Act::Start(_, Cmd::Drop)) && rng.chance(1, 2) {
                        rng.pick(&opts).clone()
                    } else {
                        a
                    }
                }
                Mode::Replay { acts, pos } => {
                    let mut pick = None;
                    while *pos < acts.len() && pick.is_none() {
                        pick = opts.iter().find(|a| a.line() == acts[*pos]).cloned();
                        *pos += 1;
                    }
                    pick.unwrap_or_else(|| opts[0].clone())
                }
            }
        };
        out.steps += 1;
        sig.push_str(&act.line());
        sig.push(';');
        match &act {
            Act::Start(t, c) => {
                match c {
                    Cmd::Clone => out.clones += 1,
                    Cmd::Read => out.reads += 1,
                    Cmd::Drop => out.drops += 1,
                    Cmd::Exit => {}
                }
                *sh.cmd[*t].lock().unwrap() = Some(*c);
                let new = sched.grant(*t).unwrap_or(St::Panicked);
                rec.line(act.line(), new.label());
            }
            Act::Step(t, _) => {
                let new = sched.grant(*t).unwrap_or(St::Panicked);
                let lbl = match new {
                    St::Done => "idle",
                    s => s.label(),
                };
                let strong = real_strong(&sh);
                out.max_strong = out.max_strong.max(strong);
                let freed = with_track(|t| t.frees).unwrap_or(0);
                rec.line(act.line(), format!("{lbl} strong={strong} freed={freed}"));
            }
            Act::Give(t, u) => {
                out.gives += 1;
                let x = sh.bag[*t].lock().unwrap().pop().expect("owns a handle");
                sh.bag[*u].lock().unwrap().push(x);
                rec.line(act.line(), "ok");
            }
        }
    }
    if !stuck {
        for h in handles {
            let _ = h.join();
        }
    }
    let any_panic = sched.status().iter().any(|s| *s == St::Panicked);
    // whatever the schedule left undropped is dropped now (main thread, not scheduled)
    if !stuck {
        for t in 0..n {
            let left: Vec<Box<Text>> = sh.bag[t].lock().unwrap().drain(..).collect();
            for x in left {
                with_track(|tr| tr.handles -= 1);
                if vh::catch(std::panic::AssertUnwindSafe(move || drop(x))).is_err() {
                    fails.push("panic while dropping a left-over handle".into());
                }
            }
        }
    }
    let tr = TRACK.lock().unwrap().take().unwrap();
    if clean_finish && !stuck && !any_panic {
        rec.line("end", format!("end strong=0 freed={} uaf=0", tr.frees));
    }
    fails.extend(tr.viol.iter().cloned());
    fails.extend(sh.viol.lock().unwrap().drain(..));
    if !any_panic && !stuck {
        if tr.frees != 1 {
            fails.push(format!("allocation freed {} times after every handle was dropped (expected exactly once)", tr.frees));
        }
        if !tr.live.is_empty() {
            fails.push("leak: allocation still live after every handle was dropped".into());
        }
    }
    fails.sort();
    fails.dedup();
    for f in fails {
        rec.oracle_fail(f);
    }
    out.sig = fnv(&sig);
    out
}

fn account(rec: &mut Recorder, kind: &str, n: usize, o: &Outcome) {
    rec.count(&format!("runs:{kind}"));
    rec.count(&format!("threads:{n}"));
    rec.count_n("steps", o.steps as u64);
    rec.count_n("op:clone", o.clones as u64);
    rec.count_n("op:read", o.reads as u64);
    rec.count_n("op:drop", o.drops as u64);
    rec.count_n("op:give", o.gives as u64);
    rec.count(&format!("max-strong:{}", o.max_strong.min(6)));
    if o.gives > 0 && o.clones > 0 {
        rec.nontrivial(o.sig);
    }
}

fn main() {
    let args = Args::parse();
    let mut rec = Recorder::new(&args.out);
    vh::quiet_panics();
    aranya_policy_text::verif::set_hook(hook);

    if let Some(p) = &args.replay {
        let lines = vh::read_replay_input(p);
        let mut i = 0;
        while i < lines.len() {
            let tk: Vec<&str> = lines[i].split(' ').collect();
            if tk.len() == 2 && tk[0] == "new" {
                let n: usize = tk[1].parse::<usize>().unwrap_or(1).clamp(0, 7) + 1;
                let mut j = i + 1;
                while j < lines.len() && !lines[j].starts_with("new ") {
                    j += 1;
                }
                let acts: Vec<String> = lines[i + 1..j].iter().filter(|l| *l != "end").cloned().collect();
                rec.begin_case();
                let o = run_case(&mut rec, n, &mut Mode::Replay { acts, pos: 0 });
                account(&mut rec, "replay", n, &o);
                i = j;
            } else {
                i += 1;
            }
        }
        rec.finish(args.seed, &args.tier);
        return;
    }

    let big = args.thorough() || args.search;
    let exh: &[(usize, usize)] = if big { &[(2, 10), (3, 8)] } else { &[(2, 8), (3, 6)] };
    for &(n, depth) in exh {
        let mut dfs = Dfs::new(depth);
        let mut runs = 0u64;
        loop {
            rec.begin_case();
            let o = run_case(&mut rec, n, &mut Mode::Dfs(&mut dfs));
            account(&mut rec, "exhaustive", n, &o);
            runs += 1;
            if !dfs.advance() {
                break;
            }
        }
        rec.notes.push(format!("exhaustive: {n} threads, all schedules to decision depth {depth}: {runs} runs"));
    }
    let mut rng = Rng::new(args.seed);
    let cases = args.budget(400, 5000);
    for c in 0..cases {
        let n = rng.range(2, 4) as usize;
        let budget = rng.range(8, 70) as usize;
        rec.begin_case();
        let o = run_case(&mut rec, n, &mut Mode::Random { rng: &mut rng, budget });
        account(&mut rec, "random", n, &o);
        if c < 2 {
            rec.sample(rec.current_case_lines().join("; "));
        }
    }
    rec.finish(args.seed, &args.tier);
}
