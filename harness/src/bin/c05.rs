//! C05 — concurrent finalize commands are always detected; no false detection; a failing
//! commit/merge leaves the committed heads and fact state unchanged.
//!
//! DAGs with 0–4 finalize commands placed on / off common branches and around merges are delivered
//! to a REAL `ClientState`.  S-level oracle (independent of any braid algorithm): a multi-head
//! commit, or the acceptance of a merge command, must fail with `ParallelFinalize` **iff**
//! anc*(heads) contains two finalize commands neither of which is an ancestor of the other; after a
//! failing commit the committed heads, the whole fact cache, the hello head and the head-set offset
//! equal their pre-call values, no rule was called in a braid and no effect was committed.  The Lean
//! spec answers the same `braidorder` requests (`err ParallelFinalize` or the order).

use aranya_runtime::{ClientError, CmdId, Prior, Priority, Storage as _, StorageProvider as _};
use vh::{fnv, gk::*, gkb::*, Args, Recorder, Rng};

#[derive(Clone, Debug, PartialEq)]
struct Snapshot {
    heads: Vec<CmdId>,
    facts: String,
    hello: String,
    offset: String,
}

fn snapshot(r: &mut Replica<MemProvider>) -> Snapshot {
    let heads = r.heads();
    let facts = r.facts().map(|f| show_facts(&f)).unwrap_or_else(|e| format!("err {e}"));
    let hello = match r.hello_head() {
        Ok(a) => id_hex(a.id),
        Err(e) => format!("err {}", err_name(&e)),
    };
    let g = r.graph;
    let offset = match r.client.provider().get_storage(g) {
        Ok(s) => format!("{:?}", s.heads_offset()),
        Err(_) => "none".into(),
    };
    Snapshot { heads, facts, hello, offset }
}

fn run_case(rec: &mut Recorder, sched: &Schedule, label: &str) {
    let cmds = flatten(sched);
    let g = graph_id_of(&cmds[0]);
    let mut r = mem_replica(g);
    rec.line("reset", "ok");
    let mut lg = LightGraph::new();
    let (mut pf_commits, mut pf_merges, mut ok_multi, mut ok_merges) = (0u64, 0u64, 0u64, 0u64);
    let mut fins_seen = 0usize;
    for batch in sched {
        let mut trx = r.transaction();
        let mut mark = lg.len();
        let before = if r.exists() { Some(snapshot(&mut r)) } else { None };
        for c in batch {
            if !lg.has_parents(c) {
                rec.count("skipped_unknown_parent");
                continue;
            }
            let _ = audit_take();
            let res = add_cs(&mut r, &mut trx, std::slice::from_ref(c));
            let evs = audit_take();
            let merge_parents = match c.parent {
                Prior::Merge(l, rr) => Some([l.id, rr.id]),
                _ => None,
            };
            // what the property demands of a merge: fail iff the branches hold parallel finalizes
            let want_pf = merge_parents.and_then(|hs| parallel_finalize_pair(&lg.og, &hs));
            match &res {
                Ok(_) => {
                    rec.line(cmd_line(c), "ok");
                    lg.push(c);
                    if matches!(c.parent, Prior::None) {
                        mark = lg.len();
                    }
                    if is_finalize(c) {
                        fins_seen += 1;
                    }
                    if let Some(hs) = merge_parents {
                        ok_merges += 1;
                        rec.line(format!("braidorder {}", ids_arg(&hs)), show_ids(&braid_calls(&evs)));
                        if let Some((f1, f2)) = want_pf {
                            rec.oracle_fail(format!("{label}: merge {} of branches holding the parallel finalizes {} and {} was accepted", short(c.id), short(f1), short(f2)));
                        }
                    }
                }
                Err(e) => {
                    rec.count(&format!("add_err:{}", err_name(e)));
                    match (e, merge_parents) {
                        (ClientError::ParallelFinalize, Some(hs)) => {
                            pf_merges += 1;
                            // the model sees the same graph without the merge command
                            rec.line(format!("braidorder {}", ids_arg(&hs)), "err ParallelFinalize");
                            if want_pf.is_none() {
                                rec.oracle_fail(format!("{label}: merge {} failed with ParallelFinalize but all finalizes of its branches are causally ordered (false detection)", short(c.id)));
                            }
                            if !braid_calls(&evs).is_empty() {
                                rec.oracle_fail(format!("{label}: a failing merge evaluated commands in a braid"));
                            }
                        }
                        (ClientError::ParallelFinalize, None) => {
                            rec.oracle_fail(format!("{label}: non-merge command {} failed with ParallelFinalize", short(c.id)));
                        }
                        (_, _) => {
                            rec.oracle_fail(format!("{label}: adding {} failed with {}", short(c.id), err_name(e)));
                        }
                    }
                }
            }
        }
        let _ = audit_take();
        let committed_effects = r.sink.committed().len();
        let cres = commit_cs(&mut r, trx);
        let evs = audit_take();
        let heads_after = r.heads();
        // the head set this commit tries to install: the frontier of everything accepted
        let want_heads = lg.og.frontier();
        let want_pf = if want_heads.len() >= 2 { parallel_finalize_pair(&lg.og, &want_heads) } else { None };
        match cres {
            Ok(changed) => {
                let mut got = heads_after.clone();
                got.sort();
                rec.line("frontier", show_ids(&got));
                if !changed {
                    rec.count("empty_commits");
                    if !braid_calls(&evs).is_empty() {
                        rec.oracle_fail(format!("{label}: a commit that committed nothing evaluated a braid"));
                    }
                }
                if changed && got.len() >= 2 {
                    ok_multi += 1;
                    rec.line(format!("braidorder {}", ids_arg(&heads_after)), show_ids(&braid_calls(&evs)));
                }
                if let Some((f1, f2)) = want_pf {
                    rec.oracle_fail(format!("{label}: commit of heads {} succeeded although {} and {} are parallel finalizes", show_ids(&got), short(f1), short(f2)));
                }
                if got != want_heads {
                    rec.oracle_fail(format!("{label}: committed heads {} but frontier {}", show_ids(&got), show_ids(&want_heads)));
                }
            }
            Err(e) => {
                rec.count(&format!("commit_err:{}", err_name(&e)));
                match e {
                    ClientError::ParallelFinalize => {
                        pf_commits += 1;
                        rec.line(format!("braidorder {}", ids_arg(&want_heads)), "err ParallelFinalize");
                        if want_pf.is_none() {
                            rec.oracle_fail(format!("{label}: commit of heads {} failed with ParallelFinalize but all finalizes are causally ordered (false detection)", show_ids(&want_heads)));
                        }
                        if !braid_calls(&evs).is_empty() {
                            rec.oracle_fail(format!("{label}: a failing commit evaluated commands in a braid"));
                        }
                        // unchanged: heads, fact cache, hello head, head-set offset, committed effects
                        if let Some(b) = &before {
                            let after = snapshot(&mut r);
                            if *b != after {
                                rec.oracle_fail(format!("{label}: failing commit changed the committed state: before {:?} after {:?}", b, after));
                            }
                        }
                        if r.sink.committed().len() != committed_effects {
                            rec.oracle_fail(format!("{label}: failing commit committed effects"));
                        }
                    }
                    other => rec.oracle_fail(format!("{label}: commit failed with {}", err_name(&other))),
                }
                lg.truncate(mark);
                rec.line(format!("truncate {mark}"), "ok");
            }
        }
    }
    rec.count_n("pf_commits", pf_commits);
    rec.count_n("pf_merges", pf_merges);
    rec.count_n("ok_multi_head_commits", ok_multi);
    rec.count_n("ok_merges", ok_merges);
    rec.count(&format!("finalizes_accepted:{}", fins_seen.min(5)));
    rec.count_n("cmds", cmds.len() as u64);
    if pf_commits + pf_merges + ok_multi + ok_merges > 0 && fins_seen > 0 {
        rec.nontrivial(fnv(&cmds.iter().map(cmd_line).collect::<Vec<_>>().join("\n")));
    }
}

fn guarded(rec: &mut Recorder, sched: &Schedule, label: &str, case: usize) {
    match vh::catch(std::panic::AssertUnwindSafe(|| run_case(rec, sched, label))) {
        Ok(()) => {}
        Err(p) => {
            // keep the request lines of the case: the panic is replayable
            rec.oracle_fail(format!("case {case}: panic in the real code: {p}"));
            rec.panics.push(format!("case {case}: {p}"));
        }
    }
}

/// hand-shaped placements: `k` finalizes on the trunk, on one branch, on both branches, below /
/// above a merge, nested
fn template(rng: &mut Rng, which: u64) -> Dag {
    let mut d = Dag::default();
    let node = |d: &mut Dag, parents: Vec<usize>, prio: Priority| -> usize {
        let i = d.nodes.len();
        let body = if parents.len() == 2 { vec![] } else { vec![Op::Set(i as u64 % 5, i as u64), Op::Append] };
        d.nodes.push(Node { parents, prio, body });
        i
    };
    let b = |rng: &mut Rng| Priority::Basic(rng.below(3) as u32);
    let init = node(&mut d, vec![], Priority::Init);
    let mut chain = |d: &mut Dag, rng: &mut Rng, from: usize, n: u64, fin_at: &[u64]| -> usize {
        let mut x = from;
        for i in 0..n {
            let p = if fin_at.contains(&i) { Priority::Finalize } else { b(rng) };
            x = node(d, vec![x], p);
        }
        x
    };
    match which {
        // finalize(s) on the trunk, two plain branches
        0 => {
            let t = chain(&mut d, rng, init, 3, &[1]);
            chain(&mut d, rng, t, 3, &[]);
            chain(&mut d, rng, t, 2, &[]);
        }
        // one branch with an ordered chain of finalizes, the other plain
        1 => {
            let t = chain(&mut d, rng, init, 2, &[]);
            chain(&mut d, rng, t, 4, &[0, 2, 3]);
            chain(&mut d, rng, t, 3, &[]);
        }
        // parallel finalizes on both branches (heads) -> commit must fail
        2 => {
            let t = chain(&mut d, rng, init, 2, &[]);
            chain(&mut d, rng, t, 3, &[1]);
            chain(&mut d, rng, t, 3, &[2]);
        }
        // parallel finalizes deep below the tips, then a merge command of the two branches
        3 => {
            let t = chain(&mut d, rng, init, 1, &[]);
            let l = chain(&mut d, rng, t, 4, &[0]);
            let r = chain(&mut d, rng, t, 4, &[1]);
            node(&mut d, vec![l, r], Priority::Merge);
        }
        // finalize on one branch, merge ok, then a later finalize concurrent with it on a third branch
        4 => {
            let t = chain(&mut d, rng, init, 2, &[]);
            let l = chain(&mut d, rng, t, 3, &[1]);
            let r = chain(&mut d, rng, t, 2, &[]);
            let m = node(&mut d, vec![l, r], Priority::Merge);
            chain(&mut d, rng, m, 2, &[]);
            chain(&mut d, rng, t, 3, &[2]);
        }
        // finalize above a merge (ordered after a finalize below it), third branch plain
        5 => {
            let t = chain(&mut d, rng, init, 2, &[1]);
            let l = chain(&mut d, rng, t, 2, &[]);
            let r = chain(&mut d, rng, t, 2, &[]);
            let m = node(&mut d, vec![l, r], Priority::Merge);
            chain(&mut d, rng, m, 3, &[0, 2]);
            chain(&mut d, rng, l, 2, &[]);
        }
        // three branches, finalizes on two of them, merged pairwise
        6 => {
            let t = chain(&mut d, rng, init, 1, &[]);
            let a = chain(&mut d, rng, t, 2, &[1]);
            let bb = chain(&mut d, rng, t, 2, &[]);
            let c = chain(&mut d, rng, t, 2, &[0]);
            let m = node(&mut d, vec![a, bb], Priority::Merge);
            node(&mut d, vec![m, c], Priority::Merge);
        }
        // finalize tips: both heads are finalize commands (detected on the initial pushes)
        _ => {
            let t = chain(&mut d, rng, init, 2, &[]);
            chain(&mut d, rng, t, 2, &[1]);
            chain(&mut d, rng, t, 1, &[0]);
            chain(&mut d, rng, t, 2, &[]);
        }
    }
    d
}

fn salt(args: &Args, case: usize) -> u64 {
    args.seed.wrapping_mul(1_000_003).wrapping_add(case as u64)
}

fn main() {
    let args = Args::parse();
    vh::quiet_panics();
    let mut rec = Recorder::new(&args.out);
    let mut rng = Rng::new(args.seed);

    if let Some(p) = &args.replay {
        let lines = vh::read_replay_input(p);
        for (k, sched) in parse_schedules(&lines).iter().enumerate() {
            let cmds = flatten(sched);
            let n = cmds.len() as u64;
            let mut scheds = vec![sched.clone()];
            for (per_cmd, mb, fixed) in [(true, 1, true), (false, 6, false), (false, n, true)] {
                scheds.push(make_schedule(&mut rng, &cmds, per_cmd, mb, fixed));
            }
            for sc in &scheds {
                rec.begin_case();
                guarded(&mut rec, sc, &format!("replay{k}"), k);
            }
        }
        rec.finish(args.seed, &args.tier);
        return;
    }

    let cases = args.budget(240, 4000);
    for case in 0..cases {
        let d = if rng.chance(2, 5) {
            let w = rng.below(8);
            rec.count(&format!("shape:template{w}"));
            template(&mut rng, w)
        } else {
            rec.count("shape:random");
            let p = DagParams {
                max_nodes: rng.range(4, 22) as usize,
                prios: rng.range(1, 3) as u32,
                finalize_pct: *rng.pick(&[8, 15, 25]),
                check_pct: 0,
                allow_parallel_finalize: rng.chance(2, 3),
                merge_pct: *rng.pick(&[10, 25, 40]),
                branch_pct: *rng.pick(&[20, 40, 60]),
                ..DagParams::default()
            };
            let mut d = gen_dag(&mut rng, &p);
            // at most 4 finalizes: demote the rest
            let mut k = 0;
            for n in d.nodes.iter_mut() {
                if n.prio == Priority::Finalize {
                    k += 1;
                    if k > 4 {
                        n.prio = Priority::Basic(0);
                    }
                }
            }
            d
        };
        let cmds = realize(&d, salt(&args, case));
        rec.begin_case();
        if rec.cases() <= 2 {
            rec.sample(cmds.iter().map(cmd_line).collect::<Vec<_>>().join(" | "));
        }
        // schedules: per command / small batches / whole branches in one transaction
        let (per_cmd, mb) = *rng.pick(&[(true, 1u64), (false, 3), (false, 6), (false, 40)]);
        rec.count(&format!("mode:batch<={mb}"));
        let sched = make_schedule(&mut rng, &cmds, per_cmd, mb, false);
        guarded(&mut rec, &sched, &format!("c05#{case}"), case);
    }
    rec.finish(args.seed, &args.tier);
}
