//! C39 — AFC messages are authenticated and opening never panics.
//!
//! Drives the REAL `aranya_fast_channels::Client` over the in-memory state
//! (`aranya_fast_channels::memory::State`) with the default cipher suite (real AES-256-GCM):
//! seal / seal_in_place on a sender client, open / open_in_place on a receiver client that
//! holds the same raw key.  Every request line is self-contained (the channel line carries the
//! seed of its key material, open lines carry the wire bytes), so a replay file reproduces the
//! run exactly.
//!
//! Request lines (answers after `→`):
//!   new                                   → ok
//!   consts                                → hdr H tag T overhead O msghdr M version V
//!   chan <sealLabel> <openLabel> <keyseed> <startseq>   → ok <c>
//!   seal <c> <dstlen> <pt> <oracle>       → ok <seq> <wire> <dst-tail> | err <kind> <dst>
//!   sealip <c> <pt> <oracle>              → ok <seq> <wire>            | err <kind> <data>
//!   open <c> <dstlen> <wire>              → ok <label> <seq> <pt> <dst-tail> | err <kind> <dst> | panic
//!   openip <c> <wire>                     → ok <label> <seq> <pt>      | err <kind> <data> | panic
//!   rm <c>                                → ok
//!   msg <bytes>                           → data <n> | control <n> | err <kind>
//!   ad <version> <label32>                → bytes of AuthData::to_bytes (hook verif_to_bytes)
//! `<oracle>` = the bytes the real cipher produced (`ciphertext ‖ tag`), which the model's ideal
//! AEAD takes as its output; buffers are pre-filled with 0xA5 and reported as
//! `z<k>/<n>` (= first k bytes zero, the other n-k untouched) or `other`.

use std::{cell::RefCell, panic::AssertUnwindSafe};

use aranya_crypto::{
    afc::{OpenKey, RawOpenKey, RawSealKey, SealKey, Seq, UniChannel, UniOpenKey, UniSealKey, UniSecrets},
    default::DefaultEngine,
    policy::CmdId,
    EncryptionKey,
    dangerous::spideroak_crypto::csprng::{Csprng, Random},
    default::DefaultCipherSuite,
    policy::LabelId,
    DeviceId,
};
use aranya_fast_channels::{
    memory::{OpenCtx, SealCtx, State},
    AranyaState, Client, Directed, Error, HeaderError, LocalChannelId, Message, MsgType, Payload,
    Version,
};
use vh::{fnv, hex, unhex, Args, Recorder, Rng};

type CS = DefaultCipherSuite;
type Cl = Client<State<CS>>;
const FILL: u8 = 0xA5;
const TAG: usize = SealKey::<CS>::OVERHEAD;
const OVERHEAD: usize = Cl::OVERHEAD;
const HDR: usize = OVERHEAD - TAG;

/// deterministic key material: every byte comes from the seed in the `chan` line
struct DetRng(RefCell<Rng>);
impl Csprng for DetRng {
    fn fill_bytes(&self, dst: &mut [u8]) {
        let mut r = self.0.borrow_mut();
        for b in dst {
            *b = r.next_u64() as u8;
        }
    }
}

/// positions of the label id that carry the eight bytes of the label index: first bytes, middle,
/// and the last four bytes (28..31), so that label indices differing in one byte/bit give label
/// ids differing in exactly that byte/bit at every position class
const LABEL_POS: [usize; 8] = [0, 1, 14, 15, 28, 29, 30, 31];

fn label_id(i: u64) -> LabelId {
    let mut b = [0x4cu8; 32];
    for (k, x) in i.to_le_bytes().iter().enumerate() {
        b[LABEL_POS[k]] = *x;
    }
    LabelId::from_bytes(b)
}
fn label_idx(l: LabelId) -> String {
    let b = l.as_bytes();
    let mut x = [0u8; 8];
    for k in 0..8 {
        x[k] = b[LABEL_POS[k]];
    }
    if label_id(u64::from_le_bytes(x)) == l {
        u64::from_le_bytes(x).to_string()
    } else {
        format!("?{l}")
    }
}

fn err_kind(e: &Error) -> &'static str {
    match e {
        Error::InvalidHeader(HeaderError::InvalidSize) => "InvalidSize",
        Error::InvalidHeader(HeaderError::UnknownVersion) => "UnknownVersion",
        Error::InvalidHeader(HeaderError::InvalidMsgType) => "InvalidMsgType",
        Error::InvalidHeader(HeaderError::Bug(_)) | Error::Bug(_) => "Bug",
        Error::Authentication => "Authentication",
        Error::BufferTooSmall => "BufferTooSmall",
        Error::InputTooLarge => "InputTooLarge",
        Error::KeyExpired => "KeyExpired",
        Error::NotFound(_) => "NotFound",
        _ => "Other",
    }
}

/// `z<k>/<n>`: the first k bytes are zero, the remaining n-k are what they were; else `other`
fn buf_state(before: &[u8], after: &[u8]) -> String {
    if before.len() != after.len() {
        return "other".into();
    }
    let n = after.len();
    // buffers are pre-filled with a non-zero byte, so leading zeros are bytes that were zeroed
    let k = after.iter().take_while(|a| **a == 0).count();
    if after[k..] == before[k..] {
        format!("z{k}/{n}")
    } else {
        "other".into()
    }
}

struct ChanReal {
    seal_ctx: SealCtx<CS>,
    open_ctx: OpenCtx<CS>,
    seal_id: LocalChannelId,
    open_id: LocalChannelId,
    seal_label: u64,
    open_label: u64,
    removed: bool,
    /// the two ends hold the same key (always for `chan`; for `dchan` iff the peer derived its key
    /// with the author's parameters)
    keys_agree: bool,
    next_seq: u64,
    /// genuine messages of this channel: (wire, plaintext, seq)
    genuine: Vec<(Vec<u8>, Vec<u8>, u64)>,
}

struct Sys {
    tx: Cl,
    rx: Cl,
    chans: Vec<ChanReal>,
}

#[derive(Clone, Debug)]
enum Cmd {
    New,
    Consts,
    Chan { sl: u64, ol: u64, seed: u64, start: u64 },
    DChan { sl: u64, ol: u64, seed: u64, start: u64, variant: String },
    Seal { c: usize, dstlen: usize, pt: Vec<u8> },
    SealIp { c: usize, pt: Vec<u8> },
    Open { c: usize, dstlen: usize, wire: Vec<u8> },
    OpenIp { c: usize, wire: Vec<u8> },
    Rm { c: usize },
    Msg { bytes: Vec<u8> },
    Ad { version: u32, label: Vec<u8> },
}

impl Cmd {
    fn parse(line: &str) -> Option<Cmd> {
        let t: Vec<&str> = line.split(' ').filter(|x| !x.is_empty()).collect();
        let u = |s: &str| s.parse::<u64>().ok();
        let z = |s: &str| s.parse::<usize>().ok();
        Some(match t.as_slice() {
            ["new"] => Cmd::New,
            ["consts"] => Cmd::Consts,
            ["chan", a, b, s, q] => Cmd::Chan { sl: u(a)?, ol: u(b)?, seed: u(s)?, start: u(q)? },
            ["dchan", a, b, s, q, v] if VARIANTS.contains(v) => Cmd::DChan { sl: u(a)?, ol: u(b)?, seed: u(s)?, start: u(q)?, variant: v.to_string() },
            ["seal", c, d, p, ..] => Cmd::Seal { c: z(c)?, dstlen: z(d)?, pt: unhex(p)? },
            ["sealip", c, p, ..] => Cmd::SealIp { c: z(c)?, pt: unhex(p)? },
            ["open", c, d, w] => Cmd::Open { c: z(c)?, dstlen: z(d)?, wire: unhex(w)? },
            ["openip", c, w] => Cmd::OpenIp { c: z(c)?, wire: unhex(w)? },
            ["rm", c] => Cmd::Rm { c: z(c)? },
            ["msg", b] => Cmd::Msg { bytes: unhex(b)? },
            ["ad", v, l] => Cmd::Ad { version: v.parse().ok()?, label: unhex(l).filter(|l| l.len() == 32)? },
            _ => return None,
        })
    }
}

const VARIANTS: [&str; 8] = ["same", "label", "parent", "swap", "otherdev", "otherpeer", "otherauthor", "otherenc"];

fn catch_once<R>(f: impl FnOnce() -> R) -> Result<R, String> {
    vh::catch(AssertUnwindSafe(f))
}

/// what `exec` tells the generator
#[derive(Clone, Debug, Default)]
struct Reply {
    /// wire bytes of a successful seal
    wire: Option<Vec<u8>>,
    ok: bool,
}

impl Sys {
    fn new() -> Self {
        Sys { tx: Client::new(State::new()), rx: Client::new(State::new()), chans: vec![] }
    }

    /// Runs one command on the real clients, records `request → answer`, evaluates the oracle.
    fn exec(&mut self, rec: &mut Recorder, cmd: &Cmd) -> Reply {
        let mut reply = Reply::default();
        match cmd {
            Cmd::New => {
                *self = Sys::new();
                rec.line("new", "ok");
            }
            Cmd::Consts => {
                rec.line(
                    "consts",
                    format!(
                        "hdr {HDR} tag {TAG} overhead {OVERHEAD} msghdr {} version {}",
                        aranya_fast_channels::Header::PACKED_SIZE,
                        Version::V1 as u16
                    ),
                );
            }
            Cmd::Chan { sl, ol, seed, start } => {
                let rng = DetRng(RefCell::new(Rng::new(*seed)));
                let raw_seal = RawSealKey::<CS>::random(&rng);
                let raw_open = RawOpenKey::<CS> { key: raw_seal.key.clone(), base_nonce: raw_seal.base_nonce.clone() };
                let seal = SealKey::from_raw(&raw_seal, Seq::new(*start)).expect("seal key");
                let open = OpenKey::from_raw(&raw_open).expect("open key");
                let seal_id = self.tx.state().add(Directed::SealOnly { seal }, label_id(*sl), DeviceId::default()).expect("add seal");
                let open_id = self.rx.state().add(Directed::OpenOnly { open }, label_id(*ol), DeviceId::default()).expect("add open");
                let seal_ctx = self.tx.setup_seal_ctx(seal_id).expect("seal ctx");
                let open_ctx = self.rx.setup_open_ctx(open_id).expect("open ctx");
                self.chans.push(ChanReal { seal_ctx, open_ctx, seal_id, open_id, seal_label: *sl, open_label: *ol, removed: false, keys_agree: true, next_seq: *start, genuine: vec![] });
                rec.line(format!("chan {sl} {ol} {seed} {start}"), format!("ok {}", self.chans.len() - 1));
                reply.ok = true;
            }
            Cmd::DChan { sl, ol, seed, start, variant } => {
                // Both ends DERIVE their keys with the real aranya-crypto code: the author with
                // `UniSecrets::new` + `UniSealKey::from_author_secret`, the peer with
                // `UniOpenKey::from_peer_encap` on its own view of the channel (`variant` says how
                // that view differs from the author's).
                let rng = DetRng(RefCell::new(Rng::new(*seed)));
                let (eng, _) = DefaultEngine::<_, CS>::from_entropy(DetRng(RefCell::new(Rng::new(seed ^ 0x5eed))));
                let sk_a = EncryptionKey::<CS>::new(&rng);
                let sk_p = EncryptionKey::<CS>::new(&rng);
                let sk_t = EncryptionKey::<CS>::new(&rng);
                let (pk_a, pk_p, pk_t) = (sk_a.public().expect("pk"), sk_p.public().expect("pk"), sk_t.public().expect("pk"));
                let dev = |x: u8| DeviceId::from_bytes([x; 32]);
                let (dev_a, dev_p, dev_t) = (dev(0xA), dev(0xB), dev(0xC));
                let parent = |x: u8| CmdId::from_bytes([x; 32]);
                let ch_a = UniChannel { parent_cmd_id: parent(1), our_sk: &sk_a, their_pk: &pk_p, seal_id: dev_a, open_id: dev_p, label_id: label_id(*sl) };
                let secrets = UniSecrets::new(&eng, &ch_a).expect("UniSecrets::new");
                let other = UniSecrets::new(&eng, &ch_a).expect("UniSecrets::new"); // another channel's encapsulation
                let raw_seal: RawSealKey<CS> = UniSealKey::from_author_secret(&ch_a, secrets.author).expect("author key").into_raw_key();
                let v = variant.as_str();
                let ch_p = UniChannel {
                    parent_cmd_id: if v == "parent" { parent(2) } else { parent(1) },
                    our_sk: if v == "otherpeer" { &sk_t } else { &sk_p },
                    their_pk: if v == "otherauthor" { &pk_t } else { &pk_a },
                    seal_id: if v == "swap" { dev_p } else { dev_a },
                    open_id: if v == "swap" { dev_a } else if v == "otherdev" { dev_t } else { dev_p },
                    label_id: label_id(*ol),
                };
                let encap = if v == "otherenc" { other.peer } else { secrets.peer };
                let raw_open: RawOpenKey<CS> = match UniOpenKey::from_peer_encap(&ch_p, encap) {
                    Ok(k) => k.into_raw_key(),
                    Err(e) => {
                        rec.line(format!("dchan {sl} {ol} {seed} {start} {variant}"), format!("err Derive {e}"));
                        return reply;
                    }
                };
                let seal = SealKey::from_raw(&raw_seal, Seq::new(*start)).expect("seal key");
                let open = OpenKey::from_raw(&raw_open).expect("open key");
                let seal_id = self.tx.state().add(Directed::SealOnly { seal }, label_id(*sl), DeviceId::default()).expect("add seal");
                let open_id = self.rx.state().add(Directed::OpenOnly { open }, label_id(*ol), DeviceId::default()).expect("add open");
                let seal_ctx = self.tx.setup_seal_ctx(seal_id).expect("seal ctx");
                let open_ctx = self.rx.setup_open_ctx(open_id).expect("open ctx");
                // S-level expectation: the ends agree iff the peer's view is the author's
                // (`label` with equal labels is the author's view)
                let keys_agree = (v == "same" || v == "label") && sl == ol;
                self.chans.push(ChanReal { seal_ctx, open_ctx, seal_id, open_id, seal_label: *sl, open_label: *ol, removed: false, keys_agree, next_seq: *start, genuine: vec![] });
                rec.line(format!("dchan {sl} {ol} {seed} {start} {variant}"), format!("ok {}", self.chans.len() - 1));
                reply.ok = true;
            }
            Cmd::Rm { c } => {
                let Some(ch) = self.chans.get_mut(*c) else {
                    rec.line(format!("rm {c}"), "err NotFound");
                    return reply;
                };
                self.tx.state().remove(ch.seal_id).expect("remove");
                self.rx.state().remove(ch.open_id).expect("remove");
                ch.removed = true;
                rec.line(format!("rm {c}"), "ok");
            }
            Cmd::Seal { c, dstlen, pt } => {
                let Some(ch) = self.chans.get_mut(*c) else {
                    rec.line(format!("seal {c} {dstlen} {} -", hex(pt)), "err NoChannel");
                    return reply;
                };
                let before = vec![FILL; *dstlen];
                let mut dst = before.clone();
                let tx = &self.tx;
                let r = catch_once(|| tx.seal(&mut ch.seal_ctx, &mut dst, pt));
                let ct_len = pt.len() + OVERHEAD;
                let (oracle, ans) = match &r {
                    Err(p) => {
                        rec.panics.push(format!("seal: {p}"));
                        ("-".to_string(), "panic".to_string())
                    }
                    Ok(Ok(h)) => {
                        let wire = dst[..ct_len].to_vec();
                        let tail_ok = dst[ct_len..].iter().all(|b| *b == FILL);
                        let seq = u64::from_le_bytes(wire[wire.len() - HDR..].try_into().unwrap());
                        // oracle: header value, layout and sequence number
                        if h.version != Version::V1 || h.msg_type != MsgType::Data {
                            rec.oracle_fail("seal returned a header other than (V1, Data)");
                        }
                        if seq != ch.next_seq {
                            rec.oracle_fail(format!("seal used sequence number {seq}, expected {}", ch.next_seq));
                        }
                        ch.next_seq = ch.next_seq.wrapping_add(1);
                        ch.genuine.push((wire.clone(), pt.clone(), seq));
                        reply.wire = Some(wire.clone());
                        reply.ok = true;
                        (hex(&wire[..wire.len() - HDR]), format!("ok {seq} {} {}", hex(&wire), if tail_ok { "tail" } else { "tail-touched" }))
                    }
                    Ok(Err(e)) => {
                        if pt.len() >= 4 && dst.windows(pt.len()).any(|w| w == &pt[..]) {
                            rec.oracle_fail("failed seal left the plaintext in dst");
                        }
                        ("-".to_string(), format!("err {} {}", err_kind(e), buf_state(&before, &dst)))
                    }
                };
                rec.line(format!("seal {c} {dstlen} {} {oracle}", hex(pt)), ans);
            }
            Cmd::SealIp { c, pt } => {
                let Some(ch) = self.chans.get_mut(*c) else {
                    rec.line(format!("sealip {c} {} -", hex(pt)), "err NoChannel");
                    return reply;
                };
                let mut data = pt.clone();
                let tx = &self.tx;
                let r = catch_once(|| tx.seal_in_place(&mut ch.seal_ctx, &mut data));
                let (oracle, ans) = match &r {
                    Err(p) => {
                        rec.panics.push(format!("seal_in_place: {p}"));
                        ("-".to_string(), "panic".to_string())
                    }
                    Ok(Ok(h)) => {
                        let wire = data.clone();
                        if wire.len() != pt.len() + OVERHEAD {
                            rec.oracle_fail("seal_in_place: wrong output length");
                        }
                        let seq = u64::from_le_bytes(wire[wire.len() - HDR..].try_into().unwrap());
                        if h.version != Version::V1 || h.msg_type != MsgType::Data {
                            rec.oracle_fail("seal_in_place returned a header other than (V1, Data)");
                        }
                        if seq != ch.next_seq {
                            rec.oracle_fail(format!("seal_in_place used sequence number {seq}, expected {}", ch.next_seq));
                        }
                        ch.next_seq = ch.next_seq.wrapping_add(1);
                        ch.genuine.push((wire.clone(), pt.clone(), seq));
                        reply.wire = Some(wire.clone());
                        reply.ok = true;
                        (hex(&wire[..wire.len() - HDR]), format!("ok {seq} {}", hex(&wire)))
                    }
                    Ok(Err(e)) => {
                        let before = vec![FILL; data.len()];
                        let st = if data.iter().all(|b| *b == 0) { format!("z{}/{}", data.len(), data.len()) } else { buf_state(&before, &data) };
                        if pt.len() >= 4 && data.windows(pt.len()).any(|w| w == &pt[..]) {
                            rec.oracle_fail("failed seal_in_place left the plaintext in data");
                        }
                        ("-".to_string(), format!("err {} {}", err_kind(e), st))
                    }
                };
                rec.line(format!("sealip {c} {} {oracle}", hex(pt)), ans);
            }
            Cmd::Open { c, dstlen, wire } => {
                let req = format!("open {c} {dstlen} {}", hex(wire));
                let Some(ch) = self.chans.get_mut(*c) else {
                    rec.line(req, "err NoChannel");
                    return reply;
                };
                let before = vec![FILL; *dstlen];
                let mut dst = before.clone();
                let rx = &self.rx;
                let r = catch_once(|| rx.open(&mut ch.open_ctx, &mut dst, wire));
                let expect = expected(ch, wire);
                let ans = match &r {
                    Err(p) => {
                        rec.panics.push(format!("open panicked on a {}-byte input: {p}", wire.len()));
                        rec.oracle_fail_with(format!("open panicked on a {}-byte input: {p}", wire.len()), context(rec, &req));
                        "panic".to_string()
                    }
                    Ok(Ok((label, seq))) => {
                        let pt_len = wire.len() - OVERHEAD;
                        let pt = &dst[..pt_len];
                        match &expect {
                            Some((want_pt, want_seq)) if *dstlen >= want_pt.len() => {
                                if pt != &want_pt[..] || seq.to_u64() != *want_seq || label_idx(*label) != ch.open_label.to_string() {
                                    rec.oracle_fail_with("open of a genuine message returned the wrong plaintext/label/seq", context(rec, &req));
                                }
                            }
                            _ => rec.oracle_fail_with(format!("open ACCEPTED a {}-byte input that no seal on this channel produced", wire.len()), context(rec, &req)),
                        }
                        reply.ok = true;
                        let tail = if dst[pt_len..].iter().all(|b| *b == FILL) { "tail" } else { "tail-touched" };
                        format!("ok {} {} {} {tail}", label_idx(*label), seq.to_u64(), hex(pt))
                    }
                    Ok(Err(e)) => {
                        let st = buf_state(&before, &dst);
                        if let Some((want_pt, _)) = &expect {
                            if *dstlen >= want_pt.len() {
                                rec.oracle_fail_with(format!("open rejected a genuine message: {}", err_kind(e)), context(rec, &req));
                            }
                        }
                        // no plaintext in the output buffer: untouched or all zero
                        if !(st == format!("z0/{dstlen}") || st == format!("z{dstlen}/{dstlen}")) {
                            rec.oracle_fail_with(format!("failed open left dst neither untouched nor zeroed ({st})"), context(rec, &req));
                        }
                        format!("err {} {st}", err_kind(e))
                    }
                };
                rec.line(req, ans);
            }
            Cmd::OpenIp { c, wire } => {
                let req = format!("openip {c} {}", hex(wire));
                let Some(ch) = self.chans.get_mut(*c) else {
                    rec.line(req, "err NoChannel");
                    return reply;
                };
                let mut data = wire.clone();
                let rx = &self.rx;
                let r = catch_once(|| rx.open_in_place(&mut ch.open_ctx, &mut data));
                let expect = expected(ch, wire);
                let ans = match &r {
                    Err(p) => {
                        rec.panics.push(format!("open_in_place panicked on a {}-byte input: {p}", wire.len()));
                        rec.oracle_fail_with(format!("open_in_place panicked on a {}-byte input: {p}", wire.len()), context(rec, &req));
                        "panic".to_string()
                    }
                    Ok(Ok((label, seq))) => {
                        match &expect {
                            Some((want_pt, want_seq)) => {
                                if data != *want_pt || seq.to_u64() != *want_seq || label_idx(*label) != ch.open_label.to_string() {
                                    rec.oracle_fail_with("open_in_place of a genuine message returned the wrong plaintext/label/seq", context(rec, &req));
                                }
                            }
                            None => rec.oracle_fail_with(format!("open_in_place ACCEPTED a {}-byte input that no seal on this channel produced", wire.len()), context(rec, &req)),
                        }
                        reply.ok = true;
                        format!("ok {} {} {}", label_idx(*label), seq.to_u64(), hex(&data))
                    }
                    Ok(Err(e)) => {
                        if expect.is_some() {
                            rec.oracle_fail_with(format!("open_in_place rejected a genuine message: {}", err_kind(e)), context(rec, &req));
                        }
                        // no plaintext: the buffer is the untouched input or all zero
                        let st = if data == *wire {
                            format!("z0/{}", data.len())
                        } else if data.len() == wire.len() && data.iter().all(|b| *b == 0) {
                            format!("z{}/{}", data.len(), data.len())
                        } else {
                            "other".to_string()
                        };
                        if st == "other" {
                            rec.oracle_fail_with("failed open_in_place left data neither untouched nor zeroed", context(rec, &req));
                        }
                        format!("err {} {st}", err_kind(e))
                    }
                };
                rec.line(req, ans);
            }
            Cmd::Ad { version, label } => {
                // byte-level tie of `AuthData::to_bytes` (hook `verif_to_bytes`, cfg aranya_core_verif)
                let mut lb = [0u8; 32];
                lb.copy_from_slice(label);
                let ad = aranya_crypto::afc::AuthData { version: *version, label_id: LabelId::from_bytes(lb) };
                let got = ad.verif_to_bytes().to_vec();
                // S-level: every byte of version and label is in the additional data, nothing else
                let mut want = version.to_le_bytes().to_vec();
                want.extend_from_slice(label);
                let req = format!("ad {version} {}", hex(label));
                if got != want {
                    rec.oracle_fail_with(format!("AuthData::to_bytes({version}, {}) = {}, expected version(u32 LE) ‖ label = {}", hex(label), hex(&got), hex(&want)), vec!["new".into(), req.clone()]);
                }
                rec.line(req, hex(&got));
            }
            Cmd::Msg { bytes } => {
                let r = catch_once(|| match Message::try_parse(bytes) {
                    Ok(m) => match m.payload {
                        Payload::Data(p) => format!("data {}", p.len()),
                        Payload::Control(p) => format!("control {}", p.len()),
                    },
                    Err(aranya_fast_channels::ParseError::Header(e)) => format!("err {}", err_kind(&Error::InvalidHeader(e))),
                });
                let ans = match r {
                    Ok(a) => a,
                    Err(p) => {
                        rec.panics.push(format!("Message::try_parse: {p}"));
                        "panic".into()
                    }
                };
                // S-level oracle: only the exact encodings `Header::encode` produces are accepted
                let mhdr = aranya_fast_channels::Header::PACKED_SIZE;
                let want = if bytes.len() < mhdr {
                    "err InvalidSize".to_string()
                } else {
                    let v = u16::from_le_bytes([bytes[0], bytes[1]]);
                    let t = u16::from_le_bytes([bytes[2], bytes[3]]);
                    if v != Version::V1 as u16 {
                        "err UnknownVersion".into()
                    } else if t == MsgType::Data as u16 {
                        format!("data {}", bytes.len() - mhdr)
                    } else if t == MsgType::Control as u16 {
                        format!("control {}", bytes.len() - mhdr)
                    } else {
                        "err InvalidMsgType".into()
                    }
                };
                let req = format!("msg {}", hex(bytes));
                if ans != want {
                    rec.oracle_fail_with(format!("Message::try_parse({}) = `{ans}`, the header format says `{want}`", hex(bytes)), vec!["new".into(), req.clone()]);
                }
                // the header parser itself must agree and re-encode to the same bytes
                if bytes.len() >= mhdr {
                    let mut h4 = [0u8; 4];
                    h4.copy_from_slice(&bytes[..4]);
                    match aranya_fast_channels::Header::try_parse(&h4) {
                        Ok(h) => {
                            let mut out = [0u8; 4];
                            let enc_ok = h.encode(&mut out).is_ok();
                            if !enc_ok || out != h4 || want.starts_with("err") {
                                rec.oracle_fail_with(format!("Header::try_parse accepted {} which is not an encoding of a header", hex(&h4)), vec!["new".into(), req.clone()]);
                            }
                        }
                        Err(_) => {
                            if !want.starts_with("err") {
                                rec.oracle_fail_with(format!("Header::try_parse rejected the valid header {}", hex(&h4)), vec!["new".into(), req.clone()]);
                            }
                        }
                    }
                }
                rec.line(req, ans);
            }
        }
        reply
    }
}

/// the lines of the current case so far + the failing request
fn context(rec: &Recorder, req: &str) -> Vec<String> {
    // keep only what the failing request depends on: `new`, channel set-up, removals and seals
    let mut v: Vec<String> = rec
        .current_case_lines()
        .into_iter()
        .filter(|l| l == "new" || l.starts_with("chan ") || l.starts_with("dchan ") || l.starts_with("rm ") || l.starts_with("seal"))
        .collect();
    v.push(req.to_string());
    v
}

/// S-level expectation: `Some((plaintext, seq))` iff `wire` is byte for byte a message sealed on
/// this channel, the two sides agree on the label and the channel still exists
fn expected(ch: &ChanReal, wire: &[u8]) -> Option<(Vec<u8>, u64)> {
    if ch.removed || ch.seal_label != ch.open_label || !ch.keys_agree {
        return None;
    }
    ch.genuine.iter().find(|g| g.0 == wire).map(|g| (g.1.clone(), g.2))
}

struct Gen<'a> {
    sys: Sys,
    rec: &'a mut Recorder,
    rng: Rng,
}

impl Gen<'_> {
    fn x(&mut self, cmd: Cmd) -> Reply {
        self.sys.exec(self.rec, &cmd)
    }
    fn begin(&mut self, kind: &str) {
        self.rec.begin_case();
        self.rec.count(&format!("case:{kind}"));
        self.x(Cmd::New);
    }
    fn chan(&mut self, sl: u64, ol: u64, start: u64) -> usize {
        let seed = self.rng.next_u64() >> 1;
        self.x(Cmd::Chan { sl, ol, seed, start });
        self.sys.chans.len() - 1
    }
    /// seal through one of the two interfaces
    fn seal(&mut self, c: usize, pt: Vec<u8>, in_place: bool) -> Vec<u8> {
        let r = if in_place {
            self.rec.count("seal:in-place");
            self.x(Cmd::SealIp { c, pt })
        } else {
            self.rec.count("seal:copying");
            let extra = self.rng.below(4) as usize;
            self.x(Cmd::Seal { c, dstlen: pt.len() + OVERHEAD + extra, pt })
        };
        r.wire.unwrap_or_default()
    }
    /// present `wire` to both open interfaces
    fn open_both(&mut self, c: usize, wire: &[u8], class: &str) {
        self.rec.count(&format!("open:{class}"));
        let ptl = wire.len().saturating_sub(OVERHEAD);
        let extra = self.rng.below(3) as usize;
        self.x(Cmd::Open { c, dstlen: ptl + extra, wire: wire.to_vec() });
        self.x(Cmd::OpenIp { c, wire: wire.to_vec() });
    }
}

fn fingerprint(rec: &mut Recorder) {
    let lines = rec.current_case_lines();
    if lines.len() >= 3 {
        rec.nontrivial(fnv(&lines.join(";")));
    }
}

fn run_generated(args: &Args, rec: &mut Recorder) {
    let big = args.thorough() || args.search;
    let rng = Rng::new(args.seed);
    let mut g = Gen { sys: Sys::new(), rec, rng };

    // constants
    g.begin("consts");
    g.x(Cmd::Consts);

    // A. every plaintext length in a range, both seal interfaces, both open interfaces
    let max_len = if big { 2048 } else { 700 };
    g.begin("roundtrip-all-lengths");
    let c = g.chan(1, 1, 0);
    for len in 0..=max_len {
        let pt = g.rng.bytes(len);
        let w = g.seal(c, pt, len % 2 == 1);
        g.open_both(c, &w, "genuine");
        if len % 64 == 3 {
            // replayed message: AFC opens at the sequence number in the header, twice is fine
            g.open_both(c, &w, "genuine-again");
            // dst one byte too small
            g.x(Cmd::Open { c, dstlen: len - 1, wire: w.clone() });
            g.rec.count("open:dst-too-small");
        }
    }
    fingerprint(g.rec);

    // B. every truncation length of messages of selected plaintext lengths
    let sel: &[usize] = if big { &[0, 1, 7, 8, 15, 16, 17, 23, 24, 25, 33, 64, 100] } else { &[0, 1, 8, 16, 17, 33] };
    for &len in sel {
        g.begin("truncations");
        let c = g.chan(2, 2, 0);
        let pt = g.rng.bytes(len);
        let w = g.seal(c, pt, len % 2 == 0);
        for cut in 0..w.len() {
            g.open_both(c, &w[..cut], "truncated");
        }
        // truncated at the front, and extended
        g.open_both(c, &w[1..], "front-truncated");
        let mut e = w.clone();
        e.push(0);
        g.open_both(c, &e, "extended");
        let mut e = vec![0u8];
        e.extend_from_slice(&w);
        g.open_both(c, &e, "extended");
        fingerprint(g.rec);
    }

    // C. bit flips: every bit of short messages
    let sel: &[usize] = if big { &[0, 1, 5, 32, 70] } else { &[0, 5, 20] };
    for &len in sel {
        g.begin("bitflips");
        let c = g.chan(3, 3, 0);
        let pt = g.rng.bytes(len);
        let w = g.seal(c, pt, len % 2 == 1);
        for bit in 0..w.len() * 8 {
            let mut m = w.clone();
            m[bit / 8] ^= 1 << (bit % 8);
            g.rec.count("open:bitflip");
            if bit % 3 == 0 {
                g.x(Cmd::Open { c, dstlen: len + 1, wire: m.clone() });
            }
            g.x(Cmd::OpenIp { c, wire: m });
        }
        g.open_both(c, &w, "genuine");
        fingerprint(g.rec);
    }

    // D. foreign channel, label mismatch, swapped headers, removed channel, key expiry
    let rounds = if big { 40 } else { 8 };
    for _ in 0..rounds {
        g.begin("foreign-and-headers");
        let a = g.chan(4, 4, 0);
        let b = g.chan(4, 4, 0); // same label, other key
        let m = g.chan(5, 6, 0); // the two sides disagree on the label
        // labels that agree in all but one byte (low / middle / high byte of the label id)
        // (same raw key at both ends; one byte / one bit of the label id differs, at every
        // position class: first byte, second, middle 14/15, and each of the bytes 28..31)
        let mut near = vec![g.chan(4, 5, 0)];
        for k in 0..8u32 {
            near.push(g.chan(5, 5 ^ (1u64 << (8 * k)), 0));
            near.push(g.chan(5, 5 ^ (0x80u64 << (8 * k)), 0));
        }
        near.push(g.chan(5 ^ (1u64 << 63), 5, 0));
        let la = g.rng.below(40) as usize;
        let (p1, p2, p3) = (g.rng.bytes(la), g.rng.bytes(la), g.rng.bytes(la));
        let w1 = g.seal(a, p1, false);
        let w2 = g.seal(a, p2, true);
        let wb = g.seal(b, p3.clone(), false);
        let wm = g.seal(m, p3, true);
        g.open_both(b, &w1, "foreign-channel");
        g.open_both(a, &wb, "foreign-channel");
        g.open_both(m, &wm, "label-mismatch");
        for c in near {
            let pt = g.rng.bytes(la);
            let w = g.seal(c, pt, c % 2 == 0);
            g.open_both(c, &w, "label-near-miss");
        }
        // header of one message on the body of another (same length)
        let mut s = w1.clone();
        let n = s.len();
        s[n - HDR..].copy_from_slice(&w2[n - HDR..]);
        g.open_both(a, &s, "swapped-header");
        // sequence number u64::MAX in the header
        let mut s = w1.clone();
        s[n - HDR..].copy_from_slice(&u64::MAX.to_le_bytes());
        g.open_both(a, &s, "seq-max-header");
        // every byte of the sequence-number header replaced on its own: the other seven agree
        for i in 0..HDR {
            for val in [0x01u8, 0x80, 0xff] {
                let mut s = w2.clone();
                let k = s.len() - HDR + i;
                if s[k] != val {
                    s[k] = val;
                    g.open_both(a, &s, "seq-header-byte");
                }
            }
        }
        g.open_both(a, &w1, "genuine");
        g.open_both(a, &w2, "genuine");
        // removed channel
        g.x(Cmd::Rm { c: a });
        g.open_both(a, &w1, "removed-channel");
        g.x(Cmd::Seal { c: a, dstlen: 64, pt: vec![1, 2, 3, 4, 5] });
        g.x(Cmd::SealIp { c: a, pt: vec![1, 2, 3, 4, 5] });
        fingerprint(g.rec);
    }
    {
        g.begin("key-expiry");
        let c = g.chan(7, 7, u64::MAX - 2);
        let w1 = g.seal(c, vec![9; 11], false);
        let w2 = g.seal(c, vec![8; 12], true);
        // the seal context is exhausted now
        g.x(Cmd::Seal { c, dstlen: 80, pt: vec![7; 13] });
        g.x(Cmd::SealIp { c, pt: vec![7; 13] });
        g.x(Cmd::Seal { c, dstlen: 10, pt: vec![7; 13] });
        g.open_both(c, &w1, "genuine");
        g.open_both(c, &w2, "genuine");
        fingerprint(g.rec);
    }

    // D2. channels whose two ends DERIVE their keys (real UniSecrets / UniSealKey / UniOpenKey):
    // the peer's view equal to the author's, or differing in exactly one parameter
    let rounds = if big { 12 } else { 3 };
    for round in 0..rounds {
        for v in VARIANTS {
            g.begin("derived-channel");
            let sl = 10 + g.rng.below(5);
            let ol = if v == "label" { sl + 1 + g.rng.below(3) } else { sl };
            let start = if round % 3 == 2 { g.rng.below(1000) } else { 0 };
            let seed = g.rng.next_u64() >> 1;
            g.x(Cmd::DChan { sl, ol, seed, start, variant: v.to_string() });
            let c = g.sys.chans.len() - 1;
            g.rec.count(&format!("dchan:{v}"));
            for k in 0..4usize {
                let len = [0usize, 1, 17, 200][k] + g.rng.below(3) as usize;
                let pt = g.rng.bytes(len);
                let w = g.seal(c, pt, k % 2 == 0);
                g.open_both(c, &w, if v == "same" { "derived-genuine" } else { "derived-mismatch" });
                if k == 2 {
                    let cut = g.rng.below(w.len() as u64) as usize;
                    g.open_both(c, &w[..cut], "truncated");
                }
            }
            fingerprint(g.rec);
        }
    }

    // E. random byte strings, every length up to and beyond header + tag
    g.begin("random-strings");
    let c = g.chan(8, 8, 0);
    let reps = if big { 24 } else { 6 };
    for len in 0..=OVERHEAD + 12 {
        for _ in 0..reps {
            let s = g.rng.bytes(len);
            g.open_both(c, &s, if len < OVERHEAD { "random-short" } else { "random" });
        }
        g.open_both(c, &vec![0u8; len], if len < OVERHEAD { "random-short" } else { "random" });
        g.open_both(c, &vec![0xffu8; len], if len < OVERHEAD { "random-short" } else { "random" });
    }
    for _ in 0..(if big { 400 } else { 60 }) {
        let len = g.rng.range(OVERHEAD as u64, 600) as usize;
        let s = g.rng.bytes(len);
        g.open_both(c, &s, "random");
    }
    fingerprint(g.rec);

    // F. Message::try_parse / Header
    g.begin("message-header");
    for len in 0..8usize {
        for _ in 0..4 {
            let s = g.rng.bytes(len);
            g.x(Cmd::Msg { bytes: s });
        }
    }
    // additional-data framing: random (version, label) plus labels differing in single bytes
    for _ in 0..(if big { 400 } else { 60 }) {
        let version = match g.rng.below(3) { 0 => Version::V1 as u32, 1 => g.rng.next_u64() as u32, _ => g.rng.below(70000) as u32 };
        let label = g.rng.bytes(32);
        g.x(Cmd::Ad { version, label: label.clone() });
        let pos = g.rng.below(32) as usize;
        let mut l2 = label;
        l2[pos] ^= 1 << g.rng.below(8);
        g.x(Cmd::Ad { version, label: l2 });
    }
    for pos in 0..32usize {
        let mut l = vec![0u8; 32];
        l[pos] = 0xff;
        g.x(Cmd::Ad { version: Version::V1 as u32, label: l });
    }
    g.rec.count("ad:framing");
    // every value of each 16-bit header field, the other field valid: near misses that agree
    // with a valid value in one byte (0x0101, 0x0201, 0x6f00, 0x0054, …) are all in here
    for t in 0..=u16::MAX {
        let mut s = (Version::V1 as u16).to_le_bytes().to_vec();
        s.extend_from_slice(&t.to_le_bytes());
        if t % 4096 == 7 {
            s.extend_from_slice(&[9, 9, 9]);
        }
        g.x(Cmd::Msg { bytes: s });
    }
    g.rec.count_n("msg:every-msg-type", 65536);
    for v in 0..=u16::MAX {
        let mut s = v.to_le_bytes().to_vec();
        s.extend_from_slice(&(1 + (v & 1)).to_le_bytes());
        g.x(Cmd::Msg { bytes: s });
    }
    g.rec.count_n("msg:every-version", 65536);
    for t in 0..5u16 {
        for v in [0u16, 0x6f55, 0x546f, 0x6e54, 0x7054] {
            let mut s = v.to_le_bytes().to_vec();
            s.extend_from_slice(&t.to_le_bytes());
            let n = g.rng.below(5) as usize;
            s.extend(g.rng.bytes(n));
            g.x(Cmd::Msg { bytes: s });
        }
    }
    fingerprint(g.rec);

    // G. seeded random sessions mixing everything
    let sessions = args.budget(300, 4000);
    for _ in 0..sessions {
        g.begin("random-session");
        let nch = g.rng.range(1, 3) as usize;
        for i in 0..nch {
            let l = g.rng.below(3);
            let ol = if g.rng.chance(1, 8) { l + 1 } else { l };
            let start = if g.rng.chance(1, 10) { u64::MAX - g.rng.range(1, 4) } else { g.rng.below(3) };
            let _ = i;
            if g.rng.chance(1, 3) {
                let v = *g.rng.pick(&VARIANTS);
                let seed = g.rng.next_u64() >> 1;
                g.x(Cmd::DChan { sl: l, ol, seed, start, variant: v.to_string() });
                g.rec.count(&format!("dchan:{v}"));
            } else {
                g.chan(l, ol, start);
            }
        }
        let mut wires: Vec<(usize, Vec<u8>)> = vec![];
        let steps = g.rng.range(3, 25);
        for _ in 0..steps {
            let c = g.rng.below(nch as u64) as usize;
            match g.rng.below(10) {
                0..=2 => {
                    let len = match g.rng.below(4) {
                        0 => g.rng.below(4) as usize,
                        1 => g.rng.below(40) as usize,
                        2 => *g.rng.pick(&[15usize, 16, 17, 31, 32, 33, 255, 256, 257]),
                        _ => g.rng.below(700) as usize,
                    };
                    let pt = g.rng.bytes(len);
                    let ip = g.rng.chance(1, 2);
                    let w = g.seal(c, pt, ip);
                    if !w.is_empty() {
                        wires.push((c, w));
                    }
                }
                3..=4 if !wires.is_empty() => {
                    let (wc, w) = wires[g.rng.below(wires.len() as u64) as usize].clone();
                    g.open_both(wc, &w, "genuine");
                }
                5 if !wires.is_empty() => {
                    let (_, w) = wires[g.rng.below(wires.len() as u64) as usize].clone();
                    g.open_both(c, &w, "any-channel");
                }
                6 if !wires.is_empty() => {
                    let (wc, w) = wires[g.rng.below(wires.len() as u64) as usize].clone();
                    let cut = g.rng.below(w.len() as u64) as usize;
                    g.open_both(wc, &w[..cut], "truncated");
                }
                7 if !wires.is_empty() => {
                    let (wc, mut w) = wires[g.rng.below(wires.len() as u64) as usize].clone();
                    let k = g.rng.range(1, 3);
                    for _ in 0..k {
                        let bit = g.rng.below(w.len() as u64 * 8) as usize;
                        w[bit / 8] ^= 1 << (bit % 8);
                    }
                    g.open_both(wc, &w, "bitflip");
                }
                8 => {
                    let len = g.rng.below((OVERHEAD + 40) as u64) as usize;
                    let s = g.rng.bytes(len);
                    g.open_both(c, &s, if len < OVERHEAD { "random-short" } else { "random" });
                }
                9 if g.rng.chance(1, 4) => {
                    g.x(Cmd::Rm { c });
                }
                _ => {
                    let pt = g.rng.bytes(6);
                    let dstlen = g.rng.below((6 + OVERHEAD) as u64) as usize;
                    g.x(Cmd::Seal { c, dstlen, pt });
                    g.rec.count("seal:dst-too-small");
                }
            }
        }
        fingerprint(g.rec);
        if g.rec.cases() % 37 == 0 {
            let l = g.rec.current_case_lines();
            g.rec.sample(l.iter().map(|x| if x.len() > 60 { format!("{}…", &x[..60]) } else { x.clone() }).collect::<Vec<_>>().join("; "));
        }
    }
}

fn main() {
    let args = Args::parse();
    vh::quiet_panics();
    let mut rec = Recorder::new(&args.out);
    if let Some(p) = &args.replay {
        let mut sys = Sys::new();
        rec.begin_case();
        for l in vh::read_replay_input(p) {
            match Cmd::parse(&l) {
                Some(cmd) => {
                    sys.exec(&mut rec, &cmd);
                }
                None => rec.line(l, "bad-op"),
            }
        }
        rec.finish(args.seed, &args.tier);
        return;
    }
    run_generated(&args, &mut rec);
    rec.notes.push(format!(
        "profile: dev with overflow-checks = true (an unchecked usize subtraction panics); cipher suite: DefaultCipherSuite (AES-256-GCM, TAG_SIZE = {TAG}); state: aranya_fast_channels::memory::State"
    ));
    rec.finish(args.seed, &args.tier);
}
