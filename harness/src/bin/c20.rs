//! C20 — peer caches only record what the peer really has.
//!
//! Builds REAL storages (the graph builder of the C11 harness: real `LinearStorage` over the
//! in-memory io manager, written segment by segment), commits a head set, and feeds address
//! sequences (committed, written-but-uncommitted, unknown, wrong max cut, ancestors / descendants /
//! duplicates of current entries) to the REAL `PeerCache::add_command`.
//!
//! * S-level oracle (independent of the Lean model, on the harness's mirror of the DAG): after
//!   every call the cache holds at most `PEER_HEAD_MAX` entries, each a committed command at the
//!   right location, pairwise not ancestor-related; the step changed the cache exactly as the
//!   property says (removed = proper ancestors of the new command; uncommitted address or
//!   ancestor-or-equal of an entry: unchanged; full: new entry dropped).
//! * Model tie: `drv_c20` replays the same segment layout and address sequence; compared line by
//!   line on the cache contents in vector order.
//!
//! Requests: see lean/Driver/C20.lean.

#[path = "c11.rs"]
#[allow(dead_code)]
mod c11;

use aranya_runtime::{Address, Location, MaxCut, PeerCache, StorageProvider, TraversalBuffer, PEER_HEAD_MAX};
use c11::{build, cmd_id, gen_plan, plan_from_lines, seg_len, show_list, Built, Mirror, PPrior, PlanSeg, Q};
use vh::{fnv, Args, Recorder, Rng};

/// many parallel branches, so that more than `PEER_HEAD_MAX` incomparable commands exist
fn gen_wide(rng: &mut Rng, big: bool) -> (String, Vec<PlanSeg>) {
    let mut m = Mirror::default();
    let mut plan = vec![];
    let mut next = 0u64;
    let mut fresh = |n: usize| -> Vec<u64> {
        let v: Vec<u64> = (next..next + n as u64).collect();
        next += n as u64;
        v
    };
    let ids = fresh(rng.range(1, 3) as usize);
    let mut prev: Option<usize> = None;
    for &id in &ids {
        prev = Some(m.add(id, prev.into_iter().collect()));
    }
    plan.push(PlanSeg { prior: PPrior::None, lca: None, ids });
    let branches = rng.range(3, if big { 24 } else { 16 });
    let lmode = rng.below(3) as u8;
    for _ in 0..branches {
        // fork somewhere, then a few segments
        let mut at = rng.below(m.n() as u64) as usize;
        for _ in 0..rng.range(1, 4) {
            let ids = fresh(seg_len(rng, lmode).min(4));
            let parent = at;
            let mut p = at;
            for &id in &ids {
                p = m.add(id, vec![p]);
            }
            at = p;
            plan.push(PlanSeg { prior: PPrior::Single(m.ids[parent]), lca: None, ids });
        }
    }
    // a few merges on top
    for _ in 0..rng.below(4) {
        let heads = m.frontier();
        if heads.len() < 2 {
            break;
        }
        let (l, r) = (*rng.pick(&heads), *rng.pick(&heads));
        if l == r || m.comparable(l, r) {
            continue;
        }
        let lca = m.dominators(l, r)[0];
        let ids = fresh(rng.range(1, 2) as usize);
        let mut p = m.add(ids[0], vec![l, r]);
        for &id in &ids[1..] {
            p = m.add(id, vec![p]);
        }
        plan.push(PlanSeg { prior: PPrior::Merge(m.ids[l], m.ids[r]), lca: Some(m.ids[lca]), ids });
    }
    ("wide".into(), plan)
}

fn show_cache(b: &Built, c: &PeerCache) -> (String, Vec<Option<usize>>) {
    let mut parts = vec![];
    let mut nodes = vec![];
    for h in c.heads() {
        // id → small integer through the mirror (ids of the harness are hashes of small integers)
        let n = b.by_loc.get(&(h.segment.get(), h.max_cut.get())).copied();
        let small = (0..b.mirror.n()).find(|&i| cmd_id(b.mirror.ids[i]) == h.id).map(|i| b.mirror.ids[i]);
        parts.push(format!(
            "{}@{}:{}",
            small.map_or("?".to_string(), |x| x.to_string()),
            h.segment.get(),
            h.max_cut.get()
        ));
        // the entry is sound only if the command at that location is the one with that id
        nodes.push(n.filter(|&i| Some(b.mirror.ids[i]) == small));
    }
    (format!("[{}]", parts.join(",")), nodes)
}

struct Run<'a> {
    q: Q<'a>,
    cache: PeerCache,
    /// nodes of the cache as of the previous step (oracle state = the real cache, decoded)
    prev: Vec<usize>,
}

impl Run<'_> {
    fn committed(&self, x: usize) -> bool {
        let m = &self.q.b.mirror;
        self.q.heads.iter().any(|&h| m.anc_self(x, h))
    }

    fn exec(&mut self, rec: &mut Recorder, line: &str) {
        let t: Vec<&str> = line.split(' ').collect();
        match t.as_slice() {
            ["cachenew"] => {
                self.cache = PeerCache::new();
                self.prev.clear();
                rec.line(line, "ok");
            }
            ["add", id, mc] => {
                let (Ok(id), Ok(mc)) = (id.parse::<u64>(), mc.parse::<u64>()) else {
                    return rec.line(line, "bad-op");
                };
                let graph = self.q.b.graph;
                let addr = Address { id: cmd_id(id), max_cut: MaxCut::new(mc) };
                let res = {
                    let storage = self.q.b.provider.get_storage(graph).unwrap();
                    let cache = &mut self.cache;
                    let buf = &mut self.q.buf;
                    vh::catch(std::panic::AssertUnwindSafe(|| cache.add_command(storage, addr, buf)))
                };
                let (shown, nodes) = show_cache(self.q.b, &self.cache);
                match &res {
                    Ok(Ok(())) => rec.line(line, shown.clone()),
                    Ok(Err(_)) => rec.line(line, "err"),
                    Err(p) => {
                        rec.panics.push(format!("{line}: {p}"));
                        rec.line(line, "panic");
                    }
                }
                let m = &self.q.b.mirror;
                let mut fails = vec![];
                if !matches!(res, Ok(Ok(()))) {
                    fails.push(format!("add_command failed: {:?}", res.map(|r| r.map_err(|e| e.to_string()))));
                }
                // ---- invariant
                if nodes.len() > PEER_HEAD_MAX {
                    fails.push(format!("{} entries > PEER_HEAD_MAX", nodes.len()));
                }
                let mut after = vec![];
                for (k, n) in nodes.iter().enumerate() {
                    match n {
                        None => fails.push(format!("entry {k} of {shown} is not a command at its location")),
                        Some(x) => {
                            if !self.committed(*x) {
                                fails.push(format!("entry {k} of {shown} is not committed locally"));
                            }
                            after.push(*x);
                        }
                    }
                }
                for (i, &x) in after.iter().enumerate() {
                    for &y in &after[i + 1..] {
                        if x == y || m.comparable(x, y) {
                            fails.push(format!("entries of {shown} are ancestor-related or equal"));
                        }
                    }
                }
                // ---- step
                let before = self.prev.clone();
                let target = m.by_id.get(&id).copied().filter(|&x| m.mc[x] == mc && self.committed(x));
                let expect: Vec<usize> = match target {
                    None => {
                        rec.count("add:not-committed");
                        before.clone()
                    }
                    Some(x) => {
                        let kept: Vec<usize> = before.iter().copied().filter(|&o| !(o != x && m.anc_self(o, x))).collect();
                        let blocked = before.iter().any(|&o| m.anc_self(x, o));
                        if blocked {
                            rec.count("add:blocked(entry-or-ancestor-of-entry)");
                            if kept != before {
                                fails.push("blocked add would remove entries: cache was not an antichain".into());
                            }
                            before.clone()
                        } else if kept.len() < PEER_HEAD_MAX {
                            rec.count(if kept.len() < before.len() { "add:replaces-ancestors" } else { "add:appended" });
                            let mut v = kept;
                            v.push(x);
                            v
                        } else {
                            rec.count("add:dropped-full");
                            kept
                        }
                    }
                };
                if after.len() == nodes.len() && after != expect {
                    let sh = |v: &[usize]| v.iter().map(|&i| m.ids[i].to_string()).collect::<Vec<_>>().join(",");
                    fails.push(format!("step: cache [{}] + {} → [{}], expected [{}]", sh(&before), id, sh(&after), sh(&expect)));
                }
                self.prev = after;
                if self.prev.len() == PEER_HEAD_MAX {
                    rec.count("state:full");
                }
                for f in fails {
                    rec.oracle_fail(f);
                }
            }
            _ => {
                // store requests (`heads` ...)
                self.q.exec(rec, line);
            }
        }
    }
}

fn gen_ops(rng: &mut Rng, b: &Built, big: bool) -> Vec<String> {
    let m = &b.mirror;
    let n = m.n();
    let mut ops = vec![];
    // committed heads: the whole frontier, or the maximal elements of a random subset
    let full: Vec<Location> = m.frontier().iter().map(|&h| b.loc[h]).collect();
    let partial = |rng: &mut Rng| -> Vec<Location> {
        let k = rng.range(1, 6) as usize;
        let pick: Vec<usize> = (0..k).map(|_| rng.below(n as u64) as usize).collect();
        let mut maximal: Vec<usize> =
            pick.iter().copied().filter(|&a| !pick.iter().any(|&c| c != a && m.anc_self(a, c))).collect();
        maximal.sort();
        maximal.dedup();
        maximal.iter().map(|&h| b.loc[h]).collect()
    };
    let fill = rng.chance(1, 3);
    let grow = !fill && rng.chance(1, 3);
    let first = if grow || (!fill && rng.chance(1, 3)) { partial(rng) } else { full.clone() };
    ops.push(format!("heads {}", show_list(&first)));
    ops.push("cachenew".into());
    if fill {
        // fill the cache with incomparable commands: one per branch tip (or a few below it)
        let mut fr = m.frontier();
        rng.shuffle(&mut fr);
        for &h in fr.iter().take(PEER_HEAD_MAX + 4) {
            let mut x = h;
            for _ in 0..rng.below(3) {
                if m.parents[x].len() == 1 && rng.chance(1, 2) {
                    x = m.parents[x][0];
                }
            }
            ops.push(format!("add {} {}", m.ids[x], m.mc[x]));
        }
    }
    let len = rng.range(8, if big { 90 } else { 45 });
    // a shadow of the cache for steering only (the oracle does not use it)
    let mut recent: Vec<usize> = vec![];
    for i in 0..len {
        if grow && i == len / 2 {
            // the committed graph grows: commit the whole frontier (a superset)
            ops.push(format!("heads {}", show_list(&full)));
        }
        let k = rng.below(100);
        let x = rng.below(n as u64) as usize;
        let op = match k {
            0..=54 => format!("add {} {}", m.ids[x], m.mc[x]),
            55..=62 => format!("add {} {}", m.ids[x], m.mc[x] + 1), // wrong max cut
            63..=67 => format!("add {} {}", 1_000_000 + rng.below(100), m.mc[x]), // unknown id
            68..=79 if !recent.is_empty() => {
                // an ancestor-or-self of something added recently
                let r = *rng.pick(&recent);
                let cands: Vec<usize> = (0..n).filter(|&a| m.anc_self(a, r)).collect();
                let a = *rng.pick(&cands);
                format!("add {} {}", m.ids[a], m.mc[a])
            }
            80..=91 if !recent.is_empty() => {
                // a descendant of something added recently
                let r = *rng.pick(&recent);
                let cands: Vec<usize> = (0..n).filter(|&d| m.anc_self(r, d)).collect();
                let d = *rng.pick(&cands);
                format!("add {} {}", m.ids[d], m.mc[d])
            }
            _ => {
                // a frontier head (widens the antichain quickly)
                let h = *rng.pick(&m.frontier());
                format!("add {} {}", m.ids[h], m.mc[h])
            }
        };
        if let Some(idtok) = op.split(' ').nth(1) {
            if let Some(&nd) = idtok.parse::<u64>().ok().and_then(|id| m.by_id.get(&id)) {
                recent.push(nd);
                if recent.len() > 6 {
                    recent.remove(0);
                }
            }
        }
        ops.push(op);
    }
    ops
}

fn run_case(rec: &mut Recorder, plan: &[PlanSeg], ops: Option<Vec<String>>, rng: &mut Rng, big: bool) {
    let mut b = match build(rec, plan) {
        Ok(b) => b,
        Err(e) => {
            rec.oracle_fail(format!("building the storage failed: {e}"));
            return;
        }
    };
    let ops = ops.unwrap_or_else(|| gen_ops(rng, &b, big));
    rec.count_n("commands", b.mirror.n() as u64);
    rec.count_n("segments", b.segs.len() as u64);
    rec.count_n("adds", ops.iter().filter(|o| o.starts_with("add ")).count() as u64);
    let mut run = Run { q: Q { b: &mut b, buf: TraversalBuffer::new(), heads: vec![] }, cache: PeerCache::new(), prev: vec![] };
    for o in &ops {
        run.exec(rec, o);
    }
}

fn main() {
    let args = Args::parse();
    vh::quiet_panics();
    let mut rec = Recorder::new(&args.out);
    let mut rng = Rng::new(args.seed);
    if let Some(p) = &args.replay {
        let lines = vh::read_replay_input(p);
        rec.begin_case();
        match plan_from_lines(&lines) {
            Ok((plan, ops)) if !plan.is_empty() => run_case(&mut rec, &plan, Some(ops), &mut rng, false),
            Ok(_) => rec.notes.push("replay: no segments in input".into()),
            Err(e) => rec.notes.push(format!("replay: cannot parse input: {e}")),
        }
        rec.finish(args.seed, &args.tier);
        return;
    }
    let big = args.thorough() || args.search;
    let cases = args.budget(700, 8000);
    for c in 0..cases {
        let (name, plan) = if rng.chance(3, 5) { gen_wide(&mut rng, big) } else { gen_plan(&mut rng, false) };
        rec.begin_case();
        rec.count(&format!("shape:{}", name.split('/').next().unwrap()));
        if plan.len() >= 3 {
            rec.nontrivial(fnv(&format!("{plan:?}")));
        }
        if c < 3 {
            rec.sample(format!("{name}: {} segments", plan.len()));
        }
        run_case(&mut rec, &plan, None, &mut rng, big);
    }
    // malformed stream
    rec.begin_case();
    for l in ["add", "add x 1", "add 1", "cachenew 3", "frob 1 2"] {
        rec.line(l, "bad-op");
        rec.count("malformed");
    }
    rec.finish(args.seed, &args.tier);
}
