//! C26 — `Machine::{serialize_struct, deserialize_struct}` (aranya-policy-vm/src/serialize.rs)
//! vs the Lean model (`drv_c26`), plus the S-level oracle: an independent reference
//! encoder/decoder written against the postcard wire specification (primitives via the `postcard`
//! crate) and the clauses of the property.
//!
//! Request lines (see lean/Driver/C26.lean for the token syntax):
//!   defs …            install a schema            -> ok
//!   ser <value>       Machine::serialize_struct   -> ok <hex> | err <kind>
//!   de <name> <hex>   Machine::deserialize_struct -> ok <value> | err <kind>
//! A case is one `defs` line followed by `ser`/`de` lines.

use std::collections::BTreeMap;

use aranya_id::BaseId;
use aranya_policy_vm::{
    EnumDef, Field, Identifier, Machine, ResultTypeKind, Struct, StructDef, Text, TypeKind, Value,
};
use vh::{fnv, hex, unhex, Args, Recorder, Rng};

// ------------------------------------------------------------------ mirror types

#[derive(Clone, Debug, PartialEq, Eq)]
enum Ty {
    Unit,
    Str,
    Bytes,
    Int,
    Bool,
    Id,
    Struct(u32),
    Enum(u32),
    Opt(Box<Ty>),
    Never,
    Res(Box<Ty>, Box<Ty>),
}

/// mirror of `Value`; struct fields are kept sorted by field number (= BTreeMap order)
#[derive(Clone, Debug, PartialEq, Eq)]
enum V {
    Unit,
    Int(i64),
    Bool(bool),
    Str(Vec<u8>),
    Bytes(Vec<u8>),
    Struct(u32, Vec<(u32, V)>),
    Id(Vec<u8>),
    Enum(u32, i64),
    None,
    Some(Box<V>),
    Ok(Box<V>),
    Err(Box<V>),
    Internal,
}

#[derive(Clone, Debug, Default)]
struct Defs {
    structs: Vec<(u32, Vec<(u32, Ty)>)>,
    enums: Vec<(u32, Vec<i64>)>,
}

impl Defs {
    fn find_struct(&self, n: u32) -> Option<&Vec<(u32, Ty)>> {
        self.structs.iter().find(|d| d.0 == n).map(|d| &d.1)
    }
    fn find_enum(&self, n: u32) -> Option<&Vec<i64>> {
        self.enums.iter().find(|d| d.0 == n).map(|d| &d.1)
    }
}

// ------------------------------------------------------------------ names

fn ident(prefix: char, n: u32) -> Identifier {
    format!("{prefix}{n:05}").parse().expect("identifier")
}
fn ident_num(i: &Identifier) -> u32 {
    i.as_str()[1..].parse().expect("identifier number")
}
fn num_in(s: &str) -> u32 {
    // first run of digits in a Display-ed error message
    let d: String = s.chars().skip_while(|c| !c.is_ascii_digit()).take_while(|c| c.is_ascii_digit()).collect();
    d.parse().unwrap_or(0)
}

// ------------------------------------------------------------------ tokens

fn show_ty(t: &Ty, o: &mut Vec<String>) {
    match t {
        Ty::Unit => o.push("U".into()),
        Ty::Str => o.push("S".into()),
        Ty::Bytes => o.push("Y".into()),
        Ty::Int => o.push("I".into()),
        Ty::Bool => o.push("B".into()),
        Ty::Id => o.push("D".into()),
        Ty::Never => o.push("N".into()),
        Ty::Struct(n) => {
            o.push("T".into());
            o.push(n.to_string())
        }
        Ty::Enum(n) => {
            o.push("E".into());
            o.push(n.to_string())
        }
        Ty::Opt(t) => {
            o.push("O".into());
            show_ty(t, o)
        }
        Ty::Res(a, b) => {
            o.push("R".into());
            show_ty(a, o);
            show_ty(b, o)
        }
    }
}

fn show_val(v: &V, o: &mut Vec<String>) {
    match v {
        V::Unit => o.push("u".into()),
        V::Int(x) => {
            o.push("i".into());
            o.push(x.to_string())
        }
        V::Bool(b) => {
            o.push("b".into());
            o.push((*b as u8).to_string())
        }
        V::Str(s) => {
            o.push("s".into());
            o.push(hex(s))
        }
        V::Bytes(s) => {
            o.push("y".into());
            o.push(hex(s))
        }
        V::Id(s) => {
            o.push("d".into());
            o.push(hex(s))
        }
        V::Enum(n, x) => {
            o.push("e".into());
            o.push(n.to_string());
            o.push(x.to_string())
        }
        V::None => o.push("n".into()),
        V::Some(v) => {
            o.push("o".into());
            show_val(v, o)
        }
        V::Ok(v) => {
            o.push("k".into());
            show_val(v, o)
        }
        V::Err(v) => {
            o.push("x".into());
            show_val(v, o)
        }
        V::Internal => o.push("z".into()),
        V::Struct(n, fs) => {
            o.push("t".into());
            o.push(n.to_string());
            o.push(fs.len().to_string());
            for (f, v) in fs {
                o.push(f.to_string());
                show_val(v, o);
            }
        }
    }
}

fn val_str(v: &V) -> String {
    let mut o = vec![];
    show_val(v, &mut o);
    o.join(" ")
}

fn defs_line(d: &Defs) -> String {
    let mut o = vec!["defs".to_string(), d.structs.len().to_string()];
    for (n, items) in &d.structs {
        o.push(n.to_string());
        o.push(items.len().to_string());
        for (f, t) in items {
            o.push(f.to_string());
            show_ty(t, &mut o);
        }
    }
    o.push(d.enums.len().to_string());
    for (n, vs) in &d.enums {
        o.push(n.to_string());
        o.push(vs.len().to_string());
        for v in vs {
            o.push(v.to_string());
        }
    }
    o.join(" ")
}

struct Toks<'a> {
    t: Vec<&'a str>,
    i: usize,
}
impl<'a> Toks<'a> {
    fn next(&mut self) -> Option<&'a str> {
        let r = self.t.get(self.i).copied();
        self.i += 1;
        r
    }
    fn num<T: std::str::FromStr>(&mut self) -> Option<T> {
        self.next()?.parse().ok()
    }
    fn done(&self) -> bool {
        self.i >= self.t.len()
    }
}

fn parse_ty(t: &mut Toks) -> Option<Ty> {
    Some(match t.next()? {
        "U" => Ty::Unit,
        "S" => Ty::Str,
        "Y" => Ty::Bytes,
        "I" => Ty::Int,
        "B" => Ty::Bool,
        "D" => Ty::Id,
        "N" => Ty::Never,
        "T" => Ty::Struct(t.num()?),
        "E" => Ty::Enum(t.num()?),
        "O" => Ty::Opt(Box::new(parse_ty(t)?)),
        "R" => {
            let a = parse_ty(t)?;
            let b = parse_ty(t)?;
            Ty::Res(Box::new(a), Box::new(b))
        }
        _ => return None,
    })
}

fn parse_val(t: &mut Toks) -> Option<V> {
    Some(match t.next()? {
        "u" => V::Unit,
        "i" => V::Int(t.num()?),
        "b" => V::Bool(t.num::<u8>()? == 1),
        "s" => V::Str(unhex(t.next()?)?),
        "y" => V::Bytes(unhex(t.next()?)?),
        "d" => V::Id(unhex(t.next()?)?),
        "e" => {
            let n = t.num()?;
            V::Enum(n, t.num()?)
        }
        "n" => V::None,
        "o" => V::Some(Box::new(parse_val(t)?)),
        "k" => V::Ok(Box::new(parse_val(t)?)),
        "x" => V::Err(Box::new(parse_val(t)?)),
        "z" => V::Internal,
        "t" => {
            let n = t.num()?;
            let k: usize = t.num()?;
            let mut fs = vec![];
            for _ in 0..k {
                let f = t.num()?;
                fs.push((f, parse_val(t)?));
            }
            V::Struct(n, fs)
        }
        _ => return None,
    })
}

fn parse_defs(t: &mut Toks) -> Option<Defs> {
    let mut d = Defs::default();
    let ns: usize = t.num()?;
    for _ in 0..ns {
        let n = t.num()?;
        let k: usize = t.num()?;
        let mut items = vec![];
        for _ in 0..k {
            let f = t.num()?;
            items.push((f, parse_ty(t)?));
        }
        d.structs.push((n, items));
    }
    let ne: usize = t.num()?;
    for _ in 0..ne {
        let n = t.num()?;
        let k: usize = t.num()?;
        let mut vs = vec![];
        for _ in 0..k {
            vs.push(t.num()?);
        }
        d.enums.push((n, vs));
    }
    Some(d)
}

// ------------------------------------------------------------------ to / from the real types

fn real_ty(t: &Ty) -> TypeKind {
    match t {
        Ty::Unit => TypeKind::Unit,
        Ty::Str => TypeKind::String,
        Ty::Bytes => TypeKind::Bytes,
        Ty::Int => TypeKind::Int,
        Ty::Bool => TypeKind::Bool,
        Ty::Id => TypeKind::Id,
        Ty::Never => TypeKind::Never,
        Ty::Struct(n) => TypeKind::Struct(ident('S', *n)),
        Ty::Enum(n) => TypeKind::Enum(ident('E', *n)),
        Ty::Opt(t) => TypeKind::Optional(Box::new(real_ty(t))),
        Ty::Res(a, b) => TypeKind::Result(Box::new(ResultTypeKind { ok: real_ty(a), err: real_ty(b) })),
    }
}

fn real_machine(d: &Defs) -> Machine {
    let mut m = Machine::new([]);
    for (n, items) in &d.structs {
        // first definition with a name wins in the model: do not overwrite
        let name = ident('S', *n);
        if m.struct_defs.contains_key(&name) {
            continue;
        }
        m.struct_defs.insert(StructDef {
            name,
            items: items.iter().map(|(f, t)| Field { name: ident('f', *f), ty: real_ty(t) }).collect(),
        });
    }
    for (n, vs) in &d.enums {
        let name = ident('E', *n);
        if m.enum_defs.contains_key(&name) {
            continue;
        }
        m.enum_defs.insert(EnumDef {
            name,
            variants: vs.iter().enumerate().map(|(i, v)| (ident('v', i as u32), *v)).collect(),
        });
    }
    m
}

/// `None` if the mirror value has no real counterpart (invalid text, id of the wrong size)
fn real_val(v: &V) -> Option<Value> {
    Some(match v {
        V::Unit => Value::Unit,
        V::Int(x) => Value::Int(*x),
        V::Bool(b) => Value::Bool(*b),
        V::Str(s) => Value::String(std::str::from_utf8(s).ok()?.parse::<Text>().ok()?),
        V::Bytes(b) => Value::Bytes(b.clone()),
        V::Struct(n, fs) => Value::Struct(real_struct(*n, fs)?),
        V::Id(b) => Value::Id(BaseId::from_bytes(<[u8; 32]>::try_from(b.as_slice()).ok()?)),
        V::Enum(n, x) => Value::Enum(ident('E', *n), *x),
        V::None => Value::Option(None),
        V::Some(v) => Value::Option(Some(Box::new(real_val(v)?))),
        V::Ok(v) => Value::Result(Ok(Box::new(real_val(v)?))),
        V::Err(v) => Value::Result(Err(Box::new(real_val(v)?))),
        V::Internal => Value::Identifier(ident('z', 0)),
    })
}

fn real_struct(n: u32, fs: &[(u32, V)]) -> Option<Struct> {
    let mut m = BTreeMap::new();
    for (f, v) in fs {
        m.insert(ident('f', *f), real_val(v)?);
    }
    Some(Struct { name: ident('S', n), fields: m })
}

fn mirror_val(v: &Value) -> V {
    match v {
        Value::Unit => V::Unit,
        Value::Int(x) => V::Int(*x),
        Value::Bool(b) => V::Bool(*b),
        Value::String(s) => V::Str(s.as_str().as_bytes().to_vec()),
        Value::Bytes(b) => V::Bytes(b.clone()),
        Value::Struct(s) => mirror_struct(s),
        Value::Id(i) => V::Id(i.as_bytes().to_vec()),
        Value::Enum(n, x) => V::Enum(ident_num(n), *x),
        Value::Option(None) => V::None,
        Value::Option(Some(v)) => V::Some(Box::new(mirror_val(v))),
        Value::Result(Ok(v)) => V::Ok(Box::new(mirror_val(v))),
        Value::Result(Err(v)) => V::Err(Box::new(mirror_val(v))),
        Value::Identifier(_) | Value::Fact(_) => V::Internal,
    }
}

fn mirror_struct(s: &Struct) -> V {
    // BTreeMap iteration order = identifier order = numeric order (fixed-width numbers)
    V::Struct(ident_num(&s.name), s.fields.iter().map(|(k, v)| (ident_num(k), mirror_val(v))).collect())
}

// ------------------------------------------------------------------ reference (S level)

#[derive(Clone, Debug, PartialEq, Eq)]
enum RefErr {
    UnknownEnum(u32),
    UnknownStruct(u32),
    End,
    Trailing,
    Bad,
    Depth,
}

fn show_de_err(e: &RefErr) -> String {
    match e {
        RefErr::UnknownEnum(n) => format!("err unknown-enum {n}"),
        RefErr::UnknownStruct(n) => format!("err unknown-struct {n}"),
        RefErr::End => "err unexpected-end".into(),
        RefErr::Trailing => "err trailing-data".into(),
        RefErr::Bad => "err bad-input".into(),
        RefErr::Depth => "err depth".into(),
    }
}

fn pc<'a, T: serde::Deserialize<'a>>(b: &'a [u8]) -> Result<(T, &'a [u8]), RefErr> {
    postcard::take_from_bytes::<T>(b).map_err(|e| match e {
        postcard::Error::DeserializeUnexpectedEnd => RefErr::End,
        _ => RefErr::Bad,
    })
}

fn ref_tag(b: &[u8]) -> Result<(u8, &[u8]), RefErr> {
    match b.split_first() {
        None => Err(RefErr::End),
        Some((t, r)) if *t <= 1 => Ok((*t, r)),
        Some(_) => Err(RefErr::Bad),
    }
}

/// reference decoder: the postcard format of "the corresponding Rust type" plus the rejection
/// clauses of the property
fn ref_decode<'a>(d: &Defs, t: &Ty, b: &'a [u8], depth: usize) -> Result<(V, &'a [u8]), RefErr> {
    match t {
        Ty::Unit => Ok((V::Unit, b)),
        Ty::Int => pc::<i64>(b).map(|(x, r)| (V::Int(x), r)),
        Ty::Bool => pc::<bool>(b).map(|(x, r)| (V::Bool(x), r)),
        Ty::Bytes => pc::<&[u8]>(b).map(|(x, r)| (V::Bytes(x.to_vec()), r)),
        Ty::Str => {
            let (x, r) = pc::<&[u8]>(b)?;
            match std::str::from_utf8(x) {
                Ok(s) if !s.contains('\0') => Ok((V::Str(x.to_vec()), r)),
                _ => Err(RefErr::Bad),
            }
        }
        Ty::Id => {
            let (len, r) = b.split_first().ok_or(RefErr::End)?;
            if *len != 32 {
                return Err(RefErr::Bad);
            }
            if r.len() < 32 {
                return Err(RefErr::End);
            }
            Ok((V::Id(r[..32].to_vec()), &r[32..]))
        }
        Ty::Struct(n) => ref_decode_struct(d, *n, b, depth),
        Ty::Enum(n) => {
            let vs = d.find_enum(*n).ok_or(RefErr::UnknownEnum(*n))?;
            let (x, r) = pc::<i64>(b)?;
            if vs.contains(&x) {
                Ok((V::Enum(*n, x), r))
            } else {
                Err(RefErr::Bad)
            }
        }
        Ty::Opt(t) => {
            let (tag, r) = ref_tag(b)?;
            if tag == 0 {
                Ok((V::None, r))
            } else {
                ref_decode(d, t, r, depth).map(|(v, r)| (V::Some(Box::new(v)), r))
            }
        }
        Ty::Res(ok, err) => {
            let (tag, r) = ref_tag(b)?;
            if tag == 0 {
                ref_decode(d, ok, r, depth).map(|(v, r)| (V::Ok(Box::new(v)), r))
            } else {
                ref_decode(d, err, r, depth).map(|(v, r)| (V::Err(Box::new(v)), r))
            }
        }
        Ty::Never => Err(RefErr::Bad),
    }
}

fn ref_decode_struct<'a>(d: &Defs, n: u32, mut b: &'a [u8], depth: usize) -> Result<(V, &'a [u8]), RefErr> {
    let items = d.find_struct(n).ok_or(RefErr::UnknownStruct(n))?;
    if depth == 0 {
        return Err(RefErr::Depth);
    }
    let mut m = BTreeMap::new();
    for (f, t) in items {
        let (v, r) = ref_decode(d, t, b, depth - 1)?;
        b = r;
        m.insert(*f, v);
    }
    Ok((V::Struct(n, m.into_iter().collect()), b))
}

fn ref_deserialize(d: &Defs, n: u32, b: &[u8]) -> Result<V, RefErr> {
    let (v, r) = ref_decode_struct(d, n, b, d.structs.len() + 1)?;
    if r.is_empty() {
        Ok(v)
    } else {
        Err(RefErr::Trailing)
    }
}

/// does the value match the type ("matches its schema" in the property)?
fn ref_fits(d: &Defs, v: &V, t: &Ty) -> bool {
    match (v, t) {
        (V::Unit, Ty::Unit) | (V::Int(_), Ty::Int) | (V::Bool(_), Ty::Bool) | (V::Bytes(_), Ty::Bytes) => true,
        (V::Str(s), Ty::Str) => std::str::from_utf8(s).map_or(false, |s| !s.contains('\0')),
        (V::Id(b), Ty::Id) => b.len() == 32,
        (V::Enum(n, x), Ty::Enum(m)) => n == m && d.find_enum(*n).map_or(false, |vs| vs.contains(x)),
        (V::None, Ty::Opt(_)) => true,
        (V::Some(v), Ty::Opt(t)) => ref_fits(d, v, t),
        (V::Ok(v), Ty::Res(t, _)) => ref_fits(d, v, t),
        (V::Err(v), Ty::Res(_, t)) => ref_fits(d, v, t),
        (V::Struct(n, fs), Ty::Struct(m)) => {
            n == m
                && d.find_struct(*n).map_or(false, |items| {
                    let mut names: Vec<u32> = items.iter().map(|x| x.0).collect();
                    names.sort();
                    let n0 = names.len();
                    names.dedup();
                    let keys: Vec<u32> = fs.iter().map(|x| x.0).collect();
                    n0 == names.len()
                        && keys == names
                        && fs.iter().all(|(k, v)| ref_fits(d, v, &items.iter().find(|x| x.0 == *k).unwrap().1))
                })
        }
        _ => false,
    }
}

/// what a byte of a reference encoding is (for targeted mutations)
#[derive(Clone, Debug, PartialEq, Eq)]
enum Mark {
    OptTag(usize),
    ResTag(usize),
    /// enum name, span of the varint
    EnumVal(u32, usize, usize),
    IntVal(usize, usize),
    /// span of length varint + content
    Str(usize, usize),
    Bytes(usize, usize),
    IdLen(usize),
}

/// reference encoder for values that fit (primitives through the `postcard` crate)
fn ref_encode(d: &Defs, v: &V, out: &mut Vec<u8>, marks: &mut Vec<Mark>) {
    let s = out.len();
    match v {
        V::Unit | V::Internal => {}
        V::Int(x) => {
            out.extend(postcard::to_allocvec(x).unwrap());
            marks.push(Mark::IntVal(s, out.len()));
        }
        V::Bool(b) => out.extend(postcard::to_allocvec(b).unwrap()),
        V::Str(b) => {
            out.extend(postcard::to_allocvec(std::str::from_utf8(b).unwrap()).unwrap());
            marks.push(Mark::Str(s, out.len()));
        }
        V::Bytes(b) => {
            out.extend(postcard::to_allocvec(b.as_slice()).unwrap());
            marks.push(Mark::Bytes(s, out.len()));
        }
        V::Id(b) => {
            marks.push(Mark::IdLen(s));
            out.extend(postcard::to_allocvec(<&[u8; 32]>::try_from(b.as_slice()).unwrap().as_slice()).unwrap());
        }
        V::Enum(n, x) => {
            out.extend(postcard::to_allocvec(x).unwrap());
            marks.push(Mark::EnumVal(*n, s, out.len()));
        }
        V::None => {
            marks.push(Mark::OptTag(s));
            out.extend(postcard::to_allocvec(&Option::<()>::None).unwrap());
        }
        V::Some(v) => {
            marks.push(Mark::OptTag(s));
            out.extend(postcard::to_allocvec(&Some(())).unwrap());
            ref_encode(d, v, out, marks);
        }
        V::Ok(v) => {
            marks.push(Mark::ResTag(s));
            out.extend(postcard::to_allocvec(&Result::<(), ()>::Ok(())).unwrap());
            ref_encode(d, v, out, marks);
        }
        V::Err(v) => {
            marks.push(Mark::ResTag(s));
            out.extend(postcard::to_allocvec(&Result::<(), ()>::Err(())).unwrap());
            ref_encode(d, v, out, marks);
        }
        V::Struct(n, fs) => {
            for (f, _) in d.find_struct(*n).unwrap() {
                ref_encode(d, &fs.iter().find(|x| x.0 == *f).unwrap().1, out, marks);
            }
        }
    }
}

// ------------------------------------------------------------------ running one case

fn classify_de_err(dbg: &str, disp: &str) -> String {
    if dbg.starts_with("UnknownEnum") {
        format!("err unknown-enum {}", num_in(disp))
    } else if dbg.starts_with("UnknownStruct") {
        format!("err unknown-struct {}", num_in(disp))
    } else if dbg.starts_with("UnexpectedEnd") {
        "err unexpected-end".into()
    } else if dbg.starts_with("TrailingData") {
        "err trailing-data".into()
    } else if dbg.starts_with("BadInput") {
        "err bad-input".into()
    } else {
        format!("err other:{dbg}")
    }
}

fn classify_ser_err(dbg: &str, disp: &str) -> String {
    if dbg.starts_with("UnknownStruct") {
        format!("err unknown-struct {}", num_in(disp))
    } else if dbg.starts_with("MissingField") {
        format!("err missing-field {}", num_in(disp))
    } else if dbg.starts_with("FieldLengthMismatch") {
        "err field-length-mismatch".into()
    } else if dbg.starts_with("InternalValue") {
        "err internal-value".into()
    } else {
        format!("err other:{dbg}")
    }
}

fn run_case(rec: &mut Recorder, lines: &[String]) {
    let mut defs = Defs::default();
    let mut machine = Machine::new([]);
    for line in lines {
        let toks: Vec<&str> = line.split(' ').filter(|s| !s.is_empty()).collect();
        let mut t = Toks { t: toks, i: 1 };
        match t.t[0] {
            "defs" => {
                defs = parse_defs(&mut t).filter(|_| t.done()).unwrap_or_else(|| panic!("bad defs line {line}"));
                machine = real_machine(&defs);
                rec.line(line.clone(), "ok");
            }
            "ser" => {
                let v = parse_val(&mut t).filter(|_| t.done()).unwrap_or_else(|| panic!("bad ser line {line}"));
                let V::Struct(n, fs) = &v else { panic!("ser needs a struct: {line}") };
                let s = real_struct(*n, fs).unwrap_or_else(|| panic!("value has no real counterpart: {line}"));
                let m = &machine;
                let res = vh::catch(std::panic::AssertUnwindSafe(|| m.serialize_struct(&s)));
                let fits = ref_fits(&defs, &v, &Ty::Struct(*n));
                match res {
                    Err(p) => {
                        rec.line(line.clone(), "panic");
                        rec.panics.push(format!("serialize_struct panicked ({p}) on `{line}`"));
                        rec.count("ser:panic");
                    }
                    Ok(Ok(bytes)) => {
                        rec.line(line.clone(), format!("ok {}", hex(&bytes)));
                        rec.count("ser:ok");
                        if fits {
                            // property: deserializing the serialization yields the same value
                            let back = vh::catch(std::panic::AssertUnwindSafe(|| m.deserialize_struct(ident('S', *n), &bytes)));
                            match back {
                                Ok(Ok(s2)) if s2 == s => {}
                                Ok(Ok(s2)) => rec.oracle_fail(format!(
                                    "round trip: `{line}` serialized to {} deserializes to a different value `{}`",
                                    hex(&bytes),
                                    val_str(&mirror_struct(&s2))
                                )),
                                Ok(Err(e)) => rec.oracle_fail(format!(
                                    "round trip: `{line}` serialized to {} but deserialization fails: {e:?}",
                                    hex(&bytes)
                                )),
                                Err(p) => rec.panics.push(format!("deserialize_struct panicked ({p}) on the serialization of `{line}`")),
                            }
                            // "same format as the corresponding Rust types with postcard"
                            let (mut want, mut marks) = (vec![], vec![]);
                            ref_encode(&defs, &v, &mut want, &mut marks);
                            if want != bytes {
                                rec.oracle_fail(format!(
                                    "encoding of `{line}`: {} differs from the postcard reference {}",
                                    hex(&bytes),
                                    hex(&want)
                                ));
                            }
                        }
                    }
                    Ok(Err(e)) => {
                        rec.line(line.clone(), classify_ser_err(&format!("{e:?}"), &e.to_string()));
                        rec.count("ser:err");
                        if fits {
                            rec.oracle_fail(format!("`{line}` matches its schema but serialize_struct fails: {e:?}"));
                        }
                    }
                }
            }
            "de" => {
                let n: u32 = t.num().unwrap_or_else(|| panic!("bad de line {line}"));
                let bytes = t.next().and_then(unhex).unwrap_or_else(|| panic!("bad de line {line}"));
                let m = &machine;
                let res = vh::catch(std::panic::AssertUnwindSafe(|| m.deserialize_struct(ident('S', n), &bytes)));
                let want = ref_deserialize(&defs, n, &bytes);
                match res {
                    Err(p) => {
                        rec.line(line.clone(), "panic");
                        rec.panics.push(format!("deserialize_struct panicked ({p}) on `{line}`"));
                        rec.count("de:panic");
                    }
                    Ok(Ok(s)) => {
                        let got = mirror_struct(&s);
                        rec.line(line.clone(), format!("ok {}", val_str(&got)));
                        rec.count("de:ok");
                        match &want {
                            Ok(w) if *w == got => {}
                            Ok(w) => rec.oracle_fail(format!("`{line}` decodes to `{}`, reference `{}`", val_str(&got), val_str(w))),
                            Err(e) => rec.oracle_fail(format!(
                                "`{line}` is accepted (`{}`) but must be rejected: {}",
                                val_str(&got),
                                show_de_err(e)
                            )),
                        }
                        // a decoded value re-serializes and decodes to itself
                        match vh::catch(std::panic::AssertUnwindSafe(|| m.serialize_struct(&s))) {
                            Ok(Ok(b2)) => match m.deserialize_struct(ident('S', n), &b2) {
                                Ok(s3) if s3 == s => {}
                                other => rec.oracle_fail(format!("`{line}`: decoded value does not round-trip: {other:?}")),
                            },
                            Ok(Err(e)) => rec.oracle_fail(format!("`{line}`: decoded value does not serialize: {e:?}")),
                            Err(p) => rec.panics.push(format!("serialize_struct panicked ({p}) on the value decoded from `{line}`")),
                        }
                    }
                    Ok(Err(e)) => {
                        let got = classify_de_err(&format!("{e:?}"), &e.to_string());
                        rec.count(&format!("de:{}", got.split(' ').nth(1).unwrap_or("?")));
                        match &want {
                            Ok(w) => rec.oracle_fail(format!("`{line}` is rejected ({got}) but is the valid encoding of `{}`", val_str(w))),
                            Err(e) if show_de_err(e) != got => {
                                rec.oracle_fail(format!("`{line}` fails with {got}, the property's clause gives {}", show_de_err(e)))
                            }
                            Err(_) => {}
                        }
                        rec.line(line.clone(), got);
                    }
                }
            }
            _ => panic!("bad request line {line}"),
        }
    }
}

// ------------------------------------------------------------------ generators

const INTS: &[i64] = &[
    0, 1, -1, 2, -2, 63, 64, -64, -65, 127, 128, 8191, 8192, -8192, -8193, 1 << 20, (1 << 31) - 1, 1 << 31, -(1 << 31),
    (1 << 32) + 1, 1 << 55, (1 << 56) - 1, 1 << 62, -(1 << 62), i64::MAX, i64::MIN, i64::MAX - 1, i64::MIN + 1,
];

fn gen_int(r: &mut Rng) -> i64 {
    match r.below(4) {
        0 => *r.pick(INTS),
        1 => r.below(300) as i64 - 150,
        2 => (r.next_u64() >> r.below(64)) as i64 * if r.chance(1, 2) { 1 } else { -1 },
        _ => r.next_u64() as i64,
    }
}

const CHARS: &[char] = &[
    'a', 'Z', '0', ' ', '\u{1}', '\u{7f}', '\u{80}', '\u{7ff}', '\u{800}', '\u{fff}', '\u{d7ff}', '\u{e000}', '\u{ffff}', '\u{10000}',
    '\u{10ffff}', 'é', '€', '😀',
];

fn gen_text(r: &mut Rng) -> Vec<u8> {
    let n = match r.below(10) {
        0 => 0,
        1 => 127,
        2 => 128,
        3 => r.range(200, 400),
        _ => r.range(1, 12),
    } as usize;
    let mut s = String::new();
    while s.len() < n {
        s.push(*r.pick(CHARS));
    }
    s.into_bytes()
}

fn gen_bytes(r: &mut Rng) -> Vec<u8> {
    let n = match r.below(10) {
        0 => 0,
        1 => 127,
        2 => 128,
        3 => r.range(200, 400),
        _ => r.range(1, 12),
    } as usize;
    r.bytes(n)
}

fn gen_ty(r: &mut Rng, depth: u32, structs: &[u32], enums: &[u32], allow_never: bool) -> Ty {
    let k = r.below(if depth == 0 { 70 } else { 100 });
    match k {
        0..=4 => Ty::Unit,
        5..=14 => Ty::Str,
        15..=22 => Ty::Bytes,
        23..=34 => Ty::Int,
        35..=41 => Ty::Bool,
        42..=49 => Ty::Id,
        50..=59 => {
            if structs.is_empty() {
                Ty::Int
            } else {
                Ty::Struct(*r.pick(structs))
            }
        }
        60..=68 => {
            if enums.is_empty() {
                Ty::Bool
            } else {
                Ty::Enum(*r.pick(enums))
            }
        }
        69 => {
            if allow_never {
                Ty::Never
            } else {
                Ty::Unit
            }
        }
        70..=84 => Ty::Opt(Box::new(gen_ty(r, depth - 1, structs, enums, allow_never))),
        _ => Ty::Res(
            Box::new(gen_ty(r, depth - 1, structs, enums, allow_never)),
            Box::new(gen_ty(r, depth - 1, structs, enums, allow_never)),
        ),
    }
}

/// acyclic schema: struct i only refers to structs with a larger index in the list
fn gen_defs(r: &mut Rng, big: bool) -> Defs {
    let ns = r.range(1, if big { 7 } else { 4 }) as usize;
    let ne = r.below(3) as usize;
    let mut snames: Vec<u32> = (1..=50).collect();
    r.shuffle(&mut snames);
    snames.truncate(ns);
    let mut enames: Vec<u32> = (1..=20).collect();
    r.shuffle(&mut enames);
    enames.truncate(ne);
    let mut d = Defs::default();
    for e in &enames {
        let k = r.range(1, 5) as usize;
        let mut vs: Vec<i64> = vec![];
        while vs.len() < k {
            let v = match r.below(4) {
                0 => vs.len() as i64,
                1 => gen_int(r),
                _ => r.below(10) as i64 - 3,
            };
            if !vs.contains(&v) {
                vs.push(v);
            }
        }
        d.enums.push((*e, vs));
    }
    for i in 0..ns {
        let nf = match r.below(10) {
            0 => 0,
            1 => r.range(6, 10),
            _ => r.range(1, 5),
        } as usize;
        let mut fnames: Vec<u32> = (1..=40).collect();
        r.shuffle(&mut fnames); // definition order is NOT name order
        fnames.truncate(nf);
        let later: Vec<u32> = snames[i + 1..].to_vec();
        let mut items = vec![];
        for f in &fnames {
            let never = r.chance(1, 30);
            items.push((*f, gen_ty(r, 2, &later, &enames, never)));
        }
        d.structs.push((snames[i], items));
    }
    d
}

/// a value that fits `t` (None if the type is uninhabited)
fn gen_val(r: &mut Rng, d: &Defs, t: &Ty) -> Option<V> {
    Some(match t {
        Ty::Unit => V::Unit,
        Ty::Str => V::Str(gen_text(r).into_iter().filter(|b| *b != 0).collect()),
        Ty::Bytes => V::Bytes(gen_bytes(r)),
        Ty::Int => V::Int(gen_int(r)),
        Ty::Bool => V::Bool(r.chance(1, 2)),
        Ty::Id => V::Id(match r.below(4) {
            0 => vec![0; 32],
            1 => vec![0xff; 32],
            _ => r.bytes(32),
        }),
        Ty::Never => return None,
        Ty::Enum(n) => V::Enum(*n, *r.pick(d.find_enum(*n)?)),
        Ty::Opt(t) => {
            if r.chance(1, 3) {
                V::None
            } else {
                match gen_val(r, d, t) {
                    Some(v) => V::Some(Box::new(v)),
                    None => V::None,
                }
            }
        }
        Ty::Res(a, b) => {
            let first_ok = r.chance(1, 2);
            let (x, y) = if first_ok { (a, b) } else { (b, a) };
            match gen_val(r, d, x) {
                Some(v) => {
                    if first_ok {
                        V::Ok(Box::new(v))
                    } else {
                        V::Err(Box::new(v))
                    }
                }
                None => {
                    let v = gen_val(r, d, y)?;
                    if first_ok {
                        V::Err(Box::new(v))
                    } else {
                        V::Ok(Box::new(v))
                    }
                }
            }
        }
        Ty::Struct(n) => {
            let items = d.find_struct(*n)?;
            let mut fs = vec![];
            for (f, t) in items {
                fs.push((*f, gen_val(r, d, t)?));
            }
            fs.sort_by_key(|x| x.0);
            V::Struct(*n, fs)
        }
    })
}

fn varint(mut n: u64) -> Vec<u8> {
    let mut o = vec![];
    loop {
        if n < 128 {
            o.push(n as u8);
            return o;
        }
        o.push((n as u8 & 0x7f) | 0x80);
        n >>= 7;
    }
}

/// ill-formed and boundary well-formed UTF-8 sequences (classified by `std::str::from_utf8` in
/// the reference, by `validUtf8` in the model)
const UTF8_PROBES: &[&[u8]] = &[
    &[0xff], &[0xfe], &[0xc0, 0x80], &[0xc1, 0xbf], &[0xe0, 0x80, 0x80], &[0xe0, 0x9f, 0xbf], &[0xed, 0xa0, 0x80],
    &[0xed, 0xbf, 0xbf], &[0xf0, 0x80, 0x80, 0x80], &[0xf0, 0x8f, 0xbf, 0xbf], &[0xf4, 0x90, 0x80, 0x80],
    &[0xf5, 0x80, 0x80, 0x80], &[0xf8, 0x88, 0x80, 0x80, 0x80], &[0x80], &[0xbf], &[0xc2], &[0xe2, 0x82], &[0xf0, 0x9f, 0x98],
    &[0xc2, 0x41], &[0xe2, 0x28, 0xa1], &[0xe2, 0x82, 0x28], &[0xf0, 0x28, 0x8c, 0xbc], &[0xf0, 0x90, 0x28, 0xbc],
    &[0xf0, 0x28, 0x8c, 0x28], &[0x61, 0x00, 0x62], &[0x00], &[0xc2, 0x80], &[0xdf, 0xbf], &[0xe0, 0xa0, 0x80],
    &[0xed, 0x9f, 0xbf], &[0xee, 0x80, 0x80], &[0xef, 0xbf, 0xbf], &[0xf0, 0x90, 0x80, 0x80], &[0xf4, 0x8f, 0xbf, 0xbf],
    &[0xf1, 0x80, 0x80, 0x80], &[0xf3, 0xbf, 0xbf, 0xbf], &[0xe1, 0x80, 0x80], &[0xec, 0xbf, 0xbf], &[0x7f], &[0x41, 0xc3, 0xa9],
];

fn varint_len_at(b: &[u8], s: usize) -> usize {
    let mut n = 1;
    while b[s + n - 1] & 0x80 != 0 {
        n += 1;
    }
    n
}

fn splice(b: &[u8], s: usize, e: usize, with: &[u8]) -> Vec<u8> {
    let mut o = b[..s].to_vec();
    o.extend_from_slice(with);
    o.extend_from_slice(&b[e..]);
    o
}

fn de_line(n: u32, b: &[u8]) -> String {
    format!("de {n} {}", hex(b))
}

/// one case: a schema, conforming values with their encodings, and malformed variants
fn gen_case(r: &mut Rng, rec: &mut Recorder, big: bool) -> Vec<String> {
    let d = gen_defs(r, big);
    let mut lines = vec![defs_line(&d)];
    let nvals = r.range(1, 3);
    for _ in 0..nvals {
        let (sname, _) = r.pick(&d.structs).clone();
        let Some(v) = gen_val(r, &d, &Ty::Struct(sname)) else {
            // uninhabited (contains `never`): decoding anything must fail
            rec.count("gen:uninhabited");
            let k = r.below(12) as usize;
            lines.push(de_line(sname, &r.bytes(k)));
            continue;
        };
        rec.count("gen:value");
        lines.push(format!("ser {}", val_str(&v)));
        let (mut enc, mut marks) = (vec![], vec![]);
        ref_encode(&d, &v, &mut enc, &mut marks);
        rec.count_n("gen:encoded-bytes", enc.len() as u64);
        lines.push(de_line(sname, &enc));
        // truncations: every proper prefix for short encodings, a sample for long ones
        let cuts: Vec<usize> = if enc.len() <= 24 {
            (0..enc.len()).collect()
        } else {
            let mut c: Vec<usize> = (0..10).map(|_| r.below(enc.len() as u64) as usize).collect();
            c.extend([0, 1, enc.len() - 1]);
            c
        };
        for c in cuts {
            rec.count("gen:truncation");
            lines.push(de_line(sname, &enc[..c]));
        }
        // extensions
        for _ in 0..2 {
            rec.count("gen:extension");
            let mut e = enc.clone();
            let k = r.range(1, 4) as usize;
            e.extend(r.bytes(k));
            lines.push(de_line(sname, &e));
        }
        // targeted mutations at the marked positions
        for m in &marks {
            if !r.chance(2, 3) {
                continue;
            }
            match m {
                Mark::OptTag(p) | Mark::ResTag(p) => {
                    rec.count("gen:bad-tag");
                    let mut e = enc.clone();
                    let any = r.range(2, 255) as u8;
                    e[*p] = *r.pick(&[2u8, 3, 0x7f, 0x80, 0x81, 0xff, any]);
                    lines.push(de_line(sname, &e));
                    // flip the tag between the two valid values: payload type changes
                    rec.count("gen:flip-tag");
                    let mut e = enc.clone();
                    e[*p] ^= 1;
                    lines.push(de_line(sname, &e));
                }
                Mark::EnumVal(n, s, e) => {
                    rec.count("gen:bad-enum");
                    let vs = d.find_enum(*n).unwrap();
                    let mut x = gen_int(r);
                    while vs.contains(&x) {
                        x = x.wrapping_add(1);
                    }
                    lines.push(de_line(sname, &splice(&enc, *s, *e, &postcard::to_allocvec(&x).unwrap())));
                }
                Mark::IntVal(s, e) => {
                    rec.count("gen:varint-form");
                    // non-canonical / over-long / over-large varints
                    let orig = &enc[*s..*e];
                    let alt: Vec<u8> = match r.below(5) {
                        0 if orig.len() < 10 => {
                            // padded: same value, one more byte
                            let mut a = orig.to_vec();
                            *a.last_mut().unwrap() |= 0x80;
                            a.push(0);
                            a
                        }
                        1 => vec![0xff, 0xff, 0xff, 0xff, 0xff, 0xff, 0xff, 0xff, 0xff, 0x01],
                        2 => vec![0xff, 0xff, 0xff, 0xff, 0xff, 0xff, 0xff, 0xff, 0xff, *r.pick(&[0x02u8, 0x7f, 0x03])],
                        3 => vec![0x80; 10].into_iter().chain([r.below(2) as u8]).collect(),
                        _ => {
                            let mut a = vec![0x80u8; r.range(1, 9) as usize];
                            a.push(r.below(128) as u8);
                            a
                        }
                    };
                    lines.push(de_line(sname, &splice(&enc, *s, *e, &alt)));
                }
                Mark::Str(s, e) => {
                    rec.count("gen:bad-text");
                    let p = *r.pick(UTF8_PROBES);
                    let mut content = vec![];
                    if r.chance(1, 2) {
                        content.extend_from_slice(b"ab");
                    }
                    content.extend_from_slice(p);
                    if r.chance(1, 2) {
                        content.extend_from_slice("é".as_bytes());
                    }
                    let mut f = varint(content.len() as u64);
                    f.extend(content);
                    lines.push(de_line(sname, &splice(&enc, *s, *e, &f)));
                    // length lie
                    rec.count("gen:length-lie");
                    let lie = *r.pick(&[u64::MAX, u64::MAX - 1, 1 << 63, 1 << 32, (enc.len() as u64) + 1, 1 << 20]);
                    lines.push(de_line(sname, &splice(&enc, *s, s + varint_len_at(&enc, *s), &varint(lie))));
                }
                Mark::Bytes(s, _) => {
                    rec.count("gen:length-lie");
                    let lie = *r.pick(&[u64::MAX, 1 << 63, 1 << 32, (enc.len() as u64) + 1, 0]);
                    lines.push(de_line(sname, &splice(&enc, *s, s + varint_len_at(&enc, *s), &varint(lie))));
                }
                Mark::IdLen(p) => {
                    rec.count("gen:bad-id-len");
                    let mut e = enc.clone();
                    e[*p] = *r.pick(&[0u8, 1, 31, 33, 64, 0xa0, 0xff]);
                    lines.push(de_line(sname, &e));
                }
            }
        }
        // random point mutations
        for _ in 0..4 {
            if enc.is_empty() {
                break;
            }
            rec.count("gen:point-mutation");
            let mut e = enc.clone();
            for _ in 0..r.range(1, 3) {
                let p = r.below(e.len() as u64) as usize;
                e[p] = match r.below(3) {
                    0 => e[p] ^ (1 << r.below(8)),
                    1 => r.next_u64() as u8,
                    _ => *r.pick(&[0u8, 1, 2, 0x20, 0x7f, 0x80, 0xff]),
                };
            }
            lines.push(de_line(sname, &e));
        }
        // non-conforming values for the serializer
        if let V::Struct(n, fs) = &v {
            let mut bad: Vec<V> = vec![];
            if !fs.is_empty() {
                let mut f2 = fs.clone();
                f2.remove(r.below(fs.len() as u64) as usize);
                bad.push(V::Struct(*n, f2.clone())); // length mismatch
                let mut f3 = f2.clone();
                f3.push((45, V::Int(1))); // right length, one field missing
                f3.sort_by_key(|x| x.0);
                bad.push(V::Struct(*n, f3));
                let mut f4 = fs.clone();
                let k = r.below(fs.len() as u64) as usize;
                f4[k].1 = V::Internal;
                bad.push(V::Struct(*n, f4));
                let mut f5 = fs.clone();
                f5[k].1 = V::Struct(60, vec![]); // unknown nested struct
                bad.push(V::Struct(*n, f5));
                let mut f6 = fs.clone();
                f6[k].1 = V::Some(Box::new(V::Err(Box::new(V::Int(gen_int(r)))))); // type-incorrect but serializable
                bad.push(V::Struct(*n, f6));
            }
            let mut f7 = fs.clone();
            f7.push((46, V::Unit));
            bad.push(V::Struct(*n, f7)); // extra field
            bad.push(V::Struct(61, fs.clone())); // unknown struct
            for b in bad {
                if r.chance(1, 2) {
                    rec.count("gen:nonconforming-value");
                    lines.push(format!("ser {}", val_str(&b)));
                }
            }
        }
    }
    // random bytes and unknown names
    for _ in 0..3 {
        rec.count("gen:random-bytes");
        let (sname, _) = r.pick(&d.structs).clone();
        let n = match r.below(4) {
            0 => 0,
            1 => r.range(1, 4),
            _ => r.range(1, 40),
        } as usize;
        lines.push(de_line(sname, &r.bytes(n)));
    }
    if r.chance(1, 3) {
        rec.count("gen:unknown-struct");
        lines.push(de_line(62, &r.bytes(3)));
    }
    lines
}

/// schemas that refer to missing definitions
fn gen_dangling_case(r: &mut Rng) -> Vec<String> {
    let d = Defs {
        structs: vec![
            (1, vec![(2, Ty::Int), (1, Ty::Struct(9))]),
            (2, vec![(1, Ty::Enum(9)), (2, Ty::Bool)]),
            (3, vec![(1, Ty::Opt(Box::new(Ty::Enum(8))))]),
        ],
        enums: vec![(1, vec![0, 1])],
    };
    let mut lines = vec![defs_line(&d)];
    for n in [1u32, 2, 3] {
        for _ in 0..4 {
            let k = r.below(5) as usize;
            lines.push(de_line(n, &r.bytes(k)));
        }
        lines.push(de_line(n, &[1, 0]));
    }
    lines
}

/// text clause, systematically: every 1-byte and (thorough) every 2-byte content, 3/4-byte
/// contents around the table boundaries
fn gen_utf8_case(r: &mut Rng, thorough: bool) -> Vec<String> {
    let d = Defs { structs: vec![(1, vec![(1, Ty::Str)])], enums: vec![] };
    let mut lines = vec![defs_line(&d)];
    let mut push = |c: &[u8]| {
        let mut f = varint(c.len() as u64);
        f.extend_from_slice(c);
        lines.push(de_line(1, &f));
    };
    for a in 0..=255u8 {
        push(&[a]);
    }
    for p in UTF8_PROBES {
        push(p);
    }
    let edge: &[u8] = &[0x00, 0x7f, 0x80, 0x8f, 0x90, 0x9f, 0xa0, 0xbf, 0xc0, 0xc1, 0xc2, 0xdf, 0xe0, 0xe1, 0xec, 0xed, 0xee, 0xef, 0xf0, 0xf1, 0xf3, 0xf4, 0xf5, 0xff];
    if thorough {
        for a in 0x80..=255u8 {
            for b in 0..=255u8 {
                push(&[a, b]);
            }
        }
        for a in 0xe0..=0xf7u8 {
            for b in edge {
                for c in edge {
                    push(&[a, *b, *c]);
                    if a >= 0xf0 {
                        for e in [0x7fu8, 0x80, 0xbf, 0xc0] {
                            push(&[a, *b, *c, e]);
                        }
                    }
                }
            }
        }
    } else {
        for _ in 0..300 {
            let a = r.range(0xc0, 0xf7) as u8;
            let n = r.range(1, 3) as usize;
            let mut c = vec![a];
            for _ in 0..n {
                c.push(*r.pick(edge));
            }
            push(&c);
        }
    }
    lines
}

// ------------------------------------------------------------------ excluded point: cyclic definitions

/// Runs in a child process (`--probe <kind>`): a hand-built module whose struct definitions are
/// cyclic.  Prints the outcome; a stack overflow kills the child, which the parent records.
fn probe_child(kind: &str) {
    let d = match kind {
        // zero-width cycle: struct 1 { f1: struct 1 }
        "cyclic-zero-width" => Defs { structs: vec![(1, vec![(1, Ty::Struct(1))])], enums: vec![] },
        // consuming cycle: struct 1 { f1: int, f2: option[struct 1] }
        _ => Defs { structs: vec![(1, vec![(1, Ty::Int), (2, Ty::Opt(Box::new(Ty::Struct(1))))])], enums: vec![] },
    };
    let m = real_machine(&d);
    let input: Vec<u8> = match kind {
        "cyclic-zero-width" => vec![],
        _ => vec![2, 1, 4, 1, 6, 0],
    };
    let r = m.deserialize_struct(ident('S', 1), &input);
    println!("{}", match r {
        Ok(s) => format!("ok {}", val_str(&mirror_struct(&s))),
        Err(e) => format!("err {e:?}"),
    });
}

fn probe_excluded(rec: &mut Recorder) {
    let Ok(exe) = std::env::current_exe() else { return };
    for kind in ["cyclic-zero-width", "cyclic-consuming"] {
        let out = std::process::Command::new(&exe).args(["--probe", kind]).output();
        let note = match out {
            Ok(o) => {
                use std::os::unix::process::ExitStatusExt;
                let stderr = String::from_utf8_lossy(&o.stderr);
                let first_err = stderr.lines().find(|l| !l.trim().is_empty()).unwrap_or("").to_string();
                format!(
                    "excluded point {kind}: exit={:?} signal={:?} stdout=`{}` stderr=`{}`",
                    o.status.code(),
                    o.status.signal(),
                    String::from_utf8_lossy(&o.stdout).trim(),
                    first_err.trim()
                )
            }
            Err(e) => format!("excluded point {kind}: could not spawn: {e}"),
        };
        rec.notes.push(note);
    }
}

// ------------------------------------------------------------------ main

fn main() {
    let argv: Vec<String> = std::env::args().collect();
    if argv.len() == 3 && argv[1] == "--probe" {
        probe_child(&argv[2]);
        return;
    }
    let args = Args::parse();
    vh::quiet_panics();
    let mut rec = Recorder::new(&args.out);
    if let Some(p) = &args.replay {
        let lines = vh::read_replay_input(p);
        rec.begin_case();
        run_case(&mut rec, &lines);
        rec.finish(args.seed, &args.tier);
        return;
    }
    let mut rng = Rng::new(args.seed);
    let big = args.thorough() || args.search;
    let cases = args.budget(1200, 15000);
    for i in 0..cases {
        let lines = if i % 50 == 49 { gen_dangling_case(&mut rng) } else { gen_case(&mut rng, &mut rec, big) };
        rec.begin_case();
        rec.count_n("lines", lines.len() as u64);
        if lines.len() >= 4 {
            rec.nontrivial(fnv(&lines.join(";")));
        }
        if rec.cases() <= 2 {
            rec.sample(lines.iter().take(4).cloned().collect::<Vec<_>>().join(" ; "));
        }
        run_case(&mut rec, &lines);
    }
    let lines = gen_utf8_case(&mut rng, big);
    rec.begin_case();
    rec.count_n("lines", lines.len() as u64);
    rec.count_n("gen:utf8-table", lines.len() as u64 - 1);
    run_case(&mut rec, &lines);
    if !args.search {
        probe_excluded(&mut rec);
    }
    rec.finish(args.seed, &args.tier);
}
