//! C46 — `aranya_id::Id`: base58 text (`Display`, `FromStr`, `Id::decode`), serde in a
//! human-readable format (`serde_json`) and a binary one (`postcard`), plus the `visit_seq`
//! path through a small non-human-readable deserializer.  Real code vs the Lean model
//! (`drv_c46`) and vs an independent oracle written here (byte-array long arithmetic, alphabet
//! literal, LEB128 reader) — no code shared with `spideroak-base58`.
//!
//! Requests (byte strings are hex, `-` = empty):
//!   enc <id32>      → text            dec <bytes>    → ok <id32> | bad | bug
//!   serjson <id32>  → hex(json)       dejson <bytes> → ok <id32> | err
//!   serbin <id32>   → hex(postcard)   debin <bytes>  → ok <id32> <bytes left> | err
//!   deseq <bytes>   → ok <id32> | err

use std::str::FromStr;

use aranya_id::BaseId;
use serde::{de, Deserialize, Serialize};
use vh::{fnv, hex, unhex, Args, Recorder, Rng};

aranya_id::custom_id! {
    /// an id type with its own tag
    pub struct OtherId;
}

const ALPHA: &[u8; 58] = b"123456789ABCDEFGHJKLMNPQRSTUVWXYZabcdefghijkmnopqrstuvwxyz";

// ------------------------------------------------------------------ independent reference

/// 44 base-58 digits of the big-endian number `b` (long division on the byte array)
fn ref_encode(b: &[u8; 32]) -> String {
    let mut n = b.to_vec();
    let mut out = vec![b'1'; 44];
    for slot in out.iter_mut().rev() {
        let mut rem: u32 = 0;
        for x in n.iter_mut() {
            let cur = rem * 256 + *x as u32;
            *x = (cur / 58) as u8;
            rem = cur % 58;
        }
        *slot = ALPHA[rem as usize];
    }
    assert!(n.iter().all(|x| *x == 0), "2^256 <= 58^44");
    String::from_utf8(out).unwrap()
}

/// `Some(id)` iff every byte is in the alphabet and the denoted number is `< 2^256`
fn ref_decode(s: &[u8]) -> Option<[u8; 32]> {
    let mut n = [0u8; 32];
    for c in s {
        let d = ALPHA.iter().position(|a| a == c)? as u32;
        let mut carry = d;
        for x in n.iter_mut().rev() {
            let cur = *x as u32 * 58 + carry;
            *x = cur as u8;
            carry = cur >> 8;
        }
        if carry != 0 {
            return None;
        }
    }
    Some(n)
}

/// LEB128 value of `w[..k]` if `w[..k]` is a complete varint (continuation bits set on all but
/// the last byte)
fn leb(w: &[u8]) -> Option<u128> {
    let (last, init) = w.split_last()?;
    if last & 0x80 != 0 || init.iter().any(|b| b & 0x80 == 0) {
        return None;
    }
    let mut v: u128 = 0;
    for (i, b) in w.iter().enumerate() {
        v |= ((b & 0x7f) as u128) << (7 * i);
    }
    Some(v)
}

// ------------------------------------------------------------------ a seq-based binary format

/// Non-human-readable deserializer that answers every request (in particular
/// `deserialize_bytes`) with a sequence of `u8`: reaches `IdVisitor::visit_seq`.
struct SeqDe<'a>(&'a [u8]);

impl<'de, 'a> de::Deserializer<'de> for SeqDe<'a> {
    type Error = de::value::Error;
    fn deserialize_any<V: de::Visitor<'de>>(self, v: V) -> Result<V::Value, Self::Error> {
        v.visit_seq(de::value::SeqDeserializer::<_, de::value::Error>::new(self.0.iter().copied()))
    }
    fn is_human_readable(&self) -> bool {
        false
    }
    serde::forward_to_deserialize_any! {
        bool i8 i16 i32 i64 i128 u8 u16 u32 u64 u128 f32 f64 char str string bytes byte_buf option
        unit unit_struct newtype_struct seq tuple tuple_struct map struct enum identifier ignored_any
    }
}

#[derive(Serialize, Deserialize, PartialEq, Debug)]
struct Wrap {
    a: BaseId,
    v: Vec<OtherId>,
    o: Option<BaseId>,
}

// ------------------------------------------------------------------ executing one request

fn id32(h: &str) -> Option<[u8; 32]> {
    unhex(h)?.try_into().ok()
}

fn parse_kind(e: &aranya_id::ParseIdError) -> &'static str {
    if e.to_string() == "could not parse ID: bad input" {
        "bad"
    } else {
        "bug"
    }
}

fn plain(c: u8) -> bool {
    (32..=126).contains(&c) && c != b'"' && c != b'\\'
}

/// Runs one request line on the real code, records the answer, evaluates the oracle.
fn exec(rec: &mut Recorder, line: &str) {
    let t: Vec<&str> = line.split(' ').collect();
    let r = vh::catch(std::panic::AssertUnwindSafe(|| exec_inner(&t)));
    match r {
        Err(p) => {
            rec.line(line, "panic");
            rec.panics.push(format!("{line} :: {p}"));
        }
        Ok(None) => rec.notes.push(format!("skipped malformed request `{line}`")),
        Ok(Some((ans, bad))) => {
            rec.count(&format!("op:{}", t[0]));
            rec.count(&format!("ans:{}:{}", t[0], ans.split(' ').next().map(|a| if a.len() > 4 { "value" } else { a }).unwrap_or("")));
            rec.line(line, ans);
            if !bad.is_empty() {
                rec.oracle_fail_with(format!("{}: {}", t[0], bad.join("; ")), vec![line.to_string()]);
            }
        }
    }
}

fn exec_inner(t: &[&str]) -> Option<(String, Vec<String>)> {
    let mut bad: Vec<String> = vec![];
    let mut chk = |c: bool, what: &str| {
        if !c {
            bad.push(what.to_string());
        }
    };
    if t.len() != 2 {
        return None;
    }
    let ans = match t[0] {
        "enc" => {
            let b = id32(t[1])?;
            let id = BaseId::from_bytes(b);
            let text = id.to_string();
            let want = ref_encode(&b);
            chk(text == want, &format!("Display gave {text}, the 44 base-58 digits are {want}"));
            chk(format!("{id:?}") == format!("BaseId({text})"), "Debug form");
            chk(OtherId::from_base(id).to_string() == text, "tag changes the text");
            chk(matches!(BaseId::from_str(&text), Ok(x) if x == id), "FromStr(Display(id)) != id");
            chk(matches!(BaseId::decode(text.as_bytes()), Ok(x) if x == id), "decode(Display(id)) != id");
            chk(matches!(text.parse::<OtherId>(), Ok(x) if x.as_bytes() == &b[..]), "parse under another tag");
            chk(id.as_bytes() == &b[..] && id.as_array() == &b && <[u8; 32]>::from(id) == b, "bytes accessors");
            text
        }
        "dec" => {
            let s = unhex(t[1])?;
            let got = BaseId::decode(&s);
            let want = ref_decode(&s);
            let ans = match &got {
                Ok(id) => format!("ok {}", hex(id.as_bytes())),
                Err(e) => parse_kind(e).to_string(),
            };
            match (&got, want) {
                (Ok(id), Some(w)) => {
                    chk(id.as_bytes() == &w[..], "decoded to a different id than the text denotes");
                    // the id it yields prints as the canonical form of the same number
                    let canon = id.to_string();
                    chk(ref_decode(canon.as_bytes()) == Some(w), "re-encoding denotes another number");
                    if s.len() == 44 {
                        chk(canon.as_bytes() == &s[..], "44-character text does not print back");
                    }
                }
                (Err(e), None) => chk(parse_kind(e) == "bad", "invalid text gave a Bug error instead of BadInput"),
                (Ok(_), None) => chk(false, "accepted text that is not base58 of a 256-bit number"),
                (Err(_), Some(_)) => chk(false, "rejected valid base58 text of a 256-bit number"),
            }
            if let Ok(st) = std::str::from_utf8(&s) {
                let g2 = BaseId::from_str(st);
                chk(g2.as_ref().ok().map(|i| *i.as_array()) == got.as_ref().ok().map(|i| *i.as_array()), "FromStr and decode disagree");
            }
            ans
        }
        "serjson" => {
            let b = id32(t[1])?;
            let id = BaseId::from_bytes(b);
            let js = serde_json::to_string(&id).ok()?;
            chk(js == format!("\"{}\"", ref_encode(&b)), "JSON form is not the quoted base58 text");
            chk(matches!(serde_json::from_str::<BaseId>(&js), Ok(x) if x == id), "JSON round trip");
            let val = serde_json::to_value(id).ok()?;
            chk(val == serde_json::Value::String(ref_encode(&b)), "to_value is not a string");
            chk(matches!(serde_json::from_value::<BaseId>(val), Ok(x) if x == id), "Value round trip");
            let w = Wrap { a: id, v: vec![OtherId::from_bytes(b), OtherId::default()], o: Some(id) };
            let wj = serde_json::to_string(&w).ok()?;
            chk(matches!(serde_json::from_str::<Wrap>(&wj), Ok(x) if x == w), "struct JSON round trip");
            hex(js.as_bytes())
        }
        "dejson" => {
            let doc = unhex(t[1])?;
            let got = std::str::from_utf8(&doc).ok().and_then(|d| serde_json::from_str::<BaseId>(d).ok());
            if doc.len() >= 2 && doc[0] == b'"' && doc[doc.len() - 1] == b'"' && doc[1..doc.len() - 1].iter().all(|c| plain(*c)) {
                let want = ref_decode(&doc[1..doc.len() - 1]);
                chk(got.map(|i| *i.as_array()) == want, "JSON string document: result differs from the text's meaning");
            } else if doc.first() != Some(&b'"') {
                chk(got.is_none(), "non-string JSON document accepted");
            }
            match got {
                Some(id) => format!("ok {}", hex(id.as_bytes())),
                None => "err".into(),
            }
        }
        "serbin" => {
            let b = id32(t[1])?;
            let id = BaseId::from_bytes(b);
            let w = postcard::to_allocvec(&id).ok()?;
            let mut want = vec![32u8];
            want.extend_from_slice(&b);
            chk(w == want, "postcard form is not length 32 + the bytes");
            chk(matches!(postcard::take_from_bytes::<BaseId>(&w), Ok((x, rest)) if x == id && rest.is_empty()), "postcard round trip");
            let wr = Wrap { a: id, v: vec![OtherId::from_bytes(b)], o: None };
            let ws = postcard::to_allocvec(&wr).ok()?;
            chk(matches!(postcard::from_bytes::<Wrap>(&ws), Ok(x) if x == wr), "struct postcard round trip");
            hex(&w)
        }
        "debin" => {
            let w = unhex(t[1])?;
            let got = postcard::take_from_bytes::<BaseId>(&w);
            match &got {
                Ok((id, rest)) => {
                    // input = <varint of 32> ++ id ++ rest
                    let k = w.len() as isize - 32 - rest.len() as isize;
                    let okk = k >= 1 && k <= 10 && leb(&w[..k as usize]) == Some(32)
                        && &w[k as usize..k as usize + 32] == id.as_bytes() && w.ends_with(rest);
                    chk(okk, "accepted bytes that are not <length 32><32 bytes>");
                }
                Err(_) => chk(!(w.len() >= 33 && w[0] == 32), "rejected a well-formed encoding"),
            }
            match got {
                Ok((id, rest)) => format!("ok {} {}", hex(id.as_bytes()), rest.len()),
                Err(_) => "err".into(),
            }
        }
        "deseq" => {
            let w = unhex(t[1])?;
            let got = BaseId::deserialize(SeqDe(&w));
            chk(got.is_ok() == (w.len() >= 32), "visit_seq: accepted/rejected by length wrongly");
            if let Ok(id) = &got {
                chk(id.as_bytes() == &w[..32], "visit_seq: wrong bytes");
            }
            match got {
                Ok(id) => format!("ok {}", hex(id.as_bytes())),
                Err(_) => "err".into(),
            }
        }
        _ => return None,
    };
    Some((ans, bad))
}

// ------------------------------------------------------------------ generators

fn be_from_u128s(hi: u128, lo: u128) -> [u8; 32] {
    let mut b = [0u8; 32];
    b[..16].copy_from_slice(&hi.to_be_bytes());
    b[16..].copy_from_slice(&lo.to_be_bytes());
    b
}

/// `b + d` / `b - d` on the 256-bit big-endian number (wrapping)
fn add_small(b: &[u8; 32], d: i32) -> [u8; 32] {
    let mut n = *b;
    let mut carry = d as i64;
    for x in n.iter_mut().rev() {
        let cur = *x as i64 + carry;
        *x = cur.rem_euclid(256) as u8;
        carry = cur.div_euclid(256);
    }
    n
}

fn pow58(k: u32) -> [u8; 32] {
    let mut s = vec![b'1'; 44];
    s[43 - k as usize] = b'2';
    ref_decode(&s).unwrap()
}

fn boundary_ids() -> Vec<[u8; 32]> {
    let mut v = vec![[0u8; 32], [0xff; 32]];
    for k in [0u32, 1, 2, 9, 10, 11, 19, 20, 21, 29, 30, 31, 39, 40, 41, 42, 43] {
        let p = pow58(k);
        for d in [-1, 0, 1] {
            v.push(add_small(&p, d));
        }
    }
    for sh in [8u32, 63, 64, 65, 127] {
        v.push(be_from_u128s(0, 1u128 << sh));
        v.push(be_from_u128s(0, (1u128 << sh) - 1));
        v.push(be_from_u128s(1u128 << sh, 0));
        v.push(be_from_u128s((1u128 << sh) - 1, u128::MAX));
    }
    v.push(be_from_u128s(1, 0));
    v.push(be_from_u128s(0, u128::MAX));
    v.push(be_from_u128s(1u128 << 127, 0));
    for i in 0..32 {
        let mut b = [0u8; 32];
        b[i] = 1;
        v.push(b);
    }
    v
}

fn random_id(rng: &mut Rng) -> [u8; 32] {
    let mut b = [0u8; 32];
    match rng.below(6) {
        0 => {
            // leading zero bytes
            let z = rng.below(33) as usize;
            for x in b[z..].iter_mut() {
                *x = rng.next_u64() as u8;
            }
        }
        1 => {
            // sparse
            for _ in 0..rng.range(1, 4) {
                b[rng.below(32) as usize] = rng.next_u64() as u8;
            }
        }
        2 => {
            // near a power of 58^10 multiple (exercises zero digit groups)
            let p = pow58(*rng.pick(&[10, 20, 30, 40]));
            b = add_small(&p, rng.below(2000) as i32 - 1000);
        }
        _ => {
            for x in b.iter_mut() {
                *x = rng.next_u64() as u8;
            }
        }
    }
    b
}

fn id_lines(b: &[u8; 32]) -> Vec<String> {
    let h = hex(b);
    let text = ref_encode(b);
    let mut bin = vec![32u8];
    bin.extend_from_slice(b);
    vec![
        format!("enc {h}"),
        format!("dec {}", hex(text.as_bytes())),
        format!("serjson {h}"),
        format!("dejson {}", hex(format!("\"{text}\"").as_bytes())),
        format!("serbin {h}"),
        format!("debin {}", hex(&bin)),
        format!("deseq {h}"),
    ]
}

const INVALID: &[u8] = b"0OIl +/-_=.,\n\t\0\x7f\x80\xff\xc3";

/// texts: mostly derived from valid encodings
fn text_case(rng: &mut Rng, rec: &mut Recorder) -> Vec<u8> {
    let b = random_id(rng);
    let mut s = ref_encode(&b).into_bytes();
    let kind = rng.below(15);
    let name = match kind {
        0 => {
            // strip leading '1's (shorter text, same number)
            while s.first() == Some(&b'1') && rng.chance(9, 10) {
                s.remove(0);
            }
            "stripped-leading-ones"
        }
        1 => {
            // truncate on the right: a different, smaller number
            s.truncate(rng.below(44) as usize);
            "truncated"
        }
        2 => {
            // over-long but same number
            let k = rng.range(1, 30) as usize;
            let mut t = vec![b'1'; k];
            t.extend_from_slice(&s);
            s = t;
            "extra-leading-ones"
        }
        3 => {
            // over-long: extra digit on the left → usually ≥ 2^256
            s.insert(0, ALPHA[rng.range(1, 57) as usize]);
            "extra-leading-digit"
        }
        4 => {
            s.push(ALPHA[rng.below(58) as usize]);
            "extra-trailing-digit"
        }
        5 => {
            let i = rng.below(s.len() as u64) as usize;
            s[i] = *rng.pick(INVALID);
            "one-invalid-char"
        }
        6 => {
            let n = rng.below(70) as usize;
            s = (0..n).map(|_| ALPHA[rng.below(58) as usize]).collect();
            "random-base58"
        }
        7 => {
            let n = rng.below(50) as usize;
            s = rng.bytes(n);
            "random-bytes"
        }
        8 => {
            // around 2^256: encode(2^256-1) with one digit changed
            s = ref_encode(&[0xff; 32]).into_bytes();
            let i = rng.range(30, 43) as usize;
            s[i] = ALPHA[rng.below(58) as usize];
            "near-2^256"
        }
        9 => {
            // first digits of the maximum, random tail: straddles the overflow bound
            s = ref_encode(&[0xff; 32]).into_bytes();
            let k = rng.range(1, 12) as usize;
            for x in s[k..].iter_mut() {
                *x = ALPHA[rng.below(58) as usize];
            }
            "max-prefix"
        }
        10 => {
            // chunk-boundary lengths of all-'z' / all-'1'
            let n = *rng.pick(&[0usize, 1, 9, 10, 11, 19, 20, 21, 40, 43, 44, 45, 50, 60]);
            s = vec![if rng.chance(1, 2) { b'z' } else { b'1' }; n];
            "uniform"
        }
        11 => {
            // invalid char in a late chunk after an overflowing prefix
            s = vec![b'z'; 50];
            s[rng.range(40, 49) as usize] = *rng.pick(INVALID);
            "overflow-then-invalid"
        }
        12 | 13 => {
            // multi-byte UTF-8 characters inside (over-)long text, in particular straddling the
            // 44-byte mark: error paths that echo or truncate the rejected input must cope
            let n = rng.range(30, 70) as usize;
            let mut t: Vec<u8> = (0..n).map(|_| ALPHA[rng.below(58) as usize]).collect();
            for _ in 0..rng.range(1, 3) {
                let ch = *rng.pick(&["é", "€", "😀", "ß", "語"]);
                let pos = if rng.chance(1, 2) { rng.range(40, 46).min(t.len() as u64) as usize } else { rng.below(t.len() as u64 + 1) as usize };
                // keep earlier insertions intact: only insert on a char boundary
                let pos = (0..=pos).rev().find(|&i| std::str::from_utf8(&t[..i]).is_ok()).unwrap_or(0);
                for (k, b) in ch.as_bytes().iter().enumerate() {
                    t.insert(pos + k, *b);
                }
            }
            s = t;
            "utf8-multibyte"
        }
        _ => "valid",
    };
    rec.count(&format!("text:{name}"));
    s
}

fn bin_case(rng: &mut Rng, rec: &mut Recorder) -> Vec<u8> {
    let b = random_id(rng);
    let mut w = vec![32u8];
    w.extend_from_slice(&b);
    let name = match rng.below(11) {
        9 | 10 => {
            // a well-formed byte string of the WRONG length (shorter or longer than 32) with all its
            // bytes present: must be rejected, not truncated or padded
            let n = *rng.pick(&[0usize, 1, 16, 31, 33, 34, 40, 64, 100]);
            w = vec![n as u8];
            w.extend(rng.bytes(n));
            if rng.chance(1, 3) {
                w.extend(rng.bytes(3));
            }
            "complete-wrong-length"
        }
        0 => {
            w.truncate(rng.below(33) as usize);
            "truncated"
        }
        1 => {
            w[0] = *rng.pick(&[0u8, 1, 31, 33, 64, 127]);
            "wrong-length"
        }
        2 => {
            let extra = rng.range(1, 5) as usize;
            w.extend(rng.bytes(extra));
            "trailing-bytes"
        }
        3 => {
            // non-canonical varint for 32, k continuation bytes
            let k = rng.range(1, 9) as usize;
            let mut p = vec![0xa0u8];
            p.extend(std::iter::repeat(0x80).take(k - 1));
            p.push(0);
            p.extend_from_slice(&b);
            w = p;
            "padded-varint"
        }
        4 => {
            // 10-byte varints incl. last byte > 1 and 11-byte ones
            let k = rng.range(9, 11) as usize;
            let mut p = vec![0xa0u8];
            p.extend(std::iter::repeat(0x80).take(k - 1));
            p.push(*rng.pick(&[0u8, 1, 2, 0x7f]));
            p.extend_from_slice(&b);
            w = p;
            "long-varint"
        }
        5 => {
            // huge length
            w = vec![0xff, 0xff, 0xff, 0xff, 0xff, 0xff, 0xff, 0xff, 0xff, *rng.pick(&[0u8, 1])];
            w.extend_from_slice(&b);
            "huge-length"
        }
        6 => {
            let n = rng.below(45) as usize;
            w = rng.bytes(n);
            "random-bytes"
        }
        7 => {
            // length 32 encoded with high bits that vanish modulo 2^64
            w = vec![0xa0, 0x80, 0x80, 0x80, 0x80, 0x80, 0x80, 0x80, 0x80, 0x01];
            w.extend_from_slice(&b);
            "wrapping-varint"
        }
        _ => "valid",
    };
    rec.count(&format!("bin:{name}"));
    w
}

const JSON_DOCS: &[&str] = &["123", "null", "[1,2]", "{}", "true", "", "[\"a\"]", "-1.5", "{\"a\":1}"];

fn main() {
    let args = Args::parse();
    vh::quiet_panics();
    let mut rec = Recorder::new(&args.out);
    if let Some(p) = &args.replay {
        for l in vh::read_replay_input(p) {
            rec.begin_case();
            exec(&mut rec, &l);
        }
        rec.finish(args.seed, &args.tier);
        return;
    }
    let mut rng = Rng::new(args.seed);
    // 1. ids: boundary values, then random
    let mut ids = boundary_ids();
    let n_rand = args.budget(600, 20000);
    for _ in 0..n_rand {
        ids.push(random_id(&mut rng));
    }
    for b in &ids {
        rec.begin_case();
        rec.count("case:id");
        rec.nontrivial(fnv(&hex(b)));
        if rec.cases() % 97 == 3 {
            rec.sample(format!("id {} = {}", hex(b), ref_encode(b)));
        }
        for l in id_lines(b) {
            exec(&mut rec, &l);
        }
    }
    // 2. texts
    for _ in 0..args.budget(3000, 100000) {
        rec.begin_case();
        rec.count("case:text");
        let s = text_case(&mut rng, &mut rec);
        rec.nontrivial(fnv(&hex(&s)));
        exec(&mut rec, &format!("dec {}", hex(&s)));
        if s.iter().all(|c| plain(*c) || *c >= 0x80) && std::str::from_utf8(&s).is_ok() {
            let mut doc = vec![b'"'];
            doc.extend_from_slice(&s);
            doc.push(b'"');
            exec(&mut rec, &format!("dejson {}", hex(&doc)));
        }
    }
    // 3. binary forms
    for _ in 0..args.budget(1500, 50000) {
        rec.begin_case();
        rec.count("case:bin");
        let w = bin_case(&mut rng, &mut rec);
        rec.nontrivial(fnv(&hex(&w)));
        exec(&mut rec, &format!("debin {}", hex(&w)));
        let n = rng.below(40) as usize;
        let q = rng.bytes(n);
        exec(&mut rec, &format!("deseq {}", hex(&q)));
    }
    // 4. JSON documents that are not strings
    for d in JSON_DOCS {
        rec.begin_case();
        rec.count("case:json-nonstring");
        exec(&mut rec, &format!("dejson {}", hex(d.as_bytes())));
    }
    rec.sample("texts: stripped/extra leading '1's, truncations, extra digits, one invalid char, random base58 of length 0..70, random bytes, neighbourhood of 2^256, chunk-boundary lengths");
    rec.finish(args.seed, &args.tier);
}
