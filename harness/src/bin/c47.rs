//! C47 — `aranya_capi_core::write_c_str`: the real code vs the Lean model (`drv_c47`), plus the
//! S-level oracle evaluated on the real outputs:
//!   * `total + 1 <= len`  → `Ok`, `buf[..total] == text`, `buf[total] == 0`, `nw == total + 1`,
//!     every other byte of memory (rest of the buffer, guard bytes on both sides) untouched;
//!   * otherwise           → `Err(BufferTooSmall)`, `nw == total + 1`, guard bytes untouched;
//!   * a `Display` impl that itself fails → `Err(Bug)`, guard bytes untouched;
//!   * never a panic.
//!
//! Request line: `wcs <base> <len> <mem-hex> <fails> <frag-hex>*`
//! Answer line:  `<ok|small|bug|panic> <nw> <mem-hex>`
//! The fragments of a value are captured by formatting it (with the same `write!(w, "{src:}")`
//! form `write_c_str` uses) into a recording `fmt::Write`.

use core::{ffi::c_char, fmt, mem::MaybeUninit};
use std::fmt::Write as _;

use aranya_capi_core::{write_c_str, WriteCStrError};
use vh::{fnv, hex, unhex, Args, Recorder, Rng};

/// A `Display` value that emits exactly the given fragments, then optionally fails.
struct Frags {
    frags: Vec<String>,
    fails: bool,
}

impl fmt::Display for Frags {
    fn fmt(&self, f: &mut fmt::Formatter<'_>) -> fmt::Result {
        for s in &self.frags {
            f.write_str(s)?;
        }
        if self.fails {
            Err(fmt::Error)
        } else {
            Ok(())
        }
    }
}

/// A value formatted by the standard formatting machinery: literal pieces, padded and
/// aligned arguments (fill is emitted one char at a time), radix prefixes, Debug escapes.
struct Mixed {
    name: String,
    n: i64,
    width: usize,
    x: u64,
    c: char,
    fl: f64,
    id: aranya_id::BaseId,
    which: u8,
}

impl fmt::Display for Mixed {
    fn fmt(&self, f: &mut fmt::Formatter<'_>) -> fmt::Result {
        let w = self.width;
        match self.which {
            0 => write!(f, "{}:{:>w$}|{:#x}|{:?}", self.name, self.n, self.x, self.c),
            1 => write!(f, "[{:^w$}] {:+} {:e}", self.c, self.n, self.fl),
            2 => write!(f, "{}/{}", self.id, self.name),
            3 => write!(f, "{:*<w$}{:08.3}{:#b}", self.name, self.fl, self.x & 0xff),
            4 => write!(f, "{:?} {:#?}", self.name, (self.n, self.c)),
            _ => write!(f, "{:w$}", self.id),
        }
    }
}

/// records the fragments handed to `write_str`
#[derive(Default)]
struct Capture(Vec<String>);
impl fmt::Write for Capture {
    fn write_str(&mut self, s: &str) -> fmt::Result {
        self.0.push(s.to_string());
        Ok(())
    }
}

fn capture<T: fmt::Display>(v: &T) -> (Vec<String>, bool) {
    let mut c = Capture::default();
    let r = write!(&mut c, "{v:}");
    (c.0, r.is_err())
}

struct Outcome {
    res: &'static str,
    nw: usize,
    mem: Vec<u8>,
    panic: Option<String>,
}

/// Call the real `write_c_str` on the region `[base, base+len)` of a copy of `mem`.
///
/// `buggy::Bug` is constructed by panicking when `debug_assertions` are on (the harness
/// profile) and returned as `Err(Bug)` otherwise; the panic carrying the `assume` message of
/// `write_c_str` is therefore the `bug` outcome, any other panic is a real panic.
fn real<T: fmt::Display>(mem: &[u8], base: usize, len: usize, v: &T) -> Outcome {
    let mut m = mem.to_vec();
    let mut nw: usize = 0xdead_beef;
    let r = {
        let slice: &mut [u8] = &mut m[base..base + len];
        // SAFETY: `u8` and `MaybeUninit<c_char>` have the same layout; the bytes are initialised.
        let dst: &mut [MaybeUninit<c_char>] =
            unsafe { &mut *(slice as *mut [u8] as *mut [MaybeUninit<c_char>]) };
        let nwr = &mut nw;
        vh::catch(std::panic::AssertUnwindSafe(move || write_c_str(dst, v, nwr)))
    };
    let (res, panic) = match r {
        Err(p) if p.contains("`write!` to `Writer` should not fail") => ("bug", None),
        Err(p) => ("panic", Some(p)),
        Ok(Ok(())) => ("ok", None),
        Ok(Err(WriteCStrError::BufferTooSmall)) => ("small", None),
        Ok(Err(WriteCStrError::Bug(_))) => ("bug", None),
    };
    Outcome { res, nw, mem: m, panic }
}

fn request(base: usize, len: usize, mem: &[u8], fails: bool, frags: &[String]) -> String {
    let mut s = format!("wcs {base} {len} {} {}", hex(mem), fails as u8);
    for f in frags {
        s.push(' ');
        s.push_str(&hex(f.as_bytes()));
    }
    s
}

/// One call: record request + real answer, evaluate the oracle.
fn one<T: fmt::Display>(
    rec: &mut Recorder,
    mem: &[u8],
    base: usize,
    len: usize,
    v: &T,
    frags: &[String],
    fails: bool,
) {
    let req = request(base, len, mem, fails, frags);
    let text: Vec<u8> = frags.iter().flat_map(|f| f.as_bytes().iter().copied()).collect();
    let total = text.len();
    match real(mem, base, len, v) {
        Outcome { panic: Some(p), nw, mem: m, .. } => {
            rec.line(req.clone(), format!("panic {nw} {}", hex(&m)));
            rec.panics.push(format!("{req} :: {p}"));
            rec.count("outcome:panic");
        }
        o => {
            rec.line(req.clone(), format!("{} {} {}", o.res, o.nw, hex(&o.mem)));
            rec.count(&format!("outcome:{}", o.res));
            let mut bad: Vec<String> = vec![];
            // never outside the buffer
            if o.mem.len() != mem.len() || o.mem[..base] != mem[..base] || o.mem[base + len..] != mem[base + len..] {
                bad.push("bytes outside the buffer were modified".into());
            }
            if fails {
                if o.res != "bug" {
                    bad.push(format!("failing Display gave {}", o.res));
                }
            } else if total + 1 <= len {
                if o.res != "ok" {
                    bad.push(format!("fits (total {total}, len {len}) but returned {}", o.res));
                }
                if o.nw != total + 1 {
                    bad.push(format!("fits but nw = {} (want {})", o.nw, total + 1));
                }
                if o.mem[base..base + total] != text[..] {
                    bad.push("buffer does not hold the text".into());
                }
                if o.mem[base + total] != 0 {
                    bad.push("no NUL terminator after the text".into());
                }
                if o.mem[base + total + 1..] != mem[base + total + 1..] {
                    bad.push("bytes after the terminator were modified".into());
                }
            } else {
                if o.res != "small" {
                    bad.push(format!("does not fit (total {total}, len {len}) but returned {}", o.res));
                }
                if o.nw != total + 1 {
                    bad.push(format!("too small but nw = {} (want {})", o.nw, total + 1));
                }
            }
            if !bad.is_empty() {
                rec.oracle_fail_with(format!("write_c_str total={total} len={len}: {}", bad.join("; ")), vec![req]);
            }
        }
    }
}

fn mem_image(rng: &mut Rng, len: usize) -> (Vec<u8>, usize) {
    let pre = if rng.chance(1, 10) { 0 } else { rng.range(1, 8) as usize };
    let post = if rng.chance(1, 10) { 0 } else { rng.range(1, 8) as usize };
    // non-zero everywhere so that a missing / misplaced NUL is visible
    let m: Vec<u8> = (0..pre + len + post).map(|_| 1 + rng.below(255) as u8).collect();
    (m, pre)
}

const ALPHA: &[&str] = &["a", "Z", "0", "_", " ", "é", "漢", "\0", "%s", "\u{1F600}", "\n", "xy"];

fn gen_str(rng: &mut Rng, max: u64) -> String {
    let n = rng.below(max + 1);
    (0..n).map(|_| *rng.pick(ALPHA)).collect()
}

fn sizes(rng: &mut Rng, total: usize, exhaustive: bool) -> Vec<usize> {
    if exhaustive || total <= 64 {
        // every size up to total+3, plus two roomier buffers
        let mut v: Vec<usize> = (0..=total + 3).collect();
        v.push(total + 4 + rng.below(8) as usize);
        v.push(total + 12 + rng.below(64) as usize);
        v
    } else {
        let mut v = vec![0, 1, 2, total - 1, total, total + 1, total + 2, total + 3];
        for _ in 0..8 {
            v.push(rng.below(total as u64 + 4) as usize);
        }
        v.sort();
        v.dedup();
        v
    }
}

fn run_value<T: fmt::Display>(rec: &mut Recorder, rng: &mut Rng, v: &T, kind: &str, exhaustive: bool) {
    let (frags, fails) = capture(v);
    let total: usize = frags.iter().map(|f| f.len()).sum();
    rec.begin_case();
    rec.count(&format!("kind:{kind}"));
    rec.count(&format!("frags:{}", match frags.len() { 0 => "0", 1 => "1", 2..=4 => "2-4", 5..=16 => "5-16", _ => "17+" }));
    rec.count(&format!("total:{}", match total { 0 => "0", 1..=8 => "1-8", 9..=64 => "9-64", 65..=512 => "65-512", _ => "513+" }));
    if frags.iter().any(|f| f.is_empty()) {
        rec.count("has-empty-fragment");
    }
    if frags.iter().any(|f| f.contains('\0')) {
        rec.count("has-nul-in-text");
    }
    if fails {
        rec.count("display-fails");
    }
    let ne = frags.iter().filter(|f| !f.is_empty()).count();
    if ne >= 2 {
        rec.nontrivial(fnv(&format!("{fails}{frags:?}")));
    }
    if ne >= 2 {
        rec.sample(format!("{kind}: {} fragments, total {total}, e.g. {:?}", frags.len(), &frags[..frags.len().min(6)]));
    }
    for len in sizes(rng, total, exhaustive) {
        let (mem, base) = mem_image(rng, len);
        rec.count(if fails { "fit:n/a" } else if total + 1 <= len { "fit:yes" } else { "fit:no" });
        one(rec, &mem, base, len, v, &frags, fails);
    }
}

fn gen_frags(rng: &mut Rng, big: bool) -> Frags {
    let n = match rng.below(10) {
        0 => 0,
        1 => 1,
        2..=7 => rng.range(2, 6),
        _ => rng.range(7, 24),
    };
    let max = if big && rng.chance(1, 8) { 120 } else { 6 };
    let frags = (0..n)
        .map(|_| if rng.chance(1, 6) { String::new() } else { gen_str(rng, max) })
        .collect();
    Frags { frags, fails: rng.chance(1, 12) }
}

fn gen_mixed(rng: &mut Rng) -> Mixed {
    let mut idb = [0u8; 32];
    for b in idb.iter_mut() {
        *b = rng.next_u64() as u8;
    }
    if rng.chance(1, 5) {
        idb = [0u8; 32];
    }
    Mixed {
        name: gen_str(rng, 5),
        n: match rng.below(4) {
            0 => 0,
            1 => i64::MIN,
            2 => rng.next_u64() as i64,
            _ => rng.below(1000) as i64 - 500,
        },
        width: rng.below(70) as usize,
        x: rng.next_u64() >> rng.below(64),
        c: *rng.pick(&['a', '\0', '\n', 'é', '漢', '\'']),
        fl: (rng.next_u64() as f64) / 1e7 - 1e6,
        id: aranya_id::BaseId::from_bytes(idb),
        which: rng.below(6) as u8,
    }
}

fn replay(rec: &mut Recorder, lines: &[String]) {
    for l in lines {
        let t: Vec<&str> = l.split(' ').collect();
        if t.len() < 5 || t[0] != "wcs" {
            rec.notes.push(format!("replay: skipped line `{l}`"));
            continue;
        }
        let (Ok(base), Ok(len), Some(mem)) = (t[1].parse::<usize>(), t[2].parse::<usize>(), unhex(t[3])) else {
            rec.notes.push(format!("replay: bad line `{l}`"));
            continue;
        };
        let fails = t[4] == "1";
        let frags: Option<Vec<String>> =
            t[5..].iter().map(|h| unhex(h).and_then(|b| String::from_utf8(b).ok())).collect();
        let Some(frags) = frags else {
            rec.notes.push(format!("replay: fragment is not UTF-8 in `{l}`"));
            continue;
        };
        if base + len > mem.len() {
            rec.notes.push(format!("replay: region outside memory in `{l}`"));
            continue;
        }
        rec.begin_case();
        let v = Frags { frags: frags.clone(), fails };
        one(rec, &mem, base, len, &v, &frags, fails);
    }
}

fn main() {
    let args = Args::parse();
    vh::quiet_panics();
    let mut rec = Recorder::new(&args.out);
    if let Some(p) = &args.replay {
        let lines = vh::read_replay_input(p);
        replay(&mut rec, &lines);
        rec.finish(args.seed, &args.tier);
        return;
    }
    let mut rng = Rng::new(args.seed);
    let big = args.thorough() || args.search;
    // fixed corner values first
    let fixed: Vec<Frags> = vec![
        Frags { frags: vec![], fails: false },
        Frags { frags: vec![String::new()], fails: false },
        Frags { frags: vec![String::new(), String::new()], fails: false },
        Frags { frags: vec!["hello, world".into()], fails: false },
        Frags { frags: vec!["a".into(), "".into(), "b".into()], fails: false },
        Frags { frags: vec!["\0".into(), "x".into()], fails: false },
        Frags { frags: vec!["ab".into(), "cd".into()], fails: true },
        Frags { frags: vec![], fails: true },
    ];
    for v in &fixed {
        run_value(&mut rec, &mut rng, v, "fixed", true);
    }
    // plain std values through the same path
    run_value(&mut rec, &mut rng, &"plain &str", "std", true);
    run_value(&mut rec, &mut rng, &u128::MAX, "std", true);
    run_value(&mut rec, &mut rng, &format_args!("{}-{:>5}-{}", 1, "ab", 'c'), "std", true);
    let n_frag = args.budget(260, 4000);
    let n_mixed = args.budget(140, 2000);
    for _ in 0..n_frag {
        let v = gen_frags(&mut rng, big);
        run_value(&mut rec, &mut rng, &v, "frags", false);
    }
    for _ in 0..n_mixed {
        let v = gen_mixed(&mut rng);
        run_value(&mut rec, &mut rng, &v, "format", false);
    }
    rec.notes.push("every value is tried at every buffer size 0..=total+3 (sampled around the boundary when total > 64), each with fresh non-zero guard and fill bytes".into());
    rec.finish(args.seed, &args.tier);
}
