//! C44 — `Lender` / `Loan` / `BiArc` (`aranya_fast_channels::memory::lender`, re-exported by the
//! cfg-gated `verif` module) under a cooperative scheduler.
//!
//! 2–3 REAL threads share one real `Lender<Payload, u64>`.  The scheduler decides every step:
//! which idle thread starts which call (`lend`, `shared`, drop of the `Lender`, `get_mut` on the
//! thread's `Loan`, drop of the `Loan`) — restricted only by what Rust's ownership rules allow
//! a client to do — and which thread parked inside a call performs its next atomic operation
//! (the hooks park threads before `state.swap(SHARED)`, `state.load()`, `state.swap(UNSHARED)`,
//! the free, and the harness parks a thread that got `Some` from `get_mut` before it uses the
//! references).  Exhaustive enumeration of all schedules up to a decision depth + seeded random
//! schedules.  Every step is one request line for the Lean transition system (`drv_c44`) with
//! what the real code did: next yield point, whether the thread now owns a `Loan`, how many
//! times the allocation was freed.
//!
//! S-level oracle (independent of the Lean model), from the alloc/free/access notifications
//! (address based, checked *before* the real access happens) and the results:
//!   * at most one live `Loan` at any time;
//!   * a `get_mut` that starts after the `Lender`'s drop returned yields `None`;
//!   * freed at most once; never while the `Lender` is undropped or a `Loan` is live; exactly
//!     once after everything was dropped (no leak);
//!   * no operation touches the allocation after its free.

use std::{
    cell::UnsafeCell,
    sync::{
        atomic::{AtomicBool, AtomicUsize, Ordering},
        Arc, Mutex as StdMutex,
    },
};

use aranya_fast_channels::verif as fv;
use vh::{
    coop::{self, Chooser, Dfs, Sched, St},
    fnv, Args, Recorder, Rng,
};

const MAGIC: u64 = 0x5eed_c0de_1234_abcd;

struct Payload {
    magic: u64,
}

type L = fv::Lender<Payload, u64>;
type N = fv::Loan<Payload, u64>;

/// allocation tracker fed by the memory hook
#[derive(Default)]
struct Tracker {
    live: Vec<usize>,
    allocs: usize,
    frees: usize,
    viol: Vec<String>,
    /// harness bookkeeping for "never freed while a handle is live"
    lender_dropped: bool,
    loans_live: usize,
}

static TRACK: StdMutex<Option<Tracker>> = StdMutex::new(None);

fn with_track<R>(f: impl FnOnce(&mut Tracker) -> R) -> Option<R> {
    TRACK.lock().unwrap().as_mut().map(f)
}

fn yield_hook(label: &'static str) {
    coop::yield_point(label);
}

fn mem_hook(ev: &'static str, addr: usize) {
    let bad = with_track(|t| match ev {
        "alloc" => {
            t.live.push(addr);
            t.allocs += 1;
            None
        }
        "free" => {
            if let Some(i) = t.live.iter().position(|a| *a == addr) {
                t.live.remove(i);
                t.frees += 1;
                if !t.lender_dropped || t.loans_live > 0 {
                    t.viol.push(format!(
                        "freed while a handle is live (lender dropped: {}, live loans: {})",
                        t.lender_dropped, t.loans_live
                    ));
                }
                None
            } else {
                t.frees += 1;
                t.viol.push("double free".into());
                Some("double free")
            }
        }
        "access" => {
            if t.live.contains(&addr) {
                None
            } else {
                t.viol.push("operation on the allocation after it was freed".into());
                Some("use after free")
            }
        }
        _ => None,
    })
    .flatten();
    if let Some(b) = bad {
        // do not let the real code touch freed memory: unwind out of it (never from inside an
        // unwind: a second panic would abort the process)
        if !std::thread::panicking() {
            panic!("{b}");
        }
    }
}

/// A `Loan` owned by a worker.  If the worker unwinds (a violation was detected and the hook
/// panicked) the `Loan` is leaked instead of dropped, so that no further real operation runs
/// on a possibly freed allocation.
struct Held(Option<N>);

impl Drop for Held {
    fn drop(&mut self) {
        if std::thread::panicking() {
            std::mem::forget(self.0.take());
        }
    }
}

#[derive(Clone, Copy, PartialEq, Debug)]
enum Cmd {
    Lend,
    Shared,
    LDrop,
    Get,
    NDrop,
    Exit,
}

impl Cmd {
    fn name(self) -> &'static str {
        match self {
            Cmd::Lend => "lend",
            Cmd::Shared => "shared",
            Cmd::LDrop => "ldrop",
            Cmd::Get => "get",
            Cmd::NDrop => "ndrop",
            Cmd::Exit => "exit",
        }
    }
}

struct Shared {
    lender: UnsafeCell<Option<L>>,
    cmd: Vec<StdMutex<Option<Cmd>>>,
    has_loan: Vec<AtomicBool>,
    /// the Lender's drop has returned
    revoked: AtomicBool,
    freed_seen: AtomicUsize,
    viol: StdMutex<Vec<String>>,
}
// SAFETY: the cooperative scheduler runs one worker at a time and only offers the calls that
// Rust's borrow rules would allow (no `lend`/`shared` while or after the Lender is dropped).
unsafe impl Sync for Shared {}

fn worker(sh: Arc<Shared>, sched: Arc<Sched>, t: usize) {
    let _g = coop::enter(&sched, t);
    let mut held = Held(None);
    let loan = &mut held.0;
    loop {
        coop::yield_point("idle");
        let cmd = sh.cmd[t].lock().unwrap().take().unwrap_or(Cmd::Exit);
        match cmd {
            Cmd::Lend => {
                // SAFETY: see `Shared`
                let l = unsafe { (*sh.lender.get()).as_ref().expect("lender alive") };
                if let Some(n) = l.lend() {
                    let live = with_track(|t| {
                        t.loans_live += 1;
                        t.loans_live
                    })
                    .unwrap_or(0);
                    if live > 1 || loan.is_some() {
                        sh.viol.lock().unwrap().push(format!("two live loans ({live})"));
                    }
                    // a thread keeps at most one loan: drop a second one immediately (never happens)
                    if loan.is_none() {
                        *loan = Some(n);
                    }
                }
                sh.has_loan[t].store(loan.is_some(), Ordering::SeqCst);
            }
            Cmd::Shared => {
                // SAFETY: see `Shared`
                let l = unsafe { (*sh.lender.get()).as_ref().expect("lender alive") };
                let s = l.shared();
                if s.magic != MAGIC {
                    sh.viol.lock().unwrap().push("shared data corrupted".into());
                }
            }
            Cmd::LDrop => {
                // SAFETY: see `Shared`
                let l = unsafe { (*sh.lender.get()).take().expect("lender alive") };
                with_track(|t| t.lender_dropped = true);
                drop(l);
                sh.revoked.store(true, Ordering::SeqCst);
            }
            Cmd::Get => {
                let started_after_revocation = sh.revoked.load(Ordering::SeqCst);
                let n = loan.as_mut().expect("owns a loan");
                match n.get_mut() {
                    Some((s, x)) => {
                        if started_after_revocation {
                            sh.viol.lock().unwrap().push("get_mut returned Some after the Lender's drop returned".into());
                        }
                        let addr = s as *const Payload as usize;
                        coop::yield_point("use");
                        // the references are used later: the allocation must still be live
                        let live = with_track(|t| t.live.iter().any(|b| *b <= addr && addr < *b + 64)).unwrap_or(true);
                        if !live {
                            with_track(|t| t.viol.push("references from get_mut used after the free".into()));
                            panic!("use after free");
                        }
                        if s.magic != MAGIC {
                            sh.viol.lock().unwrap().push("shared data corrupted".into());
                        }
                        *x += 1;
                    }
                    None => {}
                }
            }
            Cmd::NDrop => {
                let n = loan.take().expect("owns a loan");
                with_track(|t| t.loans_live -= 1);
                sh.has_loan[t].store(false, Ordering::SeqCst);
                drop(n);
            }
            Cmd::Exit => break,
        }
        sh.freed_seen.store(with_track(|t| t.frees).unwrap_or(0), Ordering::SeqCst);
    }
    // a loan still owned at exit is dropped here (outside the schedule; still tracked)
    if let Some(n) = loan.take() {
        with_track(|t| t.loans_live -= 1);
        drop(n);
    }
}

#[derive(Clone, Debug, PartialEq)]
enum Act {
    Start(usize, Cmd),
    Step(usize, &'static str),
}

impl Act {
    fn line(&self) -> String {
        match self {
            Act::Start(t, c) => format!("{} {t}", c.name()),
            Act::Step(t, l) => format!("s {t} {l}"),
        }
    }
}

enum Mode<'a> {
    Dfs(&'a mut Dfs),
    Random { rng: &'a mut Rng, budget: usize },
    Replay { acts: Vec<String>, pos: usize },
}

struct Outcome {
    steps: usize,
    lends_some: usize,
    lends_none: usize,
    gets_some: usize,
    gets_none: usize,
    sig: u64,
}

fn run_case(rec: &mut Recorder, n: usize, mode: &mut Mode) -> Outcome {
    *TRACK.lock().unwrap() = Some(Tracker::default());
    let sh = Arc::new(Shared {
        lender: UnsafeCell::new(Some(L::new(Payload { magic: MAGIC }, 0u64))),
        cmd: (0..n).map(|_| StdMutex::new(None)).collect(),
        has_loan: (0..n).map(|_| AtomicBool::new(false)).collect(),
        revoked: AtomicBool::new(false),
        freed_seen: AtomicUsize::new(0),
        viol: StdMutex::new(vec![]),
    });
    let sched = Sched::new(n);
    let mut handles = vec![];
    for t in 0..n {
        let (sh, sched) = (sh.clone(), sched.clone());
        handles.push(std::thread::spawn(move || worker(sh, sched, t)));
    }
    rec.line(format!("new {n}"), "ok");
    let mut out = Outcome { steps: 0, lends_some: 0, lends_none: 0, gets_some: 0, gets_none: 0, sig: 0 };
    let mut fails: Vec<String> = vec![];
    let mut sig = String::new();
    // scheduler-side mirror of what the client program may do next (ownership rules)
    let mut lender_alive = true;
    let mut in_lender_call = vec![false; n];
    let mut stuck = false;
    let mut clean_finish = false;
    loop {
        let st = match sched.quiesce() {
            Ok(s) => s,
            Err(e) => {
                fails.push(e);
                stuck = true;
                break;
            }
        };
        if let Some(p) = st.iter().position(|s| *s == St::Panicked) {
            fails.push(format!("thread {p} panicked (stopped before touching freed memory)"));
        }
        if st.iter().all(|s| matches!(s, St::Done | St::Panicked)) {
            break;
        }
        let mut opts: Vec<Act> = vec![];
        for t in 0..n {
            match st[t] {
                St::AtYield("idle") => {
                    let has = sh.has_loan[t].load(Ordering::SeqCst);
                    if lender_alive {
                        opts.push(Act::Start(t, Cmd::Lend));
                        opts.push(Act::Start(t, Cmd::Shared));
                        if in_lender_call.iter().all(|b| !*b) {
                            opts.push(Act::Start(t, Cmd::LDrop));
                        }
                    }
                    if has {
                        opts.push(Act::Start(t, Cmd::Get));
                        opts.push(Act::Start(t, Cmd::NDrop));
                    }
                }
                St::AtYield(l) => opts.push(Act::Step(t, l)),
                _ => {}
            }
        }
        let all_idle = (0..n).all(|t| matches!(st[t], St::AtYield("idle") | St::Done | St::Panicked));
        let finished = all_idle && !lender_alive && (0..n).all(|t| !sh.has_loan[t].load(Ordering::SeqCst));
        let over_budget = match mode {
            Mode::Random { budget, .. } => out.steps >= *budget,
            Mode::Replay { acts, pos } => *pos >= acts.len(),
            Mode::Dfs(d) => out.steps >= d.depth,
        };
        if finished || opts.is_empty() {
            clean_finish = finished;
            // end of the run: tell every idle thread to exit
            for t in 0..n {
                if st[t] == St::AtYield("idle") {
                    *sh.cmd[t].lock().unwrap() = Some(Cmd::Exit);
                    let _ = sched.grant(t);
                }
            }
            continue;
        }
        let act = if over_budget {
            // wind down: finish the calls in progress, then drop the Lender, then the Loans
            opts.iter()
                .find(|a| matches!(a, Act::Step(..)))
                .or_else(|| opts.iter().find(|a| matches!(a, Act::Start(_, Cmd::LDrop))))
                .or_else(|| opts.iter().find(|a| matches!(a, Act::Start(_, Cmd::NDrop))))
                .cloned()
                .unwrap_or_else(|| opts[0].clone())
        } else {
            match mode {
                Mode::Dfs(d) => {
                    // prune symmetric / uninformative branches: only thread 0 drops the Lender,
                    // `shared` only from thread 0
                    let o: Vec<Act> = opts
                        .iter()
                        .filter(|a| !matches!(a, Act::Start(t, Cmd::LDrop | Cmd::Shared) if *t != 0))
                        .cloned()
                        .collect();
                    o[d.choose(o.len())].clone()
                }
                Mode::Random { rng, .. } => {
                    // favour finishing calls a little, keep LDrop rarer so that runs are long
                    let a = rng.pick(&opts).clone();
                    if matches!(a, Act::Start(_, Cmd::LDrop)) && rng.chance(2, 3) {
                        rng.pick(&opts).clone()
                    } else {
                        a
                    }
                }
                Mode::Replay { acts, pos } => {
                    let mut pick = None;
                    while *pos < acts.len() && pick.is_none() {
                        pick = opts.iter().find(|a| a.line() == acts[*pos]).cloned();
                        *pos += 1;
                    }
                    pick.unwrap_or_else(|| opts[0].clone())
                }
            }
        };
        out.steps += 1;
        sig.push_str(&act.line());
        sig.push(';');
        match &act {
            Act::Start(t, c) => {
                match c {
                    Cmd::Lend | Cmd::Shared => in_lender_call[*t] = true,
                    Cmd::LDrop => lender_alive = false,
                    _ => {}
                }
                *sh.cmd[*t].lock().unwrap() = Some(*c);
                let new = sched.grant(*t).unwrap_or(St::Panicked);
                rec.line(act.line(), new.label());
            }
            Act::Step(t, l) => {
                let new = sched.grant(*t).unwrap_or(St::Panicked);
                let lbl = match new {
                    St::Done => "idle",
                    s => s.label(),
                };
                if lbl == "idle" {
                    in_lender_call[*t] = false;
                }
                let has = sh.has_loan[*t].load(Ordering::SeqCst);
                let freed = with_track(|t| t.frees).unwrap_or(0);
                match (*l, lbl) {
                    ("bi.clone", _) => {
                        if has {
                            out.lends_some += 1
                        } else {
                            out.lends_none += 1
                        }
                    }
                    ("bi.load", "use") => out.gets_some += 1,
                    ("bi.load", _) => out.gets_none += 1,
                    _ => {}
                }
                rec.line(act.line(), format!("{lbl} loan={} freed={freed}", has as u8));
            }
        }
    }
    if !stuck {
        for h in handles {
            let _ = h.join();
        }
    }
    // whatever the schedule left undropped is dropped now (main thread, not scheduled)
    // SAFETY: all workers have exited
    let left = unsafe { (*sh.lender.get()).take() };
    let lender_left = left.is_some();
    if let Some(l) = left {
        with_track(|t| t.lender_dropped = true);
        let r = vh::catch(std::panic::AssertUnwindSafe(move || drop(l)));
        if r.is_err() {
            fails.push("panic while dropping the Lender at the end".into());
        }
    }
    let tr = TRACK.lock().unwrap().take().unwrap();
    let any_panic = sched.status().iter().any(|s| *s == St::Panicked);
    if clean_finish && !lender_left && !stuck && !any_panic {
        rec.line("end", format!("end freed={} uaf=0 lender=gone", tr.frees));
    }
    fails.extend(tr.viol.iter().cloned());
    fails.extend(sh.viol.lock().unwrap().drain(..));
    if !any_panic && !stuck {
        if tr.frees != 1 {
            fails.push(format!("allocation freed {} times after every handle was dropped (expected exactly once)", tr.frees));
        }
        if !tr.live.is_empty() {
            fails.push("leak: allocation still live after every handle was dropped".into());
        }
    }
    fails.sort();
    fails.dedup();
    for f in fails {
        rec.oracle_fail(f);
    }
    out.sig = fnv(&sig);
    out
}

fn account(rec: &mut Recorder, kind: &str, n: usize, o: &Outcome) {
    rec.count(&format!("runs:{kind}"));
    rec.count(&format!("threads:{n}"));
    rec.count_n("steps", o.steps as u64);
    rec.count_n("lend:some", o.lends_some as u64);
    rec.count_n("lend:none", o.lends_none as u64);
    rec.count_n("get:some", o.gets_some as u64);
    rec.count_n("get:none(revoked)", o.gets_none as u64);
    if o.lends_some > 0 && o.steps >= 6 {
        rec.nontrivial(o.sig);
    }
}

fn main() {
    let args = Args::parse();
    let mut rec = Recorder::new(&args.out);
    vh::quiet_panics();
    fv::set_hook(yield_hook);
    fv::set_mem_hook(mem_hook);

    if let Some(p) = &args.replay {
        let lines = vh::read_replay_input(p);
        let mut i = 0;
        while i < lines.len() {
            let tk: Vec<&str> = lines[i].split(' ').collect();
            if tk.len() == 2 && tk[0] == "new" {
                let n: usize = tk[1].parse().unwrap_or(2).clamp(1, 8);
                let mut j = i + 1;
                while j < lines.len() && !lines[j].starts_with("new ") {
                    j += 1;
                }
                let acts: Vec<String> = lines[i + 1..j].iter().filter(|l| *l != "end").cloned().collect();
                rec.begin_case();
                let o = run_case(&mut rec, n, &mut Mode::Replay { acts, pos: 0 });
                account(&mut rec, "replay", n, &o);
                i = j;
            } else {
                i += 1;
            }
        }
        rec.finish(args.seed, &args.tier);
        return;
    }

    let big = args.thorough() || args.search;
    let exh: &[(usize, usize)] = if big { &[(2, 9), (3, 7)] } else { &[(2, 7), (3, 5)] };
    for &(n, depth) in exh {
        let mut dfs = Dfs::new(depth);
        let mut runs = 0u64;
        loop {
            rec.begin_case();
            let o = run_case(&mut rec, n, &mut Mode::Dfs(&mut dfs));
            account(&mut rec, "exhaustive", n, &o);
            runs += 1;
            if !dfs.advance() {
                break;
            }
        }
        rec.notes.push(format!("exhaustive: {n} threads, all schedules to decision depth {depth}: {runs} runs"));
    }
    let mut rng = Rng::new(args.seed);
    let cases = args.budget(500, 5000);
    for c in 0..cases {
        let n = rng.range(2, 3) as usize;
        let budget = rng.range(8, 60) as usize;
        rec.begin_case();
        let o = run_case(&mut rec, n, &mut Mode::Random { rng: &mut rng, budget });
        account(&mut rec, "random", n, &o);
        if c < 2 {
            rec.sample(rec.current_case_lines().join("; "));
        }
    }
    rec.finish(args.seed, &args.tier);
}
