//! C29 — fact queries in policies match a fact-store model.
//!
//! Per case: a generated fact schema over int/bool/string/id/enum keys and values, a generated
//! policy SOURCE TEXT (one command/action per query shape) compiled by the real compiler, run by a
//! real `VmPolicy` inside a real `ClientState` over the real linear storage.  Every request line is
//! answered by the real code (through effects emitted by the generated commands), by a
//! `BTreeMap` fact-store oracle over *typed* keys (S level: the property itself) and — by `./check`
//! — by the Lean model over *serialized* keys (M level).
//!
//! A second stream compares the key codec itself (`ser_key`/`deser_key`, via the cfg-gated shim
//! `vm_policy::verif_api_c29`) with the model, including malformed byte strings.

use std::collections::{BTreeMap, BTreeSet};

use aranya_id::BaseId;
use aranya_policy_vm::{FactKey, HashableValue, Identifier, Text, Value};
use aranya_runtime::vm_policy::verif_api_c29 as codec;
use vh::{
    fnv, hex,
    policykit as pk,
    unhex, Args, Recorder, Rng,
};

// ------------------------------------------------------------------ typed values

#[derive(Clone, Copy, Debug, PartialEq, Eq)]
enum Ty {
    Int,
    Bool,
    Str,
    Id,
    Enum,
}

/// A key/value field value.  The derived `Ord` *is* the S-level typed order (all values in one
/// key position have the same variant): ints numerically, `false < true`, strings and ids
/// bytewise, enums by (value, name).
#[derive(Clone, Debug, PartialEq, Eq, PartialOrd, Ord)]
enum V {
    Int(i64),
    Bool(bool),
    Str(Vec<u8>),
    Id(Vec<u8>),
    Enum(i64, String),
}

const ENUM_NAME: &str = "Col";
const ENUM_VARIANTS: [&str; 3] = ["Red", "Green", "Blue"];

impl Ty {
    fn code(self) -> char {
        match self {
            Ty::Int => 'i',
            Ty::Bool => 'b',
            Ty::Str => 's',
            Ty::Id => 'd',
            Ty::Enum => 'e',
        }
    }
    fn from_code(c: char) -> Option<Ty> {
        Some(match c {
            'i' => Ty::Int,
            'b' => Ty::Bool,
            's' => Ty::Str,
            'd' => Ty::Id,
            'e' => Ty::Enum,
            _ => return None,
        })
    }
    fn src(self) -> String {
        match self {
            Ty::Int => "int".into(),
            Ty::Bool => "bool".into(),
            Ty::Str => "string".into(),
            Ty::Id => "id".into(),
            Ty::Enum => format!("enum {ENUM_NAME}"),
        }
    }
}

impl V {
    fn ty(&self) -> Ty {
        match self {
            V::Int(_) => Ty::Int,
            V::Bool(_) => Ty::Bool,
            V::Str(_) => Ty::Str,
            V::Id(_) => Ty::Id,
            V::Enum(..) => Ty::Enum,
        }
    }
    fn tok(&self) -> String {
        match self {
            V::Int(i) => format!("i{i}"),
            V::Bool(b) => format!("b{}", *b as u8),
            V::Str(s) => format!("s{}", hex(s)),
            V::Id(d) => format!("d{}", hex(d)),
            V::Enum(v, n) => format!("e{}.{v}", hex(n.as_bytes())),
        }
    }
    fn parse(t: &str) -> Option<V> {
        let (c, rest) = (t.chars().next()?, &t[1..]);
        Some(match c {
            'i' => V::Int(rest.parse().ok()?),
            'b' => V::Bool(match rest {
                "0" => false,
                "1" => true,
                _ => return None,
            }),
            's' => V::Str(unhex(rest)?),
            'd' => V::Id(unhex(rest)?),
            'e' => {
                let (n, v) = rest.split_once('.')?;
                V::Enum(v.parse().ok()?, String::from_utf8(unhex(n)?).ok()?)
            }
            _ => return None,
        })
    }
    fn to_value(&self) -> Option<Value> {
        Some(match self {
            V::Int(i) => Value::Int(*i),
            V::Bool(b) => Value::Bool(*b),
            V::Str(s) => Value::String(std::str::from_utf8(s).ok()?.parse::<Text>().ok()?),
            V::Id(d) => Value::Id(BaseId::from_bytes(d.as_slice().try_into().ok()?)),
            V::Enum(v, n) => Value::Enum(n.parse::<Identifier>().ok()?, *v),
        })
    }
    fn to_hashable(&self) -> Option<HashableValue> {
        Some(match self {
            V::Int(i) => HashableValue::Int(*i),
            V::Bool(b) => HashableValue::Bool(*b),
            V::Str(s) => HashableValue::String(std::str::from_utf8(s).ok()?.parse::<Text>().ok()?),
            V::Id(d) => HashableValue::Id(BaseId::from_bytes(d.as_slice().try_into().ok()?)),
            V::Enum(v, n) => HashableValue::Enum(n.parse::<Identifier>().ok()?, *v),
        })
    }
    fn from_hashable(h: &HashableValue) -> V {
        match h {
            HashableValue::Int(i) => V::Int(*i),
            HashableValue::Bool(b) => V::Bool(*b),
            HashableValue::String(s) => V::Str(s.as_str().as_bytes().to_vec()),
            HashableValue::Id(d) => V::Id(d.as_bytes().to_vec()),
            HashableValue::Enum(n, v) => V::Enum(*v, n.to_string()),
        }
    }
    fn from_value(v: &Value) -> Option<V> {
        Some(match v {
            Value::Int(i) => V::Int(*i),
            Value::Bool(b) => V::Bool(*b),
            Value::String(s) => V::Str(s.as_str().as_bytes().to_vec()),
            Value::Id(d) => V::Id(d.as_bytes().to_vec()),
            Value::Enum(n, v) => V::Enum(*v, n.to_string()),
            _ => return None,
        })
    }
    /// source-text literal, when the language can express the value
    fn literal(&self) -> Option<String> {
        match self {
            V::Int(i) if (0..=1_000_000).contains(i) => Some(i.to_string()),
            V::Bool(b) => Some(b.to_string()),
            V::Str(s) if s.iter().all(|c| c.is_ascii_alphanumeric() || *c == b' ') => {
                Some(format!("\"{}\"", String::from_utf8(s.clone()).unwrap()))
            }
            V::Enum(v, n) if n == ENUM_NAME && (0..3).contains(v) => {
                Some(format!("{ENUM_NAME}::{}", ENUM_VARIANTS[*v as usize]))
            }
            _ => None,
        }
    }
}

// ------------------------------------------------------------------ schema, patterns, ops

#[derive(Clone, Debug)]
struct Schema {
    keys: Vec<(String, Ty)>,
    vals: Vec<(String, Ty)>,
}

/// one position of a literal: a value passed as a command field, a value written into the
/// policy source, or `?`
#[derive(Clone, Debug, PartialEq, Eq)]
enum Pos {
    Param(V),
    Lit(V),
    Bind,
}

impl Pos {
    fn val(&self) -> Option<&V> {
        match self {
            Pos::Param(v) | Pos::Lit(v) => Some(v),
            Pos::Bind => None,
        }
    }
    fn tok(&self) -> String {
        match self {
            Pos::Param(v) => v.tok(),
            Pos::Lit(v) => format!("L{}", v.tok()),
            Pos::Bind => "?".into(),
        }
    }
    fn parse(t: &str) -> Option<Pos> {
        if t == "?" {
            Some(Pos::Bind)
        } else if let Some(r) = t.strip_prefix('L') {
            Some(Pos::Lit(V::parse(r)?))
        } else {
            Some(Pos::Param(V::parse(t)?))
        }
    }
    /// shape: what ends up in the policy source
    fn shape(&self) -> String {
        match self {
            Pos::Param(_) => "P".into(),
            Pos::Lit(v) => format!("L{}", v.tok()),
            Pos::Bind => "?".into(),
        }
    }
}

#[derive(Clone, Debug, PartialEq, Eq)]
enum Kind {
    Query,
    Exists,
    Count(i64),
    AtLeast(i64),
    AtMost(i64),
    Exactly(i64),
    Map,
}

#[derive(Clone, Debug)]
enum Op {
    Create(Vec<Pos>, Vec<Pos>),
    Delete(Vec<Pos>),
    /// keys, from-values (`None` = no `=>{..}` part), to-values
    Update(Vec<Pos>, Option<Vec<Pos>>, Vec<Pos>),
    /// bound leading keys, value pattern (`None` = no `=>{..}` part)
    Q(Kind, Vec<Pos>, Option<Vec<Pos>>),
    /// create in the second fact `G` (same schema as `F`)
    CreateG(Vec<Pos>, Vec<Pos>),
    /// several `map`s in one action: nested (2 parts: the inner one runs in the body of the outer
    /// one, directly or through a called action) or one after the other
    MapX(Shape, Vec<Part>),
}

#[derive(Clone, Copy, Debug, PartialEq, Eq)]
enum Shape {
    Nest,
    NestCall,
    Seq,
}

/// one `map` of a `MapX`: over fact `F` or `G`; `at`: the first key is bound to the first key of
/// the fact the OUTER map is visiting (`keys` then holds the bound keys after it)
#[derive(Clone, Debug)]
struct Part {
    fact: char,
    at: bool,
    keys: Vec<Pos>,
    pat: Option<Vec<Pos>>,
}

fn toks(ps: &[Pos]) -> String {
    ps.iter().map(|p| p.tok()).collect::<Vec<_>>().join(" ")
}
fn opt_toks(ps: &Option<Vec<Pos>>) -> String {
    match ps {
        None => "-".into(),
        Some(p) => toks(p),
    }
}

impl Op {
    fn line(&self) -> String {
        let j = |parts: Vec<String>| parts.into_iter().filter(|s| !s.is_empty()).collect::<Vec<_>>().join(" ");
        match self {
            Op::Create(k, v) => j(vec!["create".into(), toks(k), "/".into(), toks(v)]),
            Op::Delete(k) => j(vec!["delete".into(), toks(k)]),
            Op::Update(k, f, t) => j(vec!["update".into(), toks(k), "/".into(), opt_toks(f), "/".into(), toks(t)]),
            Op::CreateG(k, v) => j(vec!["createg".into(), toks(k), "/".into(), toks(v)]),
            Op::MapX(shape, parts) => {
                let sh = match shape {
                    Shape::Nest => "nest",
                    Shape::NestCall => "nestcall",
                    Shape::Seq => "seq",
                };
                let ps: Vec<String> = parts
                    .iter()
                    .map(|p| j(vec![p.fact.to_string(), if p.at { "@".into() } else { String::new() }, toks(&p.keys), "/".into(), opt_toks(&p.pat)]))
                    .collect();
                format!("mapx {sh} {}", ps.join(" // "))
            }
            Op::Q(kind, k, p) => {
                let head = match kind {
                    Kind::Query => "query".to_string(),
                    Kind::Exists => "exists".to_string(),
                    Kind::Count(n) => format!("count {n}"),
                    Kind::AtLeast(n) => format!("atleast {n}"),
                    Kind::AtMost(n) => format!("atmost {n}"),
                    Kind::Exactly(n) => format!("exactly {n}"),
                    Kind::Map => "map".to_string(),
                };
                j(vec![head, toks(k), "/".into(), opt_toks(p)])
            }
        }
    }
    /// what distinguishes one generated command from another
    fn shape(&self) -> String {
        let sh = |ps: &[Pos]| ps.iter().map(|p| p.shape()).collect::<Vec<_>>().join(",");
        let osh = |ps: &Option<Vec<Pos>>| match ps {
            None => "-".to_string(),
            Some(p) => sh(p),
        };
        match self {
            Op::Create(k, v) => format!("create[{}]{{{}}}", sh(k), sh(v)),
            Op::Delete(k) => format!("delete[{}]", sh(k)),
            Op::Update(k, f, t) => format!("update[{}]{{{}}}{{{}}}", sh(k), osh(f), sh(t)),
            Op::Q(kind, k, p) => format!("{kind:?}[{}]{{{}}}", sh(k), osh(p)),
            Op::CreateG(k, v) => format!("createg[{}]{{{}}}", sh(k), sh(v)),
            Op::MapX(shape, parts) => format!(
                "{shape:?}:{}",
                parts.iter().map(|p| format!("{}{}[{}]{{{}}}", p.fact, if p.at { "@" } else { "" }, sh(&p.keys), osh(&p.pat))).collect::<Vec<_>>().join("//")
            ),
        }
    }
    fn params(&self) -> Vec<V> {
        fn add(ps: &[Pos], out: &mut Vec<V>) {
            for p in ps {
                if let Pos::Param(v) = p {
                    out.push(v.clone());
                }
            }
        }
        let mut out = vec![];
        match self {
            Op::Create(k, v) => {
                add(k, &mut out);
                add(v, &mut out);
            }
            Op::Delete(k) => add(k, &mut out),
            Op::Update(k, f, t) => {
                add(k, &mut out);
                if let Some(f) = f {
                    add(f, &mut out);
                }
                add(t, &mut out);
            }
            Op::Q(_, k, p) => {
                add(k, &mut out);
                if let Some(p) = p {
                    add(p, &mut out);
                }
            }
            Op::CreateG(k, v) => {
                add(k, &mut out);
                add(v, &mut out);
            }
            Op::MapX(_, parts) => {
                for p in parts {
                    add(&p.keys, &mut out);
                    if let Some(pt) = &p.pat {
                        add(pt, &mut out);
                    }
                }
            }
        }
        out
    }
}

fn parse_positions(ts: &[&str]) -> Option<Vec<Pos>> {
    ts.iter().map(|t| Pos::parse(t)).collect()
}
fn parse_opt_positions(ts: &[&str]) -> Option<Option<Vec<Pos>>> {
    if ts == ["-"] {
        Some(None)
    } else {
        Some(Some(parse_positions(ts)?))
    }
}

fn parse_op(line: &str) -> Option<Op> {
    let t: Vec<&str> = line.split(' ').filter(|s| !s.is_empty()).collect();
    if t[0] == "mapx" && t.len() >= 2 {
        let shape = match t[1] {
            "nest" => Shape::Nest,
            "nestcall" => Shape::NestCall,
            "seq" => Shape::Seq,
            _ => return None,
        };
        let mut parts = vec![];
        for pt in t[2..].split(|x| *x == "//") {
            let fact = match pt.first()? {
                &"F" => 'F',
                &"G" => 'G',
                _ => return None,
            };
            let (at, rest) = if pt.get(1) == Some(&"@") { (true, &pt[2..]) } else { (false, &pt[1..]) };
            let g: Vec<&[&str]> = rest.split(|x| *x == "/").collect();
            if g.len() != 2 {
                return None;
            }
            parts.push(Part { fact, at, keys: parse_positions(g[0])?, pat: parse_opt_positions(g[1])? });
        }
        let ok = match shape {
            Shape::Seq => !parts.is_empty() && parts.iter().all(|p| !p.at),
            _ => parts.len() == 2 && !parts[0].at,
        };
        return if ok { Some(Op::MapX(shape, parts)) } else { None };
    }
    let groups: Vec<&[&str]> = t[1..].split(|x| *x == "/").collect();
    match t[0] {
        "create" if groups.len() == 2 => Some(Op::Create(parse_positions(groups[0])?, parse_positions(groups[1])?)),
        "createg" if groups.len() == 2 => Some(Op::CreateG(parse_positions(groups[0])?, parse_positions(groups[1])?)),
        "delete" if groups.len() == 1 => Some(Op::Delete(parse_positions(groups[0])?)),
        "update" if groups.len() == 3 => Some(Op::Update(
            parse_positions(groups[0])?,
            parse_opt_positions(groups[1])?,
            parse_positions(groups[2])?,
        )),
        "query" | "exists" | "map" if groups.len() == 2 => {
            let kind = match t[0] {
                "query" => Kind::Query,
                "exists" => Kind::Exists,
                _ => Kind::Map,
            };
            Some(Op::Q(kind, parse_positions(groups[0])?, parse_opt_positions(groups[1])?))
        }
        "count" | "atleast" | "atmost" | "exactly" if groups.len() == 2 && !groups[0].is_empty() => {
            let n: i64 = groups[0][0].parse().ok()?;
            let kind = match t[0] {
                "count" => Kind::Count(n),
                "atleast" => Kind::AtLeast(n),
                "atmost" => Kind::AtMost(n),
                _ => Kind::Exactly(n),
            };
            Some(Op::Q(kind, parse_positions(&groups[0][1..])?, parse_opt_positions(groups[1])?))
        }
        _ => None,
    }
}

fn schema_line(s: &Schema) -> String {
    let f = |v: &[(String, Ty)]| v.iter().map(|(n, t)| format!("{n}:{}", t.code())).collect::<Vec<_>>().join(" ");
    let mut l = "schema".to_string();
    if !s.keys.is_empty() {
        l.push(' ');
        l.push_str(&f(&s.keys));
    }
    l.push_str(" /");
    if !s.vals.is_empty() {
        l.push(' ');
        l.push_str(&f(&s.vals));
    }
    l
}

fn parse_schema(line: &str) -> Option<Schema> {
    let t: Vec<&str> = line.split(' ').filter(|s| !s.is_empty()).collect();
    if t.first() != Some(&"schema") {
        return None;
    }
    let groups: Vec<&[&str]> = t[1..].split(|x| *x == "/").collect();
    if groups.len() != 2 {
        return None;
    }
    let f = |g: &[&str]| -> Option<Vec<(String, Ty)>> {
        g.iter()
            .map(|x| {
                let (n, c) = x.split_once(':')?;
                Some((n.to_string(), Ty::from_code(c.chars().next()?)?))
            })
            .collect()
    };
    Some(Schema { keys: f(groups[0])?, vals: f(groups[1])? })
}

// ------------------------------------------------------------------ policy source generation

const CMD_BOILER: &str = "    seal { return envelope::do_seal(payload) }\n    open { return envelope::do_open(payload, envelope) }\n";

struct Gen<'a> {
    schema: &'a Schema,
}

impl Gen<'_> {
    /// `F[k0: .., k1: ?]=>{v0: ..}`; parameters are taken from `this.pN` (commands) or `pN`
    /// (actions); returns the text and advances the parameter counter.
    fn fact_literal(&self, keys: &[Pos], vals: &Option<Vec<Pos>>, prefix: &str, next: &mut usize, pad_binds: bool) -> String {
        let mut ks = vec![];
        for (i, (name, _)) in self.schema.keys.iter().enumerate() {
            match keys.get(i) {
                Some(p) => ks.push(format!("{name}: {}", self.pos(p, prefix, next))),
                None if pad_binds => ks.push(format!("{name}: ?")),
                None => {}
            }
        }
        let mut s = format!("F[{}]", ks.join(", "));
        if let Some(vals) = vals {
            s.push_str(&format!("=>{{{}}}", self.vals(vals, prefix, next)));
        }
        s
    }
    fn vals(&self, vals: &[Pos], prefix: &str, next: &mut usize) -> String {
        self.schema
            .vals
            .iter()
            .zip(vals)
            .map(|((name, _), p)| format!("{name}: {}", self.pos(p, prefix, next)))
            .collect::<Vec<_>>()
            .join(", ")
    }
    fn pos(&self, p: &Pos, prefix: &str, next: &mut usize) -> String {
        match p {
            Pos::Bind => "?".into(),
            Pos::Lit(v) => v.literal().expect("literal expressible"),
            Pos::Param(_) => {
                let s = format!("{prefix}p{next}");
                *next += 1;
                s
            }
        }
    }
    /// every fact field as a declaration, each followed by ", " (a `tg` field always follows)
    fn all_fields_decl(&self) -> String {
        self.schema.keys.iter().chain(&self.schema.vals).map(|(n, t)| format!("{n} {}, ", t.src())).collect::<String>()
    }
    fn all_fields_from(&self, src: &str) -> String {
        self.schema.keys.iter().chain(&self.schema.vals).map(|(n, _)| format!("{n}: {src}.{n}, ")).collect::<String>()
    }

    fn preamble(&self) -> String {
        let mut s = String::new();
        s.push_str("use envelope\n\n");
        s.push_str(&format!("enum {ENUM_NAME} {{ {} }}\n\n", ENUM_VARIANTS.join(", ")));
        let kd = self.schema.keys.iter().map(|(n, t)| format!("{n} {}", t.src())).collect::<Vec<_>>().join(", ");
        let vd = self.schema.vals.iter().map(|(n, t)| format!("{n} {}", t.src())).collect::<Vec<_>>().join(", ");
        s.push_str(&format!("fact F[{kd}]=>{{{vd}}}\nfact G[{kd}]=>{{{vd}}}\n\n"));
        s.push_str(&format!("effect Hit {{ {}tg int }}\neffect Miss {{ }}\neffect B {{ b bool }}\neffect N {{ n int }}\neffect Done {{ }}\n\n", self.all_fields_decl()));
        s.push_str(&format!(
            "command Init {{\n    attributes {{ init: true }}\n    fields {{ nonce int }}\n{CMD_BOILER}    policy {{ finish {{}} }}\n}}\naction init(nonce int) {{ publish Init {{ nonce: nonce }} }}\n\n"
        ));
        // `map` actions end with this command so that an action that visits nothing still publishes
        // something (an action publishing no command at all is an error of `ClientState::action`)
        s.push_str(&format!(
            "command End {{\n    attributes {{ priority: 0 }}\n    fields {{ }}\n{CMD_BOILER}    policy {{ finish {{ emit Done {{ }} }} }}\n}}\n\n"
        ));
        // the command published by `map` bodies
        s.push_str(&format!(
            "command Vis {{\n    attributes {{ priority: 0 }}\n    fields {{ {}tg int }}\n{CMD_BOILER}    policy {{ finish {{ emit Hit {{ {}tg: this.tg }} }} }}\n}}\n\n",
            self.all_fields_decl(),
            self.all_fields_from("this")
        ));
        s
    }

    /// fact literal of one `MapX` part; `at`: expression for the outer fact's first key
    fn part_literal(&self, p: &Part, next: &mut usize, at: &str) -> String {
        let mut keys: Vec<String> = vec![];
        let mut given = p.keys.iter();
        for (i, (name, _)) in self.schema.keys.iter().enumerate() {
            if i == 0 && p.at {
                keys.push(format!("{name}: {at}"));
            } else {
                match given.next() {
                    Some(pos) => keys.push(format!("{name}: {}", self.pos(pos, "", next))),
                    None => keys.push(format!("{name}: ?")),
                }
            }
        }
        let mut s = format!("{}[{}]", p.fact, keys.join(", "));
        if let Some(v) = &p.pat {
            s.push_str(&format!("=>{{{}}}", self.vals(v, "", next)));
        }
        s
    }

    fn mapx_unit(&self, j: usize, fields: &str, shape: Shape, parts: &[Part]) -> String {
        let mut n = 0usize;
        let k0 = self.schema.keys.first().map(|(n, _)| n.clone()).unwrap_or_default();
        match shape {
            Shape::Seq => {
                let mut body = String::new();
                for (i, p) in parts.iter().enumerate() {
                    let lit = self.part_literal(p, &mut n, "");
                    body.push_str(&format!("    map {lit} as f{i} {{\n        publish Vis {{ {}tg: {i} }}\n    }}\n", self.all_fields_from(&format!("f{i}"))));
                }
                format!("action a{j}({fields}) {{\n{body}    publish End {{ }}\n}}\n\n")
            }
            Shape::Nest => {
                let outer = self.part_literal(&parts[0], &mut n, "");
                let inner = self.part_literal(&parts[1], &mut n, &format!("f.{k0}"));
                format!(
                    "action a{j}({fields}) {{\n    map {outer} as f {{\n        publish Vis {{ {}tg: 0 }}\n        map {inner} as g {{\n            publish Vis {{ {}tg: 1 }}\n        }}\n    }}\n    publish End {{ }}\n}}\n\n",
                    self.all_fields_from("f"),
                    self.all_fields_from("g")
                )
            }
            Shape::NestCall => {
                let outer = self.part_literal(&parts[0], &mut n, "");
                let start = n;
                let inner = self.part_literal(&parts[1], &mut n, "at0");
                // the inner action takes the parameters the inner literal uses (same names) and,
                // for `@`, the outer fact's first key
                let all: Vec<&str> = fields.split(", ").filter(|x| !x.is_empty()).collect();
                let mut decl: Vec<String> = all[start..n].iter().map(|x| x.to_string()).collect();
                let mut pass: Vec<String> = (start..n).map(|i| format!("p{i}")).collect();
                if parts[1].at {
                    decl.push(format!("at0 {}", self.schema.keys[0].1.src()));
                    pass.push(format!("f.{k0}"));
                }
                format!(
                    "action b{j}({}) {{\n    map {inner} as g {{\n        publish Vis {{ {}tg: 1 }}\n    }}\n}}\naction a{j}({fields}) {{\n    map {outer} as f {{\n        publish Vis {{ {}tg: 0 }}\n        action b{j}({})\n    }}\n    publish End {{ }}\n}}\n\n",
                    decl.join(", "),
                    self.all_fields_from("g"),
                    self.all_fields_from("f"),
                    pass.join(", ")
                )
            }
        }
    }

    /// the command + action for one op shape; `j` numbers them
    fn unit(&self, j: usize, op: &Op) -> String {
        let params: Vec<Ty> = op.params().iter().map(|v| v.ty()).collect();
        let fields = params.iter().enumerate().map(|(i, t)| format!("p{i} {}", t.src())).collect::<Vec<_>>().join(", ");
        let pass = (0..params.len()).map(|i| format!("p{i}: p{i}")).collect::<Vec<_>>().join(", ");
        let mut n = 0usize;
        if let Op::Q(Kind::Map, k, p) = op {
            let lit = self.fact_literal(k, p, "", &mut n, true);
            return format!(
                "action a{j}({fields}) {{\n    map {lit} as f {{\n        publish Vis {{ {}tg: 0 }}\n    }}\n    publish End {{ }}\n}}\n\n",
                self.all_fields_from("f")
            );
        }
        if let Op::MapX(shape, parts) = op {
            return self.mapx_unit(j, &fields, *shape, parts);
        }
        let body = match op {
            Op::Create(k, v) => {
                let lit = self.fact_literal(k, &Some(v.clone()), "this.", &mut n, false);
                format!("        finish {{\n            create {lit}\n            emit Done {{ }}\n        }}\n")
            }
            Op::CreateG(k, v) => {
                let lit = self.fact_literal(k, &Some(v.clone()), "this.", &mut n, false).replacen("F[", "G[", 1);
                format!("        finish {{\n            create {lit}\n            emit Done {{ }}\n        }}\n")
            }
            Op::MapX(..) => unreachable!(),
            Op::Delete(k) => {
                let lit = self.fact_literal(k, &None, "this.", &mut n, false);
                format!("        finish {{\n            delete {lit}\n            emit Done {{ }}\n        }}\n")
            }
            Op::Update(k, f, t) => {
                let lit = self.fact_literal(k, f, "this.", &mut n, false);
                let to = self.vals(t, "this.", &mut n);
                format!("        finish {{\n            update {lit} to {{{to}}}\n            emit Done {{ }}\n        }}\n")
            }
            Op::Q(kind, k, p) => {
                let lit = self.fact_literal(k, p, "this.", &mut n, true);
                match kind {
                    Kind::Query => format!(
                        "        let r = query {lit}\n        if r is Some {{\n            let f = r or test_fail()\n            finish {{ emit Hit {{ {}tg: 0 }} }}\n        }} else {{\n            finish {{ emit Miss {{ }} }}\n        }}\n",
                        self.all_fields_from("f")
                    ),
                    Kind::Exists => format!("        let r = exists {lit}\n        finish {{ emit B {{ b: r }} }}\n"),
                    Kind::Count(l) => format!("        let r = count_up_to {l} {lit}\n        finish {{ emit N {{ n: r }} }}\n"),
                    Kind::AtLeast(l) => format!("        let r = at_least {l} {lit}\n        finish {{ emit B {{ b: r }} }}\n"),
                    Kind::AtMost(l) => format!("        let r = at_most {l} {lit}\n        finish {{ emit B {{ b: r }} }}\n"),
                    Kind::Exactly(l) => format!("        let r = exactly {l} {lit}\n        finish {{ emit B {{ b: r }} }}\n"),
                    Kind::Map => unreachable!(),
                }
            }
        };
        format!(
            "command C{j} {{\n    attributes {{ priority: 0 }}\n    fields {{ {fields} }}\n{CMD_BOILER}    policy {{\n{body}    }}\n}}\naction a{j}({fields}) {{ publish C{j} {{ {pass} }} }}\n\n"
        )
    }
}

// ------------------------------------------------------------------ oracle (S level)

type Store = BTreeMap<Vec<V>, Vec<(String, V)>>;

fn vals_match(schema: &Schema, pat: &Option<Vec<Pos>>, vals: &[(String, V)]) -> bool {
    match pat {
        None => true,
        Some(ps) => schema.vals.iter().zip(ps).all(|((name, _), p)| match p.val() {
            None => true,
            Some(v) => vals.iter().any(|(n, w)| n == name && w == v),
        }),
    }
}

fn matches<'a>(schema: &Schema, st: &'a Store, keys: &[Pos], pat: &Option<Vec<Pos>>) -> Vec<(&'a Vec<V>, &'a Vec<(String, V)>)> {
    let bound: Vec<&V> = keys.iter().filter_map(|p| p.val()).collect();
    st.iter()
        .filter(|(k, v)| k.len() >= bound.len() && k.iter().zip(&bound).all(|(a, b)| a == *b) && vals_match(schema, pat, v))
        .collect()
}

fn show_fact(schema: &Schema, k: &[V], v: &[(String, V)]) -> String {
    let ks: Vec<String> = schema.keys.iter().zip(k).map(|((n, _), x)| format!("{n}={}", x.tok())).collect();
    let mut vs: Vec<String> = v.iter().map(|(n, x)| format!("{n}={}", x.tok())).collect();
    vs.sort();
    format!("{}|{}", ks.join(","), vs.join(","))
}

/// render a `Hit` effect as a fact
fn show_hit(schema: &Schema, e: &aranya_runtime::VmEffect) -> String {
    let get = |n: &str| e.fields.iter().find(|kv| kv.key().as_str() == n).and_then(|kv| V::from_value(kv.value()));
    let ks: Vec<String> = schema.keys.iter().map(|(n, _)| format!("{n}={}", get(n).map(|v| v.tok()).unwrap_or("?".into()))).collect();
    let mut vs: Vec<String> = schema.vals.iter().map(|(n, _)| format!("{n}={}", get(n).map(|v| v.tok()).unwrap_or("?".into()))).collect();
    vs.sort();
    format!("{}|{}", ks.join(","), vs.join(","))
}

// ------------------------------------------------------------------ running one case

fn all_vals(ps: &[Pos]) -> Vec<V> {
    ps.iter().filter_map(|p| p.val().cloned()).collect()
}

fn run_case(rec: &mut Recorder, lines: &[String]) {
    let Some(schema) = lines.first().and_then(|l| parse_schema(l)) else {
        rec.notes.push("replay without schema line".into());
        return;
    };
    rec.line(lines[0].clone(), "ok");
    let ops: Vec<(String, Option<Op>)> = lines[1..].iter().map(|l| (l.clone(), parse_op(l))).collect();
    // one command per distinct shape
    let mut shapes: BTreeMap<String, usize> = BTreeMap::new();
    let mut units = vec![];
    let gen = Gen { schema: &schema };
    for (_, op) in &ops {
        if let Some(op) = op {
            let sh = op.shape();
            if !shapes.contains_key(&sh) {
                let j = shapes.len();
                shapes.insert(sh, j);
                units.push(gen.unit(j, op));
            }
        }
    }
    let src = format!("{}{}", gen.preamble(), units.join(""));
    let module = match pk::compile(&src, true) {
        pk::Compiled::Ok(m) => m,
        pk::Compiled::ParseError(e) | pk::Compiled::Rejected(e) => {
            rec.count("compile-rejected");
            rec.oracle_fail(format!("generated policy was not accepted: {}", e.lines().take(6).collect::<Vec<_>>().join(" | ")));
            if rec.samples.len() < 5 {
                rec.samples.push(src);
            }
            return;
        }
    };
    let mut w = match pk::World::new(module) {
        Ok(w) => w,
        Err(e) => {
            rec.oracle_fail(format!("world: {e}"));
            return;
        }
    };
    if rec.cases() <= 1 {
        rec.sample(src.clone());
    }
    let mut st: Store = BTreeMap::new();
    let mut stg: Store = BTreeMap::new();
    for (line, op) in &ops {
        let Some(op) = op else {
            rec.line(line.clone(), "bad-op");
            continue;
        };
        let j = shapes[&op.shape()];
        let args: Option<Vec<Value>> = op.params().iter().map(|v| v.to_value()).collect();
        let Some(args) = args else {
            rec.line(line.clone(), "bad-op");
            continue;
        };
        let name = format!("a{j}");
        let (res, sink) = match vh::catch(std::panic::AssertUnwindSafe(|| w.act(&name, &args))) {
            Ok(x) => x,
            Err(p) => {
                rec.panics.push(format!("{line}: {p}"));
                rec.line(line.clone(), "panic");
                continue;
            }
        };
        let effects = sink.effects();
        let real: String = match (&res, op) {
            (Err(_), _) => "err".into(),
            (Ok(()), Op::Create(..) | Op::CreateG(..) | Op::Delete(..) | Op::Update(..)) => "ok".into(),
            (Ok(()), Op::MapX(..)) => {
                let tag = |e: &aranya_runtime::VmEffect| {
                    e.fields.iter().find(|kv| kv.key().as_str() == "tg").map(|kv| pk::show_value(kv.value())).unwrap_or("?".into())
                };
                format!(
                    "[{}]",
                    effects.iter().filter(|e| e.name.as_str() == "Hit").map(|e| format!("{}:{}", tag(e).trim_start_matches('i'), show_hit(&schema, e))).collect::<Vec<_>>().join(";")
                )
            }
            (Ok(()), Op::Q(Kind::Query, ..)) => match effects.first() {
                Some(e) if e.name.as_str() == "Hit" => show_hit(&schema, e),
                Some(e) if e.name.as_str() == "Miss" => "none".into(),
                _ => "no-effect".into(),
            },
            (Ok(()), Op::Q(Kind::Map, ..)) => {
                format!("[{}]", effects.iter().filter(|e| e.name.as_str() == "Hit").map(|e| show_hit(&schema, e)).collect::<Vec<_>>().join(";"))
            }
            (Ok(()), Op::Q(..)) => match effects.first() {
                Some(e) => pk::show_fields(&e.fields).split('=').nth(1).unwrap_or("?").to_string(),
                None => "no-effect".into(),
            },
        };
        rec.line(line.clone(), real.clone());

        // ---- S-level oracle
        let want: Option<String> = match op {
            Op::CreateG(k, v) => {
                let key = all_vals(k);
                let vals: Vec<(String, V)> = schema.vals.iter().map(|(n, _)| n.clone()).zip(all_vals(v)).collect();
                if stg.contains_key(&key) {
                    rec.count(&format!("unspecified:create-existing:{real}"));
                    if real == "ok" {
                        stg.insert(key, vals);
                    }
                    None
                } else {
                    stg.insert(key, vals);
                    Some("ok".into())
                }
            }
            Op::MapX(shape, parts) => {
                let store_of = |c: char| if c == 'F' { &st } else { &stg };
                let mut out: Vec<String> = vec![];
                match shape {
                    Shape::Seq => {
                        for (i, p) in parts.iter().enumerate() {
                            for (k, v) in matches(&schema, store_of(p.fact), &p.keys, &p.pat) {
                                out.push(format!("{i}:{}", show_fact(&schema, k, v)));
                            }
                        }
                    }
                    _ => {
                        let outer = matches(&schema, store_of(parts[0].fact), &parts[0].keys, &parts[0].pat);
                        rec.count(&format!("nested-outer-matches:{}", outer.len().min(3)));
                        for (k, v) in outer {
                            out.push(format!("0:{}", show_fact(&schema, k, v)));
                            let mut ik: Vec<Pos> = vec![];
                            if parts[1].at {
                                ik.push(Pos::Param(k[0].clone()));
                            }
                            ik.extend(parts[1].keys.iter().cloned());
                            for (k2, v2) in matches(&schema, store_of(parts[1].fact), &ik, &parts[1].pat) {
                                out.push(format!("1:{}", show_fact(&schema, k2, v2)));
                            }
                        }
                    }
                }
                Some(format!("[{}]", out.join(";")))
            }
            Op::Create(k, v) => {
                let key = all_vals(k);
                let vals: Vec<(String, V)> = schema.vals.iter().map(|(n, _)| n.clone()).zip(all_vals(v)).collect();
                if st.contains_key(&key) {
                    // creating an existing fact: outside the property ("creating absent facts");
                    // the oracle follows either sensible outcome
                    rec.count(&format!("unspecified:create-existing:{real}"));
                    if real == "ok" {
                        st.insert(key, vals);
                    }
                    None
                } else {
                    st.insert(key, vals);
                    Some("ok".into())
                }
            }
            Op::Delete(k) => {
                let key = all_vals(k);
                if st.remove(&key).is_some() {
                    Some("ok".into())
                } else {
                    rec.count(&format!("unspecified:delete-missing:{real}"));
                    None
                }
            }
            Op::Update(k, f, t) => {
                let key = all_vals(k);
                let newv: Vec<(String, V)> = schema.vals.iter().map(|(n, _)| n.clone()).zip(all_vals(t)).collect();
                match st.get(&key) {
                    Some(old) if vals_match(&schema, f, old) => {
                        st.insert(key, newv);
                        Some("ok".into())
                    }
                    Some(_) => {
                        rec.count("update-mismatch");
                        Some("err".into())
                    }
                    None => {
                        rec.count("update-missing");
                        Some("err".into())
                    }
                }
            }
            Op::Q(kind, k, p) => {
                let m = matches(&schema, &st, k, p);
                let n = m.len() as i64;
                rec.count(&format!("matches:{}", n.min(4)));
                Some(match kind {
                    Kind::Query => m.first().map(|(k, v)| show_fact(&schema, k, v)).unwrap_or("none".into()),
                    Kind::Exists => format!("b{}", (n > 0) as u8),
                    Kind::Count(l) => format!("i{}", n.min(*l)),
                    Kind::AtLeast(l) => format!("b{}", (n >= *l) as u8),
                    Kind::AtMost(l) => format!("b{}", (n <= *l) as u8),
                    Kind::Exactly(l) => format!("b{}", (n == *l) as u8),
                    Kind::Map => format!("[{}]", m.iter().map(|(k, v)| show_fact(&schema, k, v)).collect::<Vec<_>>().join(";")),
                })
            }
        };
        if let Some(want) = want {
            if want != real {
                rec.oracle_fail(format!("`{line}`: real `{real}`, fact-store model `{want}`"));
            }
        }
    }
    // ---- storage-level check: the committed facts are exactly the oracle's, in typed key order
    let raw = w.facts("F");
    let want_keys: Vec<Vec<Vec<u8>>> = st
        .keys()
        .map(|k| {
            schema
                .keys
                .iter()
                .zip(k)
                .map(|((n, _), v)| codec::ser_key(&FactKey::new(n.parse().unwrap(), v.to_hashable().unwrap())).to_vec())
                .collect()
        })
        .collect();
    let got_keys: Vec<Vec<Vec<u8>>> = raw.iter().map(|(k, _)| k.clone()).collect();
    if got_keys != want_keys {
        rec.oracle_fail(format!(
            "storage holds {} facts in an order/content different from the model's {} (typed key order)",
            got_keys.len(),
            want_keys.len()
        ));
    }
}

// ------------------------------------------------------------------ codec stream

fn codec_request(rec: &mut Recorder, line: &str) {
    let t: Vec<&str> = line.split(' ').collect();
    match t[0] {
        "serkey" if t.len() == 3 => {
            let (Some(id), Some(v)) = (unhex(t[1]), V::parse(t[2])) else {
                rec.line(line, "bad-op");
                return;
            };
            let (Some(ident), Some(h)) = (String::from_utf8(id).ok().and_then(|s| s.parse::<Identifier>().ok()), v.to_hashable()) else {
                rec.line(line, "bad-op");
                return;
            };
            let k = FactKey::new(ident, h);
            let bytes = codec::ser_key(&k);
            rec.line(line, hex(&bytes));
            match codec::deser_key(&bytes) {
                Ok(k2) if k2 == k => {}
                other => rec.oracle_fail(format!("{line}: deser_key(ser_key(k)) = {other:?}")),
            }
        }
        "cmpkey" if t.len() == 4 => {
            let (Some(id), Some(a), Some(b)) = (unhex(t[1]), V::parse(t[2]), V::parse(t[3])) else {
                rec.line(line, "bad-op");
                return;
            };
            let ident: Identifier = String::from_utf8(id).unwrap().parse().unwrap();
            let ka = codec::ser_key(&FactKey::new(ident.clone(), a.to_hashable().unwrap()));
            let kb = codec::ser_key(&FactKey::new(ident, b.to_hashable().unwrap()));
            let o = |x: std::cmp::Ordering| match x {
                std::cmp::Ordering::Less => "lt",
                std::cmp::Ordering::Equal => "eq",
                std::cmp::Ordering::Greater => "gt",
            };
            rec.line(line, o(ka.cmp(&kb)));
            // S level: typed order
            if a.ty() == b.ty() && ka.cmp(&kb) != a.cmp(&b) {
                rec.oracle_fail(format!("{line}: byte order {:?} but typed order {:?}", ka.cmp(&kb), a.cmp(&b)));
            }
        }
        "deserkey" if t.len() == 2 => {
            let Some(bytes) = unhex(t[1]) else {
                rec.line(line, "bad-op");
                return;
            };
            match vh::catch(|| codec::deser_key(&bytes)) {
                Err(p) => {
                    rec.panics.push(format!("{line}: {p}"));
                    rec.line(line, "panic");
                }
                Ok(Ok(k)) => {
                    rec.line(line, format!("ok {} {}", hex(k.identifier.as_str().as_bytes()), V::from_hashable(&k.value).tok()));
                    // S level: accepted input is canonical
                    if codec::ser_key(&k).as_ref() != bytes.as_slice() {
                        rec.oracle_fail(format!("{line}: accepted, but re-encodes differently"));
                    }
                }
                Ok(Err(e)) => rec.line(line, format!("err {}", e.replace(' ', "-"))),
            }
        }
        _ => rec.line(line, "bad-op"),
    }
}

// ------------------------------------------------------------------ generators

const INTS: [i64; 14] = [i64::MIN, i64::MIN + 1, -256, -2, -1, 0, 1, 2, 255, 256, 65536, 1 << 32, i64::MAX - 1, i64::MAX];
const STRS: [&str; 9] = ["", "a", "ab", "b", "A", "a b", "\u{e9}", "~", "zz9"];

fn gen_val(rng: &mut Rng, ty: Ty, narrow: u64) -> V {
    // `narrow`: size of the pool actually used in this case (small pools make collisions)
    match ty {
        Ty::Int => {
            if rng.chance(1, 12) {
                V::Int(rng.next_u64() as i64)
            } else {
                // boundary values across the sign boundary are over-weighted
                V::Int(INTS[rng.below((narrow * 3).min(INTS.len() as u64)) as usize + (INTS.len() - (narrow as usize * 3).min(INTS.len())) / 2])
            }
        }
        Ty::Bool => V::Bool(rng.chance(1, 2)),
        Ty::Str => V::Str(STRS[rng.below(narrow.min(STRS.len() as u64)) as usize].as_bytes().to_vec()),
        Ty::Id => {
            let b = [0x00u8, 0x01, 0x7f, 0x80, 0xff][rng.below(narrow.min(5)) as usize];
            let mut id = vec![b; 32];
            if rng.chance(1, 3) {
                id[31] = id[31].wrapping_add(1);
            }
            if rng.chance(1, 4) {
                id[0] = 0;
            }
            V::Id(id)
        }
        Ty::Enum => V::Enum(rng.below(3) as i64, ENUM_NAME.into()),
    }
}

fn gen_ty(rng: &mut Rng) -> Ty {
    match rng.below(10) {
        0..=3 => Ty::Int,
        4 => Ty::Bool,
        5..=6 => Ty::Str,
        7 => Ty::Id,
        _ => Ty::Enum,
    }
}

fn gen_schema(rng: &mut Rng) -> Schema {
    let nk = match rng.below(20) {
        0 => 0,
        1..=7 => 1,
        8..=15 => 2,
        _ => 3,
    };
    let nv = rng.below(3) as usize;
    const KN: [&str; 6] = ["k", "key_0", "K9", "a", "kk", "z_"];
    const VN: [&str; 5] = ["v", "val_0", "W", "b", "vv"];
    let mut kn: Vec<&str> = KN.to_vec();
    rng.shuffle(&mut kn);
    let mut vn: Vec<&str> = VN.to_vec();
    rng.shuffle(&mut vn);
    Schema {
        keys: (0..nk).map(|i| (kn[i].to_string(), gen_ty(rng))).collect(),
        vals: (0..nv).map(|i| (vn[i].to_string(), gen_ty(rng))).collect(),
    }
}

fn pos_of(rng: &mut Rng, v: V, lit_ok: bool) -> Pos {
    if lit_ok && v.literal().is_some() && rng.chance(1, 3) {
        Pos::Lit(v)
    } else {
        Pos::Param(v)
    }
}

fn gen_case(rng: &mut Rng, thorough: bool) -> Vec<String> {
    let schema = gen_schema(rng);
    let narrow = rng.range(2, 5);
    let mut lines = vec![schema_line(&schema)];
    let nops = rng.range(8, if thorough { 60 } else { 30 });
    // keys seen so far (to aim deletes/updates/queries at existing facts)
    let mut seen: Vec<(Vec<V>, Vec<V>)> = vec![];
    let key_of = |rng: &mut Rng, seen: &Vec<(Vec<V>, Vec<V>)>, hit: bool| -> Vec<V> {
        if hit && !seen.is_empty() {
            seen[rng.below(seen.len() as u64) as usize].0.clone()
        } else {
            schema.keys.iter().map(|(_, t)| gen_val(rng, *t, narrow)).collect()
        }
    };
    for i in 0..nops {
        let r = rng.below(100);
        let op = if i >= 3 && r >= 88 {
            // several maps in one action: nested (directly / through a called action) or in sequence
            let mut part = |rng: &mut Rng, inner: bool| -> Part {
                let fact = if rng.chance(1, 2) { 'F' } else { 'G' };
                let at = inner && !schema.keys.is_empty() && rng.chance(1, 2);
                let hit = rng.chance(3, 4);
                let full = key_of(rng, &seen, hit);
                // mostly few bound keys, so that the outer map visits several facts
                let maxb = schema.keys.len().saturating_sub(at as usize);
                let b = if rng.chance(2, 3) { 0 } else { rng.below(maxb as u64 + 1) as usize };
                let keys: Vec<Pos> = full.into_iter().skip(at as usize).take(b).map(|v| pos_of(rng, v, true)).collect();
                let pat = if rng.chance(1, 2) || seen.is_empty() {
                    None
                } else {
                    let cur = seen[rng.below(seen.len() as u64) as usize].1.clone();
                    Some(
                        schema
                            .vals
                            .iter()
                            .enumerate()
                            .map(|(i, _)| if rng.chance(1, 2) { Pos::Bind } else { pos_of(rng, cur[i].clone(), true) })
                            .collect(),
                    )
                };
                Part { fact, at, keys, pat }
            };
            match rng.below(5) {
                0..=1 => Op::MapX(Shape::Nest, vec![part(rng, false), part(rng, true)]),
                2..=3 => Op::MapX(Shape::NestCall, vec![part(rng, false), part(rng, true)]),
                _ => Op::MapX(Shape::Seq, (0..rng.range(2, 3)).map(|_| part(rng, false)).collect()),
            }
        } else if i >= 2 && r >= 78 && r < 88 {
            // the second fact `G` (same schema), mostly with keys that `F` also has
            let hit = rng.chance(2, 3);
            let k = key_of(rng, &seen, hit);
            let v: Vec<V> = schema.vals.iter().map(|(_, t)| gen_val(rng, *t, narrow)).collect();
            seen.push((k.clone(), v.clone()));
            Op::CreateG(k.into_iter().map(|v| pos_of(rng, v, true)).collect(), v.into_iter().map(|v| pos_of(rng, v, true)).collect())
        } else if r < 35 || i < 3 {
            let hit = rng.chance(1, 12);
            let k = key_of(rng, &seen, hit);
            let v: Vec<V> = schema.vals.iter().map(|(_, t)| gen_val(rng, *t, narrow)).collect();
            seen.push((k.clone(), v.clone()));
            Op::Create(k.into_iter().map(|v| pos_of(rng, v, true)).collect(), v.into_iter().map(|v| pos_of(rng, v, true)).collect())
        } else if r < 43 {
            let hit = rng.chance(5, 6);
            let k = key_of(rng, &seen, hit);
            Op::Delete(k.into_iter().map(|v| pos_of(rng, v, true)).collect())
        } else if r < 55 {
            let hit = rng.chance(5, 6);
            let k = key_of(rng, &seen, hit);
            // from-pattern: the (probably) current values, with binds / absent / a wrong value
            let cur: Option<Vec<V>> = seen.iter().rev().find(|(kk, _)| *kk == k).map(|(_, v)| v.clone());
            let from = if rng.chance(1, 4) {
                None
            } else {
                Some(
                    schema
                        .vals
                        .iter()
                        .enumerate()
                        .map(|(i, (_, t))| {
                            if rng.chance(1, 3) {
                                Pos::Bind
                            } else {
                                let v = match &cur {
                                    Some(c) if !rng.chance(1, 8) => c[i].clone(),
                                    _ => gen_val(rng, *t, narrow),
                                };
                                pos_of(rng, v, true)
                            }
                        })
                        .collect(),
                )
            };
            let to: Vec<V> = schema.vals.iter().map(|(_, t)| gen_val(rng, *t, narrow)).collect();
            seen.push((k.clone(), to.clone()));
            Op::Update(
                k.into_iter().map(|v| pos_of(rng, v, true)).collect(),
                from,
                to.into_iter().map(|v| pos_of(rng, v, true)).collect(),
            )
        } else {
            let kind = match rng.below(14) {
                0..=2 => Kind::Query,
                3 => Kind::Exists,
                4..=5 => Kind::Count(rng.range(1, 4) as i64),
                6 => Kind::AtLeast(rng.range(1, 4) as i64),
                7 => Kind::AtMost(rng.range(1, 4) as i64),
                8 => Kind::Exactly(rng.range(1, 4) as i64),
                9 => Kind::Count(if rng.chance(1, 2) { i64::MAX } else { i64::MAX - 1 }),
                _ => Kind::Map,
            };
            let hit = rng.chance(4, 5);
            let full = key_of(rng, &seen, hit);
            let b = rng.below(schema.keys.len() as u64 + 1) as usize;
            let keys: Vec<Pos> = full.into_iter().take(b).map(|v| pos_of(rng, v, true)).collect();
            let pat = if rng.chance(1, 2) {
                None
            } else {
                let cur: Option<Vec<V>> = if seen.is_empty() { None } else { Some(seen[rng.below(seen.len() as u64) as usize].1.clone()) };
                Some(
                    schema
                        .vals
                        .iter()
                        .enumerate()
                        .map(|(i, (_, t))| {
                            if rng.chance(1, 2) {
                                Pos::Bind
                            } else {
                                let v = match &cur {
                                    Some(c) if rng.chance(2, 3) => c[i].clone(),
                                    _ => gen_val(rng, *t, narrow),
                                };
                                pos_of(rng, v, true)
                            }
                        })
                        .collect(),
                )
            };
            Op::Q(kind, keys, pat)
        };
        lines.push(op.line());
    }
    // final full listing
    lines.push(Op::Q(Kind::Map, vec![], None).line());
    lines.push(
        Op::MapX(
            Shape::Nest,
            vec![Part { fact: 'F', at: false, keys: vec![], pat: None }, Part { fact: 'G', at: !schema.keys.is_empty(), keys: vec![], pat: None }],
        )
        .line(),
    );
    lines
}

fn gen_codec_case(rng: &mut Rng) -> Vec<String> {
    let mut lines = vec![];
    const IDS: [&str; 5] = ["k", "key_0", "K9", "a_long_identifier_name_0123456789", "z"];
    for _ in 0..rng.range(4, 12) {
        let id = hex(IDS[rng.below(5) as usize].as_bytes());
        let ty = [Ty::Int, Ty::Int, Ty::Bool, Ty::Str, Ty::Id, Ty::Enum][rng.below(6) as usize];
        let mk = |rng: &mut Rng| -> V {
            match ty {
                Ty::Enum => V::Enum(
                    if rng.chance(1, 2) { INTS[rng.below(14) as usize] } else { rng.below(3) as i64 },
                    ["Col", "C", "Colz", "A9_"][rng.below(4) as usize].into(),
                ),
                Ty::Id if rng.chance(1, 2) => V::Id(rng.bytes(32)),
                Ty::Int if rng.chance(1, 2) => V::Int(rng.next_u64() as i64),
                t => gen_val(rng, t, 14),
            }
        };
        let a = mk(rng);
        let b = if rng.chance(1, 8) { a.clone() } else { mk(rng) };
        match rng.below(4) {
            0 => lines.push(format!("serkey {id} {}", a.tok())),
            1 | 2 => lines.push(format!("cmpkey {id} {} {}", a.tok(), b.tok())),
            _ => {
                // a valid encoding, then mutated
                let k = FactKey::new(String::from_utf8(unhex(&id).unwrap()).unwrap().parse().unwrap(), a.to_hashable().unwrap());
                let mut bytes = codec::ser_key(&k).to_vec();
                match rng.below(7) {
                    0 => {}
                    1 => bytes.truncate(rng.below(bytes.len() as u64 + 1) as usize),
                    2 => {
                        let n = rng.range(1, 3) as usize;
                        bytes.extend(rng.bytes(n));
                    }
                    3 => {
                        let i = rng.below(bytes.len() as u64) as usize;
                        bytes[i] ^= 1 << rng.below(8);
                    }
                    4 => {
                        // tag byte
                        let i = 8 + unhex(&id).unwrap().len();
                        bytes[i] = rng.below(8) as u8;
                    }
                    5 => {
                        // length field lie
                        bytes[7] = bytes[7].wrapping_add(rng.range(1, 3) as u8);
                    }
                    _ => {
                        let n = rng.below(24) as usize;
                        bytes = rng.bytes(n);
                    }
                }
                lines.push(format!("deserkey {}", hex(&bytes)));
            }
        }
    }
    lines
}

fn main() {
    let args = Args::parse();
    vh::quiet_panics();
    let mut rec = Recorder::new(&args.out);
    if let Some(p) = &args.replay {
        let lines = vh::read_replay_input(p);
        rec.begin_case();
        if lines.first().map(|l| l.starts_with("schema")).unwrap_or(false) {
            run_case(&mut rec, &lines);
        } else {
            for l in &lines {
                codec_request(&mut rec, l);
            }
        }
        rec.finish(args.seed, &args.tier);
        return;
    }
    let mut rng = Rng::new(args.seed);
    let thorough = args.thorough() || args.search;
    let cases = args.budget(60, 700);
    let mut shapes_seen: BTreeSet<u64> = BTreeSet::new();
    for _ in 0..cases {
        let lines = gen_case(&mut rng, thorough);
        rec.begin_case();
        rec.count("case:policy");
        for l in &lines[1..] {
            rec.count(&format!("op:{}", l.split(' ').next().unwrap()));
        }
        let s = parse_schema(&lines[0]).unwrap();
        rec.count(&format!("nkeys:{}", s.keys.len()));
        for (_, t) in &s.keys {
            rec.count(&format!("keytype:{}", t.code()));
        }
        if lines.len() >= 6 {
            rec.nontrivial(fnv(&lines.join(";")));
        }
        shapes_seen.insert(fnv(&lines[0]));
        run_case(&mut rec, &lines);
    }
    let ccases = args.budget(300, 6000);
    for _ in 0..ccases {
        let lines = gen_codec_case(&mut rng);
        rec.begin_case();
        rec.count("case:codec");
        rec.nontrivial(fnv(&lines.join(";")));
        for l in &lines {
            rec.count(&format!("op:{}", l.split(' ').next().unwrap()));
            codec_request(&mut rec, l);
        }
    }
    rec.notes.push(format!("{} distinct schemas", shapes_seen.len()));
    rec.finish(args.seed, &args.tier);
}
