//! playground (temporary)
use aranya_policy_vm::Value;
use vh::policykit as pk;

fn main() {
    let src = std::fs::read_to_string(std::env::args().nth(1).unwrap()).unwrap();
    let m = match pk::compile(&src, true) {
        pk::Compiled::Ok(m) => m,
        pk::Compiled::ParseError(e) => { println!("PARSE {e}"); return; }
        pk::Compiled::Rejected(e) => { println!("REJECT {e}"); return; }
    };
    let mut w = pk::World::new(m).unwrap();
    for (k, v) in [(i64::MIN, 1), (-1, 2), (0, 3), (1, 4), (i64::MAX, 5)] {
        let (r, s) = w.act("put", &[Value::Int(k), Value::Int(v)]);
        println!("put {k} -> {r:?} {}", s.0.len());
    }
    let (r, s) = w.act("q1", &[]);
    println!("q1 -> {r:?}");
    for e in s.effects() { println!("  {} {} recalled={}", e.name, pk::show_fields(&e.fields), e.recalled); }
    let (r, s) = w.act("m1", &[]);
    println!("m1 -> {r:?}");
    for e in s.effects() { println!("  {} {} recalled={}", e.name, pk::show_fields(&e.fields), e.recalled); }
    println!("{:?}", w.facts("F").len());
}
